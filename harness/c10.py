"""C10 — the engine runs exactly what is in the hierarchy after any structural history."""
import contextlib
import io
import random

from harness import common, struct

FAMILY = 'struct (engine bookkeeping) + full engine runs with a scripted director'
RULE = ('book stream: histories as C09 applied through Engine.apply_update; after every update the process table, the '
        'step table, the step graph (sequential list, nodes, edges) and the four published dicts are compared with '
        'Model/Struct.v book_apply. run stream: the same histories issued by a director PROCESS, one update per tick, '
        'under the real scheduler with compartment timesteps 1-3 (so updates are in flight when structure changes); '
        'after every tick: tables = hierarchy, published composite = store getters, each process alive at the start of '
        'the tick invoked exactly once, each step alive after the batch run exactly once, nothing deleted invoked; at '
        'the end an engine rebuilt from the published composite and the current state must continue identically; '
        'half of the engines are built from a Composite, which must then hold what the engine publishes. '
        'live stream (as C07): the histories issued by a director process or a director STEP inside a running engine '
        'built from its parts or from a generated store; per step phase every kit step that exists at its place when '
        'the phase begins and when it ends must have run exactly once, one created during the phase not at all. '
        'Non-trivial: >=3 updates.')
ASSUMPTIONS = __import__('harness.c09', fromlist=['x']).ASSUMPTIONS + [
    'closed flows: flow dependencies stay inside a compartment that is deleted / moved / divided as a unit',
]
IMPORTS, CHECK_FN, BAD_TERM = struct.IMPORTS, struct.CHECK_FN, struct.BAD_TERM
def model_output(case, ob):
    if case['kind'] == 'live':
        from harness import live
        return common.coq_eval('LIVE', live.IMPORTS, 'model_out_all %s' % live.render(case, ob))[:4000]
    return struct.model_output(case, ob)


def generate(seed, tier, enlarged=False):
    rng = random.Random(seed * 977 + 10)
    n = 120 if tier == 'quick' else 2500
    if enlarged:
        n *= 3
    cases = [
        # corpus: the known findings K3 (inheriting daughters copy a pending command), K6 (explicit daughters with
        # an empty flow publish the mother's flow), K8 (inheriting daughters lose the mother's steps)
        {'kind': 'run', 'hist': [['A', [['generate', 'c01', 0, {}]]], ['A', [['generate', 'c02', 0, {}]]],
                                 ['A', [['divide', 'c01', [['c03', None, {}], ['c04', None, {}]], 5]]],
                                 ['B', [['generate', 'c05', 0, {}]]]], 'ts': [3, 3, 3, 3, 3, 3], 'extra': 2},
        {'kind': 'run', 'hist': [['A', [['generate', 'c01', 3, {}]]], ['B', [['generate', 'c02', 0, {}]]],
                                 ['A', [['divide', 'c01', [['c03', 0, {}], ['c04', 1, {}]], 7]]]],
         'ts': [1] * 12, 'extra': 2},
        {'kind': 'run', 'hist': [['A', [['generate', 'c01', 3, {}]]], ['B', [['generate', 'c02', 0, {}]]],
                                 ['A', [['divide', 'c01', [['c03', None, {}], ['c04', None, {}]], 7]]]],
         'ts': [1] * 12, 'extra': 2},
    ]
    for i in range(n):
        if i % 2 == 0:
            cases.append({'kind': 'hist', 'hist': struct.gen_history(rng, rng.randint(3, 10 if tier == 'quick' else 25))})
        else:
            cases.append({'kind': 'run', 'hist': struct.gen_history(rng, rng.randint(3, 9), allow_bad=False),
                          'ts': [rng.choice([1, 1, 2, 3]) for _ in range(40)], 'extra': rng.randint(1, 3),
                          'entry': rng.choice(['parts', 'composite'])})
    # steps under structural updates issued by steps of the same phase: the live stream of C07, judged here by
    # its exactly-once-per-phase oracle (and compared with Model/Views.v as there)
    from harness import live
    cases += [live.gen_case(rng) for _ in range(n // 5)]
    # corpus: known finding K10 (a compartment is moved while its sensor, timestep 3, has an update in flight)
    cases.append({'kind': 'live', 'hist': [['A', [['generate', 'c01', 0, {}]]], ['A', [['generate', 'c02', 0, {}]]],
                                           ['A', [['move', 'c02', 'B']]], ['B', [['generate', 'c03', 0, {}]]]],
                  'director': 'process', 'refresh': [], 'extra': 2, 'slow': True, 'entry': 'parts', 'more': {}})
    # corpus: a director step deletes a compartment whose second flow step sorts before another compartment's
    # in the next layer of the same phase
    cases.append({'kind': 'live', 'hist': [['A', [['generate', 'c01', 2, {}]]], ['A', [['generate', 'c02', 2, {}]]],
                                           ['A', [['delete', 'c01']]], ['B', [['generate', 'c03', 0, {}]]]],
                  'director': 'step', 'refresh': [], 'extra': 2, 'slow': False, 'entry': 'parts', 'more': {}})
    # _move whose source is a nested path: the process table and the published composite after it (the nested-move
    # stream of C09: Model/Struct.v OpMoveP, consistent_movep)
    from harness import nestmove
    cases += [nestmove.gen_case(rng) for _ in range(n // 4)]
    return cases


def prune(d):
    if not isinstance(d, dict):
        return d
    out = {k: prune(v) for k, v in d.items()}
    return {k: v for k, v in out.items() if not (isinstance(v, dict) and not v)}


def flat(d, pre=()):
    out = {}
    for k, v in (d or {}).items():
        if isinstance(v, dict):
            out.update(flat(v, pre + (k,)))
        else:
            out[pre + (k,)] = v
    return out


def strip_state(v):
    if isinstance(v, dict):
        return {k: strip_state(x) for k, x in v.items() if not isinstance(x, tuple)}
    return v


def values_only(v):
    """the variables of a get_value() dump"""
    if isinstance(v, dict):
        out = {k: values_only(x) for k, x in v.items() if not isinstance(x, tuple)}
        return out
    return v


def run_director(c):
    from vivarium.core.engine import Engine
    from vivarium.core.process import Process
    K = struct.kit()
    hist = c['hist']
    tsi = iter(c['ts'])

    class Director(Process):
        def __init__(self, parameters=None):
            super().__init__(parameters)
            self.k = 0

        def ports_schema(self):
            return {'A': {'*': K['SUB']}, 'B': {'*': K['SUB']}}

        def next_update(self, ts, states):
            struct.CALLS.append(('X', id(self)))
            i = self.k
            self.k += 1
            if i >= len(hist):
                return {}
            col, ops = hist[i][0], hist[i][1]
            upd, seed = py_update_ts(col, ops, tsi)
            if seed is not None:
                random.seed(seed)
            return upd

    problems = []
    keep = []
    with contextlib.redirect_stdout(io.StringIO()):
        director = Director()
        comp = None
        if c.get('entry') == 'composite':
            # built from a Composite (with no steps and an empty flow at construction): everything the engine
            # publishes must also be written back into that Composite
            from vivarium.core.composer import Composite
            comp = Composite({'processes': {'holder': director}, 'topology': {'holder': {'A': ('A',), 'B': ('B',)}}})
            eng = Engine(composite=comp, display_info=False)
        else:
            eng = Engine(processes={'holder': director}, topology={'holder': {'A': ('A',), 'B': ('B',)}},
                         display_info=False)
        nticks = len(hist) + c['extra']
        for tick in range(nticks):
            live_before = {id(p) for p in eng.process_paths.values()}
            del struct.CALLS[:]
            try:
                eng.update(1)
            except Exception as e:
                msg = str(e)
                inherit_before = any(op[0] == 'divide' and any(d[1] is None for d in op[2])
                                     for e_ in hist[:tick + 1] for op in e_[1])
                sig = 'divide-copies-pending' if ('Trying to send command' in msg and inherit_before) else 'engine-raised'
                problems.append(('engine raised at tick %d: %s: %s' % (tick, type(e).__name__, msg[:160]), sig))
                break
            st = eng.state
            keep.extend(eng.process_paths.values())
            keep.extend(eng._step_paths.values())
            fp, fs = flat(st.get_processes() or {}), flat(st.get_steps() or {})
            if set(eng.process_paths) != set(fp):
                problems.append(('tick %d: process table %r differs from the hierarchy: %r'
                                 % (tick, sorted(set(eng.process_paths) ^ set(fp)), 'symmetric difference'), 'process-table'))
            elif any(eng.process_paths[p] is not fp[p] for p in fp):
                problems.append(('tick %d: the process table holds a stale object' % tick, 'process-table-object'))
            if set(eng._step_paths) != set(fs):
                problems.append(('tick %d: step table differs from the hierarchy by %r'
                                 % (tick, sorted(set(eng._step_paths) ^ set(fs))), 'step-table'))
            g = eng._step_graph
            seq, gnodes = g._sequential_steps, set(g._graph.nodes)
            if len(seq) != len(set(seq)) or set(seq) & gnodes or (set(seq) | gnodes) != set(fs):
                problems.append(('tick %d: step graph %r + %r does not match the steps %r'
                                 % (tick, seq, sorted(gnodes), sorted(fs)), 'step-graph'))
            pub = dict(flat(prune(eng.processes)))
            pub.update(flat(prune(eng.steps)))
            live = dict(fp)
            live.update(fs)
            if set(pub) != set(live) or any(pub[k] is not live[k] for k in pub):
                problems.append(('tick %d: published processes/steps differ from the hierarchy by %r'
                                 % (tick, sorted(set(pub) ^ set(live))), 'published-processes'))
            pt, stt = set(flat(prune(eng.topology))), set(flat(prune(st.get_topology() or {})))
            if prune(eng.topology) != prune(st.get_topology() or {}):
                problems.append(('tick %d: published topology differs from the hierarchy by %r' % (tick, sorted(pt ^ stt)),
                                 'divide-inherits-topology' if (pt - stt) and not (stt - pt) else 'published-topology'))
            pf, sf = flat_lists(prune(eng.flow)), flat_lists(prune(st.get_flow() or {}))
            if pf != sf:
                extra_keys = set(pf) - set(sf)
                problems.append(('tick %d: published flow differs from the hierarchy: %r vs %r' % (tick, pf, sf),
                                 'divide-inherits-flow' if extra_keys and not (set(sf) - set(pf)) and
                                 all(pf[k] == sf[k] for k in set(pf) & set(sf)) else 'published-flow'))
            if comp is not None:
                for name in ('processes', 'steps', 'flow', 'topology'):
                    if prune(comp[name]) != prune(getattr(eng, name)):
                        problems.append(('tick %d: the Composite the engine was built from holds %s %r, the engine '
                                         'publishes %r' % (tick, name, sorted(flat_lists(prune(comp[name]))),
                                                           sorted(flat_lists(prune(getattr(eng, name))))),
                                         'composite-not-written-back'))
                        break
            # invocations
            pcalls = [cid for kind, cid in struct.CALLS if kind in ('P', 'X')]
            if sorted(pcalls) != sorted(live_before):
                problems.append(('tick %d: processes invoked %d times, %d were alive at its start (lost, doubled or dead ones)'
                                 % (tick, len(pcalls), len(live_before)), 'process-invocations'))
            scalls = [cid for kind, cid in struct.CALLS if kind in 'DFG']
            if sorted(scalls) != sorted(id(s) for s in eng._step_paths.values()):
                problems.append(('tick %d: steps run %d times, %d exist after the batch (missed, doubled or dead ones)'
                                 % (tick, len(scalls), len(eng._step_paths)), 'step-invocations'))
            if problems:
                break
        # rebuilt engine continues identically
        if not problems:
            try:
                state = strip_state(eng.state.get_value())
                src = comp if comp is not None else {'processes': eng.processes, 'steps': eng.steps,
                                                     'flow': eng.flow, 'topology': eng.topology}
                eng2 = Engine(processes=src['processes'], steps=src['steps'], flow=src['flow'],
                              topology=src['topology'], initial_state=state, display_info=False)
                traj1, traj2 = [], []
                for _ in range(3):
                    eng.update(1)
                    eng2.update(1)
                    traj1.append(values_only(eng.state.get_value()))
                    traj2.append(values_only(eng2.state.get_value()))
                if traj1 != traj2:
                    problems.append(('an engine rebuilt from the published composite diverges from the original',
                                     'rebuild-diverges'))
            except Exception as e:
                msg = '%s: %s' % (type(e).__name__, str(e)[:120])
                problems.append(('an engine cannot be rebuilt from the published composite: ' + msg,
                                 'divide-inherits-flow' if 'Unknown dependency' in msg else 'rebuild-fails'))
    return {'ok': 1, 'problems': problems}


def flat_lists(d, pre=()):
    out = {}
    for k, v in (d or {}).items():
        if isinstance(v, dict):
            out.update(flat_lists(v, pre + (k,)))
        else:
            out[pre + (k,)] = [tuple(x) for x in v] if isinstance(v, list) else v
    return out


def py_update_ts(col, ops, tsi):
    """struct.py_update with compartment timesteps drawn from the case"""
    orig = struct.compartment

    def comp(kind, ts=1):
        return orig(kind, next(tsi, 1))
    struct.compartment = comp
    try:
        return struct.py_update(col, ops)
    finally:
        struct.compartment = orig


def run_impl(c):
    if c['kind'] == 'hist':
        return struct.run_impl(c)
    return run_director(c)


def render(c, ob):
    if c['kind'] == 'hist':
        return struct.render(c, ob)
    return '(HHist vfixed [] [])'


def oracle(c, ob, rng):
    if c['kind'] == 'run':
        return ob['problems'][:2]
    # book stream: bookkeeping equals what the hierarchy holds, on the implementation's own observations
    msgs = []
    for i, o in enumerate(ob['obs']):
        if 'err' in o:
            break
        procs, steps = set(), set()

        def walk(a, path=()):
            if a[0] == 'proc':
                (steps if a[3] else procs).add(path)
            elif a[0] == 'dir':
                for k, v in a[2].items():
                    walk(v, path + (k,))
        walk(o['tree'])
        b = o['book']
        if {tuple(p) for p in b['procs']} != procs:
            msgs.append(('after update %d the process table is %r, the hierarchy holds %r' % (i, b['procs'], sorted(procs)),
                         'process-table'))
        if {tuple(p) for p in b['steps']} != steps:
            msgs.append(('after update %d the step table is %r, the hierarchy holds %r' % (i, b['steps'], sorted(steps)),
                         'step-table'))
        seq, gn = [tuple(p) for p in b['seq']], {tuple(p) for p in b['gnodes']}
        if len(seq) != len(set(seq)) or set(seq) & gn or set(seq) | gn != steps:
            msgs.append(('after update %d the step graph does not hold each step once' % i, 'step-graph'))
        if {tuple(p) for p in b['pubp']} | {tuple(p) for p in b['pubs']} != procs | steps:
            msgs.append(('after update %d the published processes/steps differ from the hierarchy' % i, 'published-processes'))
        if {tuple(p) for p in b['pubt']} != procs | steps:
            extra = {tuple(p) for p in b['pubt']} - (procs | steps)
            msgs.append(('after update %d the published topology lists %r beyond the hierarchy' % (i, sorted(extra)),
                         'divide-inherits-topology' if extra and not ((procs | steps) - {tuple(p) for p in b['pubt']})
                         else 'published-topology'))
        if msgs:
            break
    return msgs[:2]


def stat_key(c, ob):
    if c['kind'] == 'live':
        from harness import live
        return live.stat_key(c, ob)
    if c['kind'] == 'run':
        return 'run/%s' % ('clean' if not ob['problems'] else ob['problems'][0][1])
    return 'book/' + struct.stat_key(c, ob)


def nontrivial(c, ob):
    return len(c['hist']) >= 3


def run(cases, tier='quick', seed=0):
    from harness import live
    me = __import__('harness.c10', fromlist=['x'])

    class Live:
        __name__ = 'harness.live'
        IMPORTS, CHECK_FN, BAD_TERM = live.IMPORTS, live.CHECK_FN, live.BAD_TERM
        run_impl, render = staticmethod(live.run_impl), staticmethod(live.render)
        oracle = staticmethod(lambda c, ob, rng: live.oracle_raised(c, ob, rng) + live.oracle_phases(c, ob, rng))
        nontrivial, stat_key = staticmethod(live.nontrivial), staticmethod(live.stat_key)
    from harness import nestmove, struct

    class Nest:
        __name__ = 'harness.nestmove'
        IMPORTS, CHECK_FN, BAD_TERM = struct.IMPORTS, struct.CHECK_FN, struct.BAD_TERM
        run_impl, oracle = staticmethod(nestmove.run_impl), staticmethod(nestmove.oracle)
        nontrivial, stat_key = staticmethod(nestmove.nontrivial), staticmethod(nestmove.stat_key)
        render = staticmethod(nestmove.render)
    return common.merge_streams(cases, [
        (lambda c: c['kind'] == 'nestmove', lambda cs: common.generic_run(Nest, cs, seed, shard=40)),
        (lambda c: c['kind'] not in ('live', 'nestmove'), lambda cs: common.generic_run(me, cs, seed, shard=40)),
        (lambda c: c['kind'] == 'live', lambda cs: common.generic_run(Live, cs, seed, shard=20))])
