"""C09 stream (oracle only): the frame condition on values the structural model does not carry - variables that were
legitimately set to None, strings, and mutable values (dicts under dict_value / the default `set` divider).

A colony `agents` (glob port of a manager process: mass, partner - default 'nobody' -, memo - a dict) with 3-4
compartments; some partners are cleared to None and some memos filled through the store's own updaters; then 1-5
structural updates (_generate, _add, _delete, _divide) on OTHER keys.  After every update
every untouched compartment must be the same node object with exactly the values it had; the two daughters of a
division must not share value objects with each other."""
import contextlib
import copy
import io
import random

KEYS = ['a', 'b', 'c', 'd']


def gen_case(rng):
    n = rng.randint(3, 4)
    keys = KEYS[:n]
    cleared = [k for k in keys if rng.random() < 0.5] or [keys[0]]
    memos = {k: {'m%d' % rng.randint(0, 3): rng.randint(0, 9)} for k in keys if rng.random() < 0.6}
    ops, live, fresh = [], list(keys), iter('efghijklmnop')
    for _ in range(rng.randint(1, 5)):
        kind = rng.choice(['generate', 'generate', 'add', 'delete', 'divide'])
        if kind in ('generate', 'add'):
            k = next(fresh)
            ops.append([kind, k])
            live.append(k)
        elif len(live) > 2:
            k = rng.choice(live)
            live.remove(k)
            if kind == 'divide':
                d1, d2 = next(fresh), next(fresh)
                ops.append(['divide', k, d1, d2])
                live += [d1, d2]
            else:
                ops.append([kind, k])
    return {'kind': 'frame', 'keys': keys, 'cleared': cleared, 'memos': memos, 'ops': ops}


def corpus():
    return [{'kind': 'frame', 'keys': ['a', 'b', 'c'], 'cleared': ['a'], 'memos': {'b': {'m1': 4}},
             'ops': [['generate', 'e'], ['divide', 'b', 'f', 'g']]}]


def snapshot(store, keys):
    out = {}
    for k in keys:
        node = store.get_path(('agents', k))
        out[k] = (id(node), copy.deepcopy(node.get_value()))
    return out


def run_impl(c):
    from vivarium.core.process import Process
    from vivarium.core.store import generate_state

    class Manager(Process):
        def ports_schema(self):
            sub = {'mass': {'_default': 1.0, '_updater': 'set'},
                   'partner': {'_default': 'nobody', '_updater': 'set'},
                   'memo': {'_default': {}, '_updater': 'dict_value'}}
            return {'agents': {'*': sub}, 'others': {'*': copy.deepcopy(sub)}}

        def next_update(self, ts, states):
            return {}
    problems = []
    try:
        with contextlib.redirect_stdout(io.StringIO()):
            store = generate_state({'manager': Manager()}, {'manager': {'agents': ('agents',), 'others': ('others',)}},
                                   {'agents': {k: {'mass': 2.0 + i} for i, k in enumerate(c['keys'])}, 'others': {}})
            for k in c['cleared']:
                store.apply_update({'agents': {k: {'partner': None}}})
            for k, m in c['memos'].items():
                store.apply_update({'agents': {k: {'memo': {'_add': [{'key': kk, 'state': v} for kk, v in m.items()]}}}})
            live = list(c['keys'])
            for i, op in enumerate(c['ops']):
                touched = set(op[1:])
                before = snapshot(store, [k for k in live if k not in touched])
                if op[0] == 'generate':
                    upd = {'_generate': [{'key': op[1], 'processes': {}, 'topology': {}, 'initial_state': {}}]}
                    live.append(op[1])
                elif op[0] == 'add':
                    # the added state clears a variable on purpose (None) and leaves `memo` to its default
                    upd = {'_add': [{'key': op[1], 'state': {'mass': 9.0, 'partner': None}}]}
                    live.append(op[1])
                elif op[0] == 'delete':
                    upd = {'_delete': [op[1]]}
                    live.remove(op[1])
                else:
                    upd = {'_divide': {'mother': op[1], 'daughters': [{'key': op[2]}, {'key': op[3]}]}}
                    live.remove(op[1])
                    live += [op[2], op[3]]
                store.get_path(('agents',)).apply_update(upd)
                after = snapshot(store, list(before))
                for k, (nid, val) in before.items():
                    if after[k][0] != nid:
                        problems.append('update %d (%s): untouched compartment %r is another node object' % (i, op[0], k))
                    elif after[k][1] != val:
                        problems.append('update %d (%s %s): untouched compartment %r changed from %r to %r'
                                        % (i, op[0], '/'.join(op[1:]), k, val, after[k][1]))
                if op[0] == 'add':
                    got = store.get_path(('agents', op[1])).get_value()
                    if got != {'mass': 9.0, 'partner': None, 'memo': {}}:
                        problems.append('update %d (add %s): the new compartment holds %r, given mass 9.0 and partner '
                                        'None, memo left to its default {}' % (i, op[1], got))
                if op[0] == 'divide':
                    n1, n2 = store.get_path(('agents', op[2])), store.get_path(('agents', op[3]))
                    m1, m2 = n1.get_path(('memo',)).get_value(), n2.get_path(('memo',)).get_value()
                    if isinstance(m1, dict) and m1 is m2:
                        problems.append('update %d: the daughters %r and %r hold the very same memo object' % (i, op[2], op[3]))
                    else:
                        # an in-place update of one daughter must not reach the other
                        sib = copy.deepcopy(m2)
                        store.apply_update({'agents': {op[2]: {'memo': {'_add': [{'key': 'zz', 'state': 1}]}}}})
                        if n2.get_path(('memo',)).get_value() != sib:
                            problems.append('update %d: an update of daughter %r changed daughter %r' % (i, op[2], op[3]))
                if problems:
                    break
    except Exception as e:
        return {'err': '%s: %s' % (type(e).__name__, str(e)[:200]), 'problems': problems}
    return {'ok': 1, 'problems': problems}


def oracle(c, ob, rng):
    if 'err' in ob:
        return [('the history raised: ' + ob['err'], 'frame-raised')]
    return [(p, 'daughters-share-object' if 'daughter' in p else
             'added-state-not-kept' if 'the new compartment holds' in p else 'frame-broken') for p in ob['problems'][:2]]


def nontrivial(c, ob):
    return len(c['ops']) >= 2


def stat_key(c, ob):
    return 'frame/%s' % ('err' if 'err' in ob else 'ok')
