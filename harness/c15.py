"""C15 — every declared variable is built with its explicit or default initial value."""
import copy
import random
from harness import common, wire

FAMILY = 'wire (generate_state)'
RULE = ('as C06, kind gen: the state built by generate_state from 1-3 processes sharing variables through random '
        'topologies and a partial initial state (incl. children of glob ports named only by the initial state), '
        'compared with Model/Wire.v generate; malformed stream: two processes declaring different _value or _units for '
        'one node (must raise); Composite.initial_state()/default_state() of the same composites with processes that supply their own initial values: each value must sit at the node the port variable is wired to (explicit state winning), a config override must appear in the result and must not stick to the composite. '
        'Non-trivial: >=2 ports.')
ASSUMPTIONS = __import__('harness.c06', fromlist=['x']).ASSUMPTIONS + [
    'conflicting _default declarations are outside the claim: the last declaration wins silently (DESIGN.md section 7); the model reproduces this',
]
IMPORTS, CHECK_FN, BAD_TERM = wire.IMPORTS, wire.CHECK_FN, wire.BAD_TERM
model_output = wire.model_output


def stat_key(c, ob):
    if c['kind'] == 'arrval':
        return 'arrval/%s/%s' % (c['field'], 'ok' if 'ok' in ob else 'raised')
    if c['kind'] == 'sharedsch':
        return 'sharedsch/%s' % c['first']
    return wire.stat_key(c, ob)


def nontrivial(c, ob):
    if c['kind'] == 'arrval':
        return c['a'] != c['b']
    if c['kind'] == 'sharedsch':
        return True
    return wire.nontrivial(c, ob)


def generate(seed, tier, enlarged=False):
    rng = random.Random(seed * 131 + 15)
    n = 300 if tier == 'quick' else 6000
    if enlarged:
        n *= 3
    wire.GLOBDICT_WEIGHT[0] = 2
    cases = wire.gen_cases(rng, n, ['gen'], 3 if tier == 'quick' else 4)
    # Composite.initial_state() of the same composites, compared with Model/CompState.v: one twin case each
    cases += [dict(c, kind='comp') for c in cases if c['kind'] == 'gen']
    # corpus: known finding K9 (a glob child named only by the initial state is built without the sub-topology)
    cases.insert(0, {'kind': 'gen', 'procs': [{'parent': [], 'name': 'p0', 'schema': {'$node': {'out': False, 'c': [['pb', {'$node': {'out': False, 'c': [['*', {'$node': {'out': False, 'c': [['w', {'$var': {'default': -3, 'value': None, 'units': None}}], ['z', {'$var': {'default': 0, 'value': None, 'units': None}}]]}}]]}}], ['pd', {'$node': {'out': False, 'c': [['w', {'$var': {'default': 0, 'value': None, 'units': None}}], ['y', {'$var': {'default': 1, 'value': None, 'units': None}}], ['z', {'$var': {'default': 5, 'value': None, 'units': None}}]]}}]]}}, 'topo': [['pb', {'$dict': {'path': None, 'c': [['*', {'$dict': {'path': ['ga'], 'c': [['w', {'$path': ['z']}], ['z', {'$path': ['w']}]]}}]]}}], ['pd', {'$dict': {'path': None, 'c': [['w', {'$path': ['sc', 'sc', 'x']}], ['y', {'$path': ['sc', 'sa', 'w']}], ['z', {'$path': ['sa', 'sa', 'x']}]]}}]]}], 'init': {'sc': {'sc': {'x': 63}}, 'sa': {'sa': {'x': 40}}, 'ga': {'k3': {'w': 179}}}, 'i': 0})
    # malformed stream: a second process redeclares a variable of the first with another _value / _units
    extra = []
    for c in cases[:n // 6]:
        c2 = copy.deepcopy(c)
        p0 = c2['procs'][0]
        q = copy.deepcopy(p0)
        q['name'] = 'p3'
        changed = False

        def mutate(s):
            nonlocal changed
            if isinstance(s, dict) and '$var' in s and not changed:
                if rng.random() < 0.5:
                    s['$var']['value'] = 7
                else:
                    s['$var']['units'] = 'mg'
                changed = True
            elif isinstance(s, dict) and '$node' in s and not s['$node']['out']:
                for k, x in s['$node']['c']:
                    if k != '*':        # sub-schemas of globs are merged, not checked
                        mutate(x)
        mutate(q['schema'])
        if changed:
            # the first process declares the same variable with another value / unit
            def mutate0(s, done=[False]):
                if isinstance(s, dict) and '$var' in s and not done[0]:
                    if q_kind == 'value':
                        s['$var']['value'] = 3
                    else:
                        s['$var']['units'] = 'g'
                    done[0] = True
                elif isinstance(s, dict) and '$node' in s and not s['$node']['out']:
                    for k, x in s['$node']['c']:
                        if k != '*':
                            mutate0(x, done)
            q_kind = 'value' if any(True for _ in [0]) and _has(q['schema'], 'value') else 'units'
            mutate0(p0['schema'], [False])
            c2['procs'] = wire.nested_order(c2['procs'] + [q])
            c2['malformed'] = True
            extra.append(c2)
    # array-valued `_value` declared by two processes for one node: equal arrays merge silently, arrays that differ
    # in an element OR IN SHAPE (also when they broadcast to equal elements) are a conflict
    arr = []
    shapes = [[3], [1], [2, 3], [3, 1], [1, 3], [2], [2, 2]]
    for _ in range(max(8, n // 20)):
        a = {'shape': rng.choice(shapes), 'fill': rng.choice([1, 2, 0])}
        r = rng.random()
        if r < 0.3:
            b = dict(a)
        elif r < 0.7:
            b = {'shape': rng.choice(shapes), 'fill': a['fill']}
        else:
            b = {'shape': list(a['shape']), 'fill': a['fill'] + 1}
        arr.append({'kind': 'arrval', 'a': a, 'b': b, 'field': rng.choice(['_value', '_value', '_default'])})
    # two instances of a class whose ports_schema() returns ONE shared dictionary, one of them carrying a `_schema`
    # override of the default: the other must be built with the declared default (oracle only)
    shared = [{'kind': 'sharedsch', 'declared': rng.randint(0, 4), 'override': rng.randint(5, 9),
               'first': rng.choice(['overridden', 'plain']), 'again': rng.random() < 0.5} for _ in range(max(4, n // 60))]
    return cases + extra + arr + shared


def run_arrval(c):
    import numpy as np
    from vivarium.core.store import generate_state
    mk = lambda d: np.full(tuple(d['shape']), d['fill'])
    P = wire.pcls()
    field = c['field']
    procs = {'pa': P({'schema': {'s': {'v': {field: mk(c['a']), '_updater': 'set'}}}}),
             'pb': P({'schema': {'s': {'v': {field: mk(c['b']), '_updater': 'set'}}}})}
    topo = {'pa': {'s': ('store',)}, 'pb': {'s': ('store',)}}
    try:
        store = generate_state(procs, topo, {})
        v = store.get_path(('store', 'v')).get_value()
        return {'ok': 1, 'arr': [list(np.shape(v)), np.asarray(v).tolist()]}
    except Exception as e:
        return {'err': type(e).__name__ + ':' + str(e)[:160]}


def run_sharedsch(c):
    from vivarium.core.process import Process
    from vivarium.core.store import generate_state
    SCHEMA = {'tank': {'level': {'_default': c['declared'], '_updater': 'set'}}}
    pristine = copy.deepcopy(SCHEMA)

    class Tank(Process):
        def ports_schema(self):
            return SCHEMA                      # one object for every instance and every call

        def next_update(self, timestep, states):
            return {}
    items = [('tank_a', Tank({'_schema': {'tank': {'level': {'_default': c['override']}}}})), ('tank_b', Tank())]
    if c['first'] == 'plain':
        items.reverse()
    try:
        store = generate_state(dict(items), {'tank_a': {'tank': ('a',)}, 'tank_b': {'tank': ('b',)}}, {})
        out = {'ok': 1, 'a': store.get_path(('a', 'level')).get_value(), 'b': store.get_path(('b', 'level')).get_value()}
        if c['again']:
            # a later store with a plain instance only
            st2 = generate_state({'tank_c': Tank()}, {'tank_c': {'tank': ('c',)}}, {})
            out['c'] = st2.get_path(('c', 'level')).get_value()
        out['schema_kept'] = SCHEMA == pristine
        return out
    except Exception as e:
        return {'err': type(e).__name__ + ':' + str(e)[:160]}


def oracle_sharedsch(c, ob):
    if 'ok' not in ob:
        return [('construction raised: %s' % ob.get('err'), 'construction-raised')]
    want = {'a': c['override'], 'b': c['declared']}
    if c['again']:
        want['c'] = c['declared']
    got = {k: ob.get(k) for k in want}
    if got != want or not ob['schema_kept']:
        return [('instances sharing one schema dictionary, one with a `_schema` override of the default (%r instead of '
                 '%r): the variables are built as %r, expected %r%s' % (c['override'], c['declared'], got, want,
                                                                       '' if ob['schema_kept'] else '; the shared schema was rewritten'),
                 'default-from-another-process')]
    return []


def oracle_arrval(c, ob):
    same = c['a'] == c['b']
    if c['field'] == '_value':
        if same and 'ok' not in ob:
            return [('two equal array _value declarations were refused: %s' % ob.get('err'), 'compatible-refused')]
        if not same and 'ok' in ob:
            return [('_value arrays of shape %r (all %r) and shape %r (all %r) for one node were accepted silently; '
                     'the node holds shape %r' % (c['a']['shape'], c['a']['fill'], c['b']['shape'], c['b']['fill'],
                                                  ob['arr'][0]), 'conflict-accepted')]
    elif 'ok' not in ob:
        return [('array defaults for one node made construction raise: %s' % ob.get('err'), 'construction-raised')]
    return []


def _has(s, field):
    if isinstance(s, dict) and '$var' in s:
        return s['$var'].get(field) is not None
    if isinstance(s, dict) and '$node' in s:
        return any(_has(x, field) for _, x in s['$node']['c'])
    return False


def own_values(schema, base):
    """a process's own initial values: every declared variable outside globs and output ports gets a value
    that identifies the process and the variable"""
    out, n = {}, [base]

    def walk(s, d):
        for k, x in s['$node']['c']:
            if k == '*' or x == '**':
                continue
            if '$var' in x:
                n[0] += 1
                d[k] = n[0]
            elif not x['$node']['out']:
                d[k] = {}
                walk(x, d[k])
    if isinstance(schema, dict) and '$node' in schema and not schema['$node']['out']:
        walk(schema, out)
    return out


def prune_empty(d):
    if isinstance(d, dict):
        out = {k: prune_empty(v) for k, v in d.items()}
        return {k: v for k, v in out.items() if v != {}}
    return d


def run_composite(c):
    """Composite.initial_state()/default_state(): each process's own values must land on the nodes its ports are
    wired to; a one-off override passed in the config must not stick to the composite"""
    from vivarium.core.composer import Composite
    from vivarium.core.process import Process, Step
    base = wire.pcls()

    class Owning(base):
        defaults = {'schema': {}, 'own': {}}

        def initial_state(self, config=None):
            return copy.deepcopy(self.parameters['own'])

    class OwningStep(Step):
        defaults = {'schema': {}, 'own': {}}

        def ports_schema(self):
            return copy.deepcopy(self.parameters['schema'])

        def next_update(self, timestep, states):
            return {}

        def initial_state(self, config=None):
            return copy.deepcopy(self.parameters['own'])
    processes, steps, topology, owns = {}, {}, {}, []
    for i, p in enumerate(c['procs']):
        # every third one is a Step, listed in the `steps` dict of the same compartment
        is_step = i % 3 == 2
        d, t = (steps if is_step else processes), topology
        for k in p['parent']:
            d = d.setdefault(k, {})
            t = t.setdefault(k, {})
        own = own_values(p['schema'], 1000 * (i + 1))
        owns.append(own)
        d[p['name']] = (OwningStep if is_step else Owning)({'schema': wire.py_schema(p['schema']), 'own': own})
        t[p['name']] = {k: wire.py_topo(x) for k, x in p['topo']}
    # the order in which _get_composite_state_recur visits the processes: at every level the iteration order of
    # set(processes.keys() | steps.keys()), replicated here with the same expression on the same dicts
    order = []

    def visit(dp, ds, path):
        for key in set(dp.keys() | ds.keys()):
            sp, ss = dp.get(key), ds.get(key)
            if isinstance(sp, dict) or isinstance(ss, dict):
                visit(sp or {}, ss or {}, path + (key,))
            else:
                order.append(list(path + (key,)))
    visit(processes, steps, ())
    state0 = copy.deepcopy(c['init'])
    comp = Composite({'processes': processes, 'steps': steps, 'flow': {}, 'topology': topology,
                      'state': copy.deepcopy(state0)})
    first = comp.initial_state()
    override = {'zz_override': {'x': 42}}
    for k, v in first.items():
        if not isinstance(v, dict):
            override[k] = -77
            break
    with_override = comp.initial_state({'initial_state': copy.deepcopy(override)})
    again = comp.initial_state()
    default = comp.default_state()
    store = comp.generate_store()
    return {'owns': owns, 'order': order, 'first': first, 'again': again, 'override_seen': all(
                with_override.get(k) == v for k, v in override.items()),
            'state_kept': comp.state == state0, 'default': default,
            'store_values': wire.dump_values(store)}


def run_impl(c):
    if c['kind'] == 'arrval':
        return run_arrval(c)
    if c['kind'] == 'sharedsch':
        return run_sharedsch(c)
    ob = wire.run_impl(dict(c, kind='gen') if c['kind'] == 'comp' else c)
    if c['kind'] == 'comp' and 'ok' in ob:
        try:
            ob['comp'] = run_composite(c)
        except Exception as e:
            ob['comp'] = {'err': type(e).__name__ + ':' + str(e)[:160]}
    return ob


def render(c, ob):
    if c['kind'] in ('arrval', 'sharedsch'):
        return None                           # oracle only
    if c['kind'] == 'comp':
        return render_composite(c, ob)        # None (not sent to Coq) when generate_state itself rejects the composite
    return wire.render(c, ob)


def render_composite(c, ob):
    """(WCompInit processes-in-visiting-order state observed-initial_state)"""
    from harness.common import clist, cpair, cZ
    co = ob.get('comp')
    if not co or 'err' in co:
        return None
    byname = {tuple(p['parent']) + (p['name'],): (p, own) for p, own in zip(c['procs'], co['owns'])}

    def ut(d):
        if isinstance(d, dict):
            return '(UD %s)' % clist([cpair(wire.key(k), ut(v)) for k, v in d.items()])
        return '(UV %s)' % cZ(d)

    def ul(d):
        return clist([cpair(wire.key(k), ut(v)) for k, v in d.items()])
    cps = []
    for path in co['order']:
        p, own = byname[tuple(path)]
        cps.append('{| cp_parent := %s; cp_own := %s; cp_topo := %s |}' % (
            clist([wire.key(k) for k in p['parent']]), ul(own),
            clist([cpair(wire.r_pkey(k), wire.r_topo(x)) for k, x in p['topo']])))
    return '(WCompInit %s %s (Ok %s))' % (clist(cps), ul(c['init']), ut(co['first']))


def composite_oracle(c, ob):
    msgs = []
    co = ob.get('comp')
    if not co:
        return msgs
    if 'err' in co:
        return [('Composite.initial_state()/default_state() raised on a composite generate_state accepts: ' + co['err'],
                 'composite-raised')]
    if co['again'] != co['first'] or not co['state_kept']:
        msgs.append(('Composite.initial_state() differs after a call with a one-off initial_state override '
                     '(the override stuck to the composite)', 'override-sticks'))
    if not co['override_seen']:
        msgs.append(('the initial_state passed in the config is not in the result', 'override-ignored'))
    # every own value sits at the node the port variable is wired to (explicit state wins)
    try:
        store = wire.build_store(c['procs'], c['init'])
    except Exception:
        return msgs

    def get(d, path):
        for k in path:
            if not isinstance(d, dict) or k not in d:
                return None
            d = d[k]
        return d
    wanted = {}
    for p, own in zip(c['procs'], co['owns']):
        node = store.get_path(tuple(p['parent']) + (p['name'],))
        refs = wire.dump_view(node.topology_view)

        def walk(o, r):
            if isinstance(r, list) and r and r[0] == 'ref':
                if not isinstance(o, dict):
                    wanted.setdefault(tuple(r[1]), []).append(o)
                return
            if isinstance(o, dict) and isinstance(r, dict):
                for k, sub in o.items():
                    if k in r:
                        walk(sub, r[k])
        walk(own, refs)
    for path, vals in wanted.items():
        given = get(c['init'], path)
        got = get(co['first'], path)
        if given is not None and not isinstance(given, dict):
            if got != given:
                msgs.append(('initial_state() gives %r at %r, the composite state says %r' % (got, path, given),
                             'composite-state-ignored'))
                break
        elif got not in vals:
            msgs.append(('initial_state() gives %r at %r, the processes wired there supply %r' % (got, path, vals),
                         'own-value-misplaced'))
            break
    return msgs


def oracle(c, ob, rng):
    """explicit-else-default on the implementation alone, using the read views to find each variable's node"""
    msgs = []
    if c['kind'] == 'arrval':
        return oracle_arrval(c, ob)
    if c['kind'] == 'sharedsch':
        return oracle_sharedsch(c, ob)
    if c.get('malformed'):
        if 'ok' in ob:
            msgs.append(('incompatible _value/_units declarations for one node were accepted silently', 'conflict-accepted'))
        return msgs
    if 'ok' not in ob:
        return msgs
    if c['kind'] == 'comp':
        return composite_oracle(c, ob)
    try:
        store = wire.build_store(c['procs'], c['init'])
    except Exception:
        return msgs
    state = ob['ok']
    decl = {}       # node path -> list of declared defaults, in declaration order
    out_defaults = set()    # defaults declared through output-only ports (no read view to locate them)

    def collect_out(s, under_out=False):
        if isinstance(s, dict) and '$var' in s:
            if under_out:
                out_defaults.add(s['$var']['default'])
        elif isinstance(s, dict) and '$node' in s:
            for k, x in s['$node']['c']:
                collect_out(x, under_out or s['$node']['out'])
    for p in c['procs']:
        collect_out(p['schema'])
    for p in c['procs']:
        node = store.get_path(tuple(p['parent']) + (p['name'],))
        refs = wire.dump_view(node.topology_view)

        def walk(s, r):
            if isinstance(r, list) and r and r[0] == 'ref':
                if isinstance(s, dict) and '$var' in s:
                    decl.setdefault(tuple(r[1]), []).append(s['$var']['default'])
                return
            if isinstance(s, dict) and '$node' in s and isinstance(r, dict):
                for k, sub in s['$node']['c']:
                    if k == '*':
                        for kid, rv in r.items():
                            walk(sub, rv)
                    elif k in r:
                        walk(sub, r[k])
        walk(p['schema'], refs)

    def get(d, path):
        for k in path:
            if not isinstance(d, dict) or k not in d:
                return None
            d = d[k]
        return d
    bad_path = ()
    for path, defaults in decl.items():
        built = get(state, path)
        if built is None:
            msgs.append(('declared variable %r does not exist after construction' % (path,), 'declared-missing'))
            bad_path = path
            break
        given = get(c['init'], path)
        val = built[1] if isinstance(built, list) else built
        if given is not None and not isinstance(given, dict):
            if val != given:
                msgs.append(('variable %r holds %r, the initial state gives %r' % (path, val, given), 'initial-state-ignored'))
                break
        elif val not in defaults and val not in out_defaults:
            msgs.append(('variable %r holds %r, declared defaults are %r' % (path, val, defaults), 'default-ignored'))
            bad_path = path
            break
    if msgs and msgs[-1][1] in ('default-ignored', 'declared-missing') and redirecting_glob(c):
        # known finding K9: a child of a glob port that exists only through the initial state is built from the
        # sub-schema WITHOUT the sub-topology, so a '*' sub-topology that redirects or renames sub-variables is
        # ignored for it
        kids = {tuple(g) + (k,) for g, _ in (wire.prepare(c['procs'], {}) or {}).get('globs', [])
                for k in (get(c['init'], g) or {})}
        if any(tuple(bad_path[:len(k)]) == k for k in kids):
            msgs[-1] = (msgs[-1][0] + ' (child of a glob port named only by the initial state; the sub-topology '
                        'redirects this sub-variable)', 'glob-child-ignores-subtopology')
    return msgs


def redirecting_glob(c):
    def walk(t):
        if '$dict' in t:
            for k, x in t['$dict']['c']:
                if k == '*' and '$dict' in x and any(e[1].get('$path') != [e[0]] for e in x['$dict']['c']):
                    return True
                if walk(x):
                    return True
        return False
    return any(walk(t) for p in c['procs'] for _, t in p['topo'])


def run(cases, tier='quick', seed=0):
    return common.generic_run(__import__('harness.c15', fromlist=['x']), cases, seed, shard=60)
