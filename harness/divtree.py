"""C11 stream: dividers declared at any node of the mother (variables, fixed branches, glob branches).

A case is a schema tree with values (Model/DivTree.v dnode), divided for 1-3 generations through
Store.apply_update({'_divide': ...}) on a real Store; the observation is the pair of daughter values per generation.

node :=  ['L', v, dflt, d]                 d: 'set' | 'split' | 'zero' | ['set_value', z]
      |  ['B', glob, d, [[k, node]...]]    d: None | 'set' | 'split_dict' | ['set_value', tree]
"""
import contextlib
import copy
import io
import random

from harness.common import cN, cZ, clist, cpair, cbool

NCHOICES = 40


def kname(k):
    return 'v%d' % k


def kid(name):
    return int(name[1:])


def gen_leaf(rng, d=None, dflt=None):
    if d is None:
        d = rng.choice(['set', 'split', 'split', 'zero', ['set_value', rng.randint(-3, 9)]])
    if dflt is None:
        dflt = rng.randint(-2, 5)
    return ['L', rng.choice([0, 1, 2, 3, 5, 7, -1, -3, 10, rng.randint(-20, 40)]), dflt, d]


def with_values(rng, n):
    """same schema, fresh values (entries of a glob share their sub-schema)"""
    if n[0] == 'L':
        return ['L', rng.randint(-9, 30), n[2], n[3]]
    return ['B', n[1], n[2], [[k, with_values(rng, ch)] for k, ch in n[3]]]


def gen_node(rng, depth, keys):
    if depth == 0 or rng.random() < 0.35:
        return gen_leaf(rng)
    glob = rng.random() < 0.45
    if glob:
        if rng.random() < 0.5:
            template = gen_leaf(rng)
        else:
            template = ['B', False, None, [[next(keys), gen_leaf(rng)] for _ in range(rng.randint(1, 2))]]
        children = [[next(keys), with_values(rng, template)] for _ in range(rng.choice([0, 1, 2, 3, 4, 5]))]
        d = rng.choice([None, None, 'set', 'split_dict', 'split_dict'])
        return ['B', True, d, children, template]
    children = [[next(keys), gen_node(rng, depth - 1, keys)] for _ in range(rng.randint(1, 3))]
    d = rng.choice([None, None, None, 'set', 'split_dict', 'set_value'])
    if d == 'set_value':
        d = ['set_value', [[k, rng.randint(-4, 12)] for k, ch in children if ch[0] == 'L' and rng.random() < 0.7]]
    return ['B', False, d, children]


def gen_case(rng):
    cnt = iter(range(1, 10 ** 6))
    root = ['B', False, None, [[next(cnt), gen_node(rng, rng.choice([1, 2, 2, 3]), cnt)] for _ in range(rng.randint(1, 4))]]
    gens = [[rng.random() < 0.5, rng.randint(0, 10 ** 6)] for _ in range(rng.choice([1, 1, 2, 3]))]
    return {'kind': 'btree', 'root': root, 'gens': gens}


def corpus():
    quark = lambda c, s: ['B', False, None, [[11, ['L', c, 0, 'set']], [12, ['L', s, 0, 'set']]]]
    return [
        # the shapes of the documentation: a glob branch of records split between the daughters, a fixed branch
        # reset as a whole, a nested fixed branch partitioned, a plain split leaf
        {'kind': 'btree', 'gens': [[False, 5], [True, 6]], 'root': ['B', False, None, [
            [1, ['B', True, 'split_dict', [[21, quark(1, 1)], [22, quark(2, -1)], [23, quark(3, 1)], [24, quark(1, -1)]],
                 quark(0, 0)]],
            [2, ['B', False, ['set_value', [[31, 0], [32, 0]]], [[31, ['L', 7, 0, 'set']], [32, ['L', 9, 0, 'split']]]]],
            [3, ['B', False, None, [[4, ['B', False, 'split_dict', [[41, ['L', 3, -1, 'set']], [42, ['L', 4, -1, 'set']]]]]]]],
            [5, ['L', 10, 0, 'split']]]]},
        {'kind': 'btree', 'gens': [[True, 1]], 'root': ['B', False, None, [
            [1, ['B', False, 'set', [[2, ['L', 7, 0, 'split']], [3, ['L', 4, 1, 'zero']]]]]]]},
    ]


# ---------------------------------------------------------------- implementation
def leaf_div(d):
    if isinstance(d, list):
        return {'divider': 'set_value', 'config': {'value': d[1]}}
    return d


def schema_of(n):
    if n[0] == 'L':
        s = {'_default': n[2], '_updater': 'set'}
        if not (n[3] == 'set' and n[2] % 2 == 0):      # the default divider is set: leave it undeclared half the time
            s['_divider'] = leaf_div(n[3])
        return s
    s = {}
    d = n[2]
    if d is not None:
        s['_divider'] = ({'divider': 'set_value', 'config': {'value': {kname(k): z for k, z in d[1]}}} if isinstance(d, list) else d)
    if n[1]:
        s['*'] = schema_of(n[4])
    else:
        for k, ch in n[3]:
            s[kname(k)] = schema_of(ch)
    return s


def values_of(n):
    if n[0] == 'L':
        return n[1]
    return {kname(k): values_of(ch) for k, ch in n[3]}


def tree_ids(v):
    if isinstance(v, dict):
        return {kid(k): tree_ids(x) for k, x in v.items()}
    return v


def run_impl(c):
    from vivarium.core.process import Process
    from vivarium.core.store import generate_state
    root = c['root']
    ports = {kname(k): schema_of(ch) for k, ch in root[3]}

    class Holder(Process):
        def ports_schema(self):
            return copy.deepcopy(ports)

        def next_update(self, ts, states):
            return {}
    try:
        store = generate_state({'agents': {'m': {'proc': Holder()}}},
                               {'agents': {'m': {'proc': {p: (p,) for p in ports}}}},
                               {'agents': {'m': values_of(root)}})
    except Exception as e:
        return {'err': 'build: %s: %s' % (type(e).__name__, str(e)[:200])}
    obs = []
    mother = 'm'
    for g, (side, seed) in enumerate(c['gens']):
        d1, d2 = 'g%da' % g, 'g%db' % g
        before = store.get_path(('agents', mother)).get_value()
        before.pop('proc', None)
        random.seed(seed)
        try:
            with contextlib.redirect_stdout(io.StringIO()):
                store.apply_update({'agents': {'_divide': {'mother': mother, 'daughters': [{'key': d1}, {'key': d2}]}}})
        except Exception as e:
            obs.append({'err': '%s: %s' % (type(e).__name__, str(e)[:200])})
            break
        vals = []
        for dk in (d1, d2):
            v = store.get_path(('agents', dk)).get_value()
            v.pop('proc', None)
            vals.append(tree_ids(v))
        obs.append({'mother': tree_ids(copy.deepcopy(before)), 'd': vals})
        mother = d2 if side else d1
    return {'ok': 1, 'obs': obs}


# ---------------------------------------------------------------- oracle (independent of the model)
def defaults_of(n):
    if n[0] == 'L':
        return n[2]
    if n[1]:
        return {}
    return {k: defaults_of(ch) for k, ch in n[3]}


def overlay(n, share):
    """the daughter below node n given its share (initial state completed by the schema defaults)"""
    if n[0] == 'L':
        return share if share is not None and not isinstance(share, dict) else n[2]
    if n[1]:
        tmpl = n[4]
        return {k: overlay(tmpl, v) for k, v in (share or {}).items()}
    share = share if isinstance(share, dict) else {}
    return {k: overlay(ch, share.get(k)) for k, ch in n[3]}


def check_node(n, m, a, b, path, msgs):
    """n: schema node, m: mother's value, a/b: the daughters' values at this node"""
    if n[0] == 'L':
        d = n[3]
        if d == 'set' and not (a == m and b == m):
            msgs.append(('set variable %s: mother %r, daughters %r / %r' % (path, m, a, b), 'set-not-copied'))
        elif d == 'split' and (a + b != m or abs(a - b) > 1):
            msgs.append(('split variable %s: mother %r, daughters %r / %r' % (path, m, a, b), 'split-not-conserved'))
        elif d == 'zero' and (a, b) != (0, 0):
            msgs.append(('zero variable %s: daughters %r / %r' % (path, a, b), 'zero-not-zero'))
        elif isinstance(d, list) and (a, b) != (d[1], d[1]):
            msgs.append(('set_value variable %s (configured %r): daughters %r / %r' % (path, d[1], a, b), 'set-value-ignored'))
        return
    d, glob = n[2], n[1]
    tmpl = n[4] if glob else None
    child = (lambda k: tmpl) if glob else dict((k, ch) for k, ch in n[3]).get
    if d is None:
        for k in m:
            if k not in a or k not in b:
                msgs.append(('branch %s: entry %r missing from a daughter' % (path, k), 'entry-lost'))
                continue
            check_node(child(k), m[k], a[k], b[k], path + [k], msgs)
        return
    if d == 'set':
        if a != m or b != m:
            msgs.append(('branch %s has the set divider: mother %r, daughters %r / %r' % (path, m, a, b), 'branch-divider-ignored'))
        return
    if isinstance(d, list):
        want = overlay(n, dict(d[1]))
        if a != want or b != want:
            msgs.append(('branch %s has set_value %r: daughters %r / %r, expected %r' % (path, d[1], a, b, want),
                         'branch-divider-ignored'))
        return
    # split_dict: every entry of the mother goes, whole, to exactly one daughter
    if glob:
        ka, kb = set(a), set(b)
        if ka & kb or (ka | kb) != set(m) or abs(len(ka) - len(kb)) > 1:
            msgs.append(('glob branch %s has split_dict: mother keys %r, daughters %r / %r'
                         % (path, sorted(m), sorted(ka), sorted(kb)), 'branch-divider-ignored'))
            return
        for k in m:
            got = a[k] if k in ka else b[k]
            if got != m[k]:
                msgs.append(('entry %r of %s changed on its way to a daughter: %r -> %r' % (k, path, m[k], got),
                             'branch-divider-ignored'))
        return
    # fixed branch: each declared child holds the mother's value in exactly one daughter and its defaults in the other
    dfl = {k: overlay(ch, None) for k, ch in n[3]}
    na = nb = 0
    for k, ch in n[3]:
        ina = a.get(k) == m[k]
        inb = b.get(k) == m[k]
        if m[k] == dfl[k]:
            continue                          # indistinguishable
        if ina and b.get(k) == dfl[k]:
            na += 1
        elif inb and a.get(k) == dfl[k]:
            nb += 1
        else:
            msgs.append(('fixed branch %s has split_dict: child %r is %r in the mother, %r / %r in the daughters '
                         '(defaults %r)' % (path, k, m[k], a.get(k), b.get(k), dfl[k]), 'branch-divider-ignored'))
            return
    undecided = sum(1 for k, ch in n[3] if m[k] == dfl[k])
    if abs(na - nb) > 1 + undecided:
        msgs.append(('fixed branch %s has split_dict: %d / %d children went to the daughters' % (path, na, nb),
                     'branch-divider-ignored'))


def node_after(n, v):
    """the schema node with the values v (for the next generation)"""
    if n[0] == 'L':
        return ['L', v, n[2], n[3]]
    if n[1]:
        return ['B', True, n[2], [[k, node_after(n[4], x)] for k, x in v.items()], n[4]]
    return ['B', False, n[2], [[k, node_after(ch, v[k])] for k, ch in n[3]]]


def oracle(c, ob, rng):
    msgs = []
    if 'err' in ob:
        return [('building the mother raised: %s' % ob['err'], 'divide-raised')]
    n = c['root']
    for (side, seed), o in zip(c['gens'], ob['obs']):
        if 'err' in o:
            msgs.append(('division raised: %s' % o['err'], 'divide-raised'))
            break
        a, b = o['d']
        try:
            check_node(n, o['mother'], a, b, [], msgs)
        except Exception as e:
            msgs.append(('daughters do not have the declared shape (%s: %s)' % (type(e).__name__, e), 'daughter-shape'))
        if msgs:
            break
        try:
            n = node_after(n, b if side else a)
        except Exception as e:
            msgs.append(('daughter does not have the declared shape (%s: %s)' % (type(e).__name__, e), 'daughter-shape'))
            break
    return msgs[:2]


# ---------------------------------------------------------------- rendering
def r_tree(t):
    if isinstance(t, dict):
        return '(Nd %s)' % clist([cpair(cN(k), r_tree(v)) for k, v in t.items()])
    return '(Lf %s)' % cZ(t)


def r_node(n):
    if n[0] == 'L':
        d = n[3]
        dk = {'set': 'LSet', 'split': 'LSplit', 'zero': 'LZero'}[d] if isinstance(d, str) else '(LSetValue %s)' % cZ(d[1])
        return '(DL %s %s %s)' % (cZ(n[1]), cZ(n[2]), dk)
    d = n[2]
    if d is None:
        dk = 'BNone'
    elif isinstance(d, str):
        dk = {'set': 'BSet', 'split_dict': 'BSplitDict'}[d]
    else:
        dk = '(BSetValue %s)' % r_tree(dict(d[1]))
    return '(DB %s %s %s)' % (cbool(n[1]), dk, clist([cpair(cN(k), r_node(ch)) for k, ch in n[3]]))


def choices(seed):
    r = random.Random(seed)
    return [r.choice([True, False]) for _ in range(NCHOICES)]


def render(c, ob):
    if 'err' in ob or any('err' in o for o in ob['obs']):
        return None
    gens = clist([cpair(cbool(side), clist([cbool(x) for x in choices(seed)])) for side, seed in c['gens']])
    obs = clist([cpair(r_tree(o['d'][0]), r_tree(o['d'][1])) for o in ob['obs']])
    return '(DBTree %s %s %s)' % (r_node(c['root']), gens, obs)
