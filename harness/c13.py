"""C13 — parallel processes are transparent and always shut down cleanly."""
import contextlib
import io
import multiprocessing
import random
import signal
import time

from harness import common
from harness.common import clist, cbool

FAMILY = 'parallel (real worker processes)'
RULE = ('proto: random command sequences (send / get / end) driven against a real ParallelProcess object: which '
        'commands are refused and whether the worker is alive afterwards, compared with Model/Parallel.v; twin: '
        'composites of 1-3 processes (accumulating ones and ones that SET the shared variable, so that the order of '
        'application matters) and a step with a random subset marked _parallel, run serially and '
        'in parallel over random update/run_for sequences: emitted trajectory, final state and published composite '
        'must be identical; Engine.end() called once, twice or left to __del__ under a 20 s watchdog, after which no '
        'worker may be alive; a profiled engine whose worker returns a large profile at end(); '
        'delete: a compartment holding a parallel process is deleted while the process is idle or has an update in '
        'flight. Non-trivial: every case starts at least one worker.')
ASSUMPTIONS = [
    'partial: that an OS process which received "end" exits and is reaped, that pipes do not deadlock, and pickling fidelity are runtime facts outside the model; they are monitored (active_children after a grace period, exceptions)',
    'quick tier runs few cases because every case starts real worker processes (about 1 s each)',
]
IMPORTS = 'From Viv Require Import Model.Parallel Corr.C13c.'
CHECK_FN = 'check_case'
BAD_TERM = '(QTrace [] [true] true)'


def generate(seed, tier, enlarged=False):
    rng = random.Random(seed * 59 + 13)
    n = 14 if tier == 'quick' else 200
    if enlarged:
        n *= 2
    cases = [
        # corpus: known finding K2 (deletion with an update in flight)
        {'kind': 'delete', 'ts': 3.0, 'at': 2, 'first': 'acc'},
        # corpus: updates that do not commute, the parallel process listed first / last
        {'kind': 'twin', 'procs': [{'ts': 1.0, 'par': True, 'cls': 'setter'}, {'ts': 1.0, 'par': False, 'cls': 'acc'}],
         'step_par': False, 'calls': [[3.0, 'update']], 'end': 'once', 'profile': False},
        {'kind': 'twin', 'procs': [{'ts': 1.0, 'par': False, 'cls': 'acc'}, {'ts': 1.0, 'par': True, 'cls': 'setter'},
                                   {'ts': 1.0, 'par': False, 'cls': 'acc'}],
         'step_par': True, 'calls': [[2.0, 'update'], [1.0, 'update']], 'end': 'twice', 'profile': False},
        # corpus: a parallel process that changes its own timestep through its parameters
        {'kind': 'twin', 'procs': [{'ts': 2.0, 'par': True, 'cls': 'adaptive'}, {'ts': 1.0, 'par': False, 'cls': 'acc'}],
         'step_par': False, 'calls': [[6.0, 'update']], 'end': 'once', 'profile': False},
        # corpus: a schema override on a parallel process
        {'kind': 'twin', 'procs': [{'ts': 1.0, 'par': True, 'cls': 'acc', 'ovr': True}, {'ts': 1.0, 'par': False, 'cls': 'acc'}],
         'step_par': False, 'calls': [[2.0, 'update']], 'end': 'once', 'profile': False},
        # corpus: a parallel process that uses OS-level parallelism of its own inside next_update
        {'kind': 'twin', 'procs': [{'ts': 1.0, 'par': True, 'cls': 'spawner'}, {'ts': 1.0, 'par': False, 'cls': 'acc'}],
         'step_par': False, 'calls': [[2.0, 'update']], 'end': 'once', 'profile': False},
        # corpus: a compartment with a parallel step (and process) generated while the engine runs, then end()
        {'kind': 'grow', 'at': 2, 'more': 2, 'proc_par': False, 'step_par': True, 'divide': False},
        {'kind': 'grow', 'at': 1, 'more': 3, 'proc_par': True, 'step_par': True, 'divide': True},
        # corpus (F24): the structure changes while a parallel process elsewhere has an update in flight
        {'kind': 'grow', 'at': 2, 'more': 4, 'proc_par': False, 'step_par': False, 'divide': False, 'slow_par': True},
        {'kind': 'proto', 'cmds': ['send', 'query', 'get', 'end']},
        # corpus (F79, F86): end() with a result in flight, then the batch asks for it - with and without profiling
        {'kind': 'proto', 'cmds': ['send', 'end', 'get']},
        {'kind': 'proto', 'cmds': ['send', 'end', 'get'], 'profile': True},
        # corpus (F25): a compartment holding a parallel process is moved
        {'kind': 'pmove', 'at': 2, 'first': 'mover', 'total': 5},
        {'kind': 'pmove', 'at': 2, 'first': 'acc', 'total': 5},
        # corpus: a compartment holding a parallel STEP is deleted while the step is idle
        {'kind': 'delete', 'ts': 1.0, 'at': 2, 'first': 'acc', 'victim': 'step'},
    ]
    for i in range(n):
        r = i % 7
        if r < 3:
            cs = []
            for _ in range(rng.randint(2, 8)):
                cs.append(rng.choice(['send', 'get', 'send', 'get', 'end', 'query']))
            if rng.random() < 0.7:
                # mostly well-formed: (send get)* end+
                cs = ['send', 'get'] * rng.randint(0, 3) + ['end'] * rng.randint(1, 2)
                for _ in range(rng.choice([0, 1, 2])):
                    cs.insert(rng.randrange(len(cs) + 1), 'query')
                if rng.random() < 0.3:
                    cs.insert(rng.randrange(len(cs)), rng.choice(['send', 'get', 'end']))
            case = {'kind': 'proto', 'cmds': cs}
            if rng.random() < 0.35:
                case['profile'] = True
            cases.append(case)
        elif r < 6:
            nproc = rng.randint(1, 3)
            procs = [{'ts': rng.choice([0.5, 1.0, 1.0, 2.0]), 'par': rng.random() < 0.6,
                      'cls': rng.choice(['acc', 'acc', 'setter', 'adaptive', 'spawner'])} for _ in range(nproc)]
            if not any(p['par'] for p in procs):
                procs[0]['par'] = True
            for p in procs:
                if p['cls'] != 'adaptive' and rng.random() < 0.3:
                    p['ovr'] = True
            calls = [[rng.choice([1.0, 2.0, 0.5, 3.0]), rng.choice(['update', 'run', 'update'])]
                     for _ in range(rng.randint(1, 3))]
            if calls[-1][1] == 'run':
                calls[-1][1] = 'update'
            cases.append({'kind': 'twin', 'procs': procs, 'step_par': rng.random() < 0.3, 'calls': calls,
                          'end': rng.choice(['once', 'twice', 'del']), 'profile': False})
            if i % 7 == 3 and (tier == 'thorough' or i < 7):
                # a profiled engine whose parallel worker hands back a large profile when it is ended
                cases.append({'kind': 'twin', 'procs': [{'ts': 1.0, 'par': True, 'cls': 'busy'}], 'step_par': False,
                              'calls': [[1.0, 'update']], 'end': 'once', 'profile': True})
        else:
            cases.append({'kind': 'delete', 'ts': rng.choice([1.0, 3.0]), 'at': rng.choice([1, 2]),
                          'first': rng.choice(['acc', 'killer'])})
            if rng.random() < 0.5:
                cases[-1] = {'kind': 'delete', 'ts': 1.0, 'at': rng.choice([1, 2, 3]), 'first': 'acc', 'victim': 'step'}
            elif rng.random() < 0.5:
                cases[-1] = {'kind': 'grow', 'at': rng.choice([1, 2, 3]), 'more': rng.choice([1, 2, 3, 4]),
                             'proc_par': rng.random() < 0.6, 'step_par': rng.random() < 0.7, 'divide': rng.random() < 0.4,
                             'slow_par': rng.random() < 0.5}
            elif rng.random() < 0.5:
                cases[-1] = {'kind': 'pmove', 'at': rng.choice([1, 2, 3]), 'first': rng.choice(['mover', 'acc']),
                             'total': rng.choice([4, 5, 6])}
    return cases


class EndHang(Exception):
    pass


def _alarm(signum, frame):
    raise EndHang()


def grace():
    # (returns at once when no child is left; up to 6 s so that a loaded machine does not turn a slow exit into a leak)
    for _ in range(120):
        if not multiprocessing.active_children():
            return 0
        time.sleep(0.05)
    return len(multiprocessing.active_children())


def run_proto(c):
    from vivarium.core.process import ParallelProcess
    from harness.par_kit import Acc
    stats_objs = []
    pp = (ParallelProcess(Acc({'pid': 0}), True, stats_objs) if c.get('profile')
          else ParallelProcess(Acc({'pid': 0})))
    pp.schema = pp.get_schema()          # as Store._generate_paths does when the process enters the hierarchy
    oks = []
    mixed = []                           # a collected result that is not the process's update / a profile that is not one
    for cmd in c['cmds']:
        try:
            if cmd == 'send':
                pp.send_command('next_update', (1.0, {'shared': {'count': 0}, 'own': {'elapsed': 0.0}}))
            elif cmd == 'get':
                got = pp.get_command_result()
                if not (isinstance(got, dict) and set(got) <= {'shared', 'own'}):
                    mixed.append('get_command_result returned %s instead of the update' % (str(got)[:80],))
            elif cmd == 'query':
                # what the engine reads while the structure changes: the schema (view rebuild) and is_step()
                assert pp.schema is not None
                assert pp.is_step() is False
            else:
                pp.end()
            oks.append(True)
        except RuntimeError:
            oks.append(False)
        except Exception as e:
            oks.append(False)
    alive = (not pp._ended) and pp.multiprocess.is_alive()
    # clean up whatever state the sequence left
    try:
        if pp._pending_command:
            pp.get_command_result()
        pp.end()
    except Exception:
        pass
    for st in stats_objs:
        if not (isinstance(st.stats, dict) and all(isinstance(k, tuple) and len(k) == 3 for k in st.stats)):
            mixed.append('the profile collected at end() is %s' % (str(st.stats)[:80],))
    return {'oks': oks, 'alive': alive, 'left': grace(), 'mixed': mixed}


def build_twin(c, parallel):
    from vivarium.core.engine import Engine
    from harness.par_kit import Acc, Doubler, Setter, Busy, Adaptive, Spawner
    processes, topology = {}, {}
    for i, p in enumerate(c['procs']):
        params = {'pid': i, 'time_step': p['ts']}
        if parallel and p['par']:
            params['_parallel'] = True
        if p.get('ovr'):
            # a schema override on this process (its own elapsed-time variable starts at 7, and is set, not added)
            params['_schema'] = {'own': {'elapsed': {'_default': 7.0, '_updater': 'set'}}}
        if p.get('cls') == 'adaptive':
            params = dict(params, timestep=2.0)
            params.pop('time_step')
        processes['p%d' % i] = {'acc': Acc, 'setter': Setter, 'busy': Busy, 'adaptive': Adaptive, 'spawner': Spawner}[p.get('cls', 'acc')](params)
        topology['p%d' % i] = {'shared': ('shared',), 'own': ('own%d' % i,)}
    sp = {'_parallel': True} if (parallel and c['step_par']) else {}
    steps = {'d': Doubler(sp)}
    topology['d'] = {'shared': ('shared',)}
    return Engine(processes=processes, steps=steps, flow={'d': []}, topology=topology, display_info=False,
                  profile=bool(c.get('profile')))


def shape(d):
    if isinstance(d, dict):
        return {k: shape(v) for k, v in d.items()}
    return type(d).__name__ if not isinstance(d, (tuple, list, int, float, str)) else d


def run_twin(c):
    out = {}
    for mode in ('serial', 'parallel'):
        problems = []
        try:
            with contextlib.redirect_stdout(io.StringIO()):
                eng = build_twin(c, mode == 'parallel')
                for iv, kind in c['calls']:
                    if kind == 'update':
                        eng.update(iv)
                    else:
                        eng.run_for(iv)
                data = {str(k): v for k, v in eng.emitter.get_data().items()}
                state = {k: v for k, v in eng.state.get_value().items() if not isinstance(v, tuple)}
                pub = {'processes': sorted(eng.processes.keys()), 'steps': sorted(eng.steps.keys()),
                       'topology': shape(eng.topology), 'flow': shape(eng.flow)}
                old = signal.signal(signal.SIGALRM, _alarm)
                signal.setitimer(signal.ITIMER_REAL, 20)
                try:
                    if c['end'] in ('once', 'twice'):
                        eng.end()
                    if c['end'] == 'twice':
                        eng.end()
                finally:
                    signal.setitimer(signal.ITIMER_REAL, 0)
                    signal.signal(signal.SIGALRM, old)
                del eng
        except EndHang:
            problems.append('EndHang: Engine.end() did not return within 20 s')
            for ch in multiprocessing.active_children():
                ch.terminate()
        except Exception as e:
            problems.append('%s: %s' % (type(e).__name__, str(e)[:150]))
            data, state, pub = None, None, None
        import gc
        gc.collect()
        out[mode] = {'data': data, 'state': state, 'pub': pub, 'problems': problems, 'left': grace()}
    return out


def run_delete(c):
    from vivarium.core.engine import Engine
    from harness.par_kit import Acc, Killer, Doubler
    import gc
    if c.get('victim') == 'step':
        return run_delete_step(c)
    acc = ('acc', Acc({'pid': 0, 'time_step': c['ts'], '_parallel': True}))
    kil = ('killer', Killer({'at': c['at'], 'key': 'c0'}))
    order = [acc, kil] if c['first'] == 'acc' else [kil, acc]
    processes, topology = {}, {}
    for name, p in order:
        if name == 'acc':
            processes.setdefault('agents', {}).setdefault('c0', {})['acc'] = p
            topology.setdefault('agents', {}).setdefault('c0', {})['acc'] = {'shared': ('..', '..', 'shared'), 'own': ('own',)}
        else:
            processes['killer'] = p
            topology['killer'] = {'agents': ('agents',)}
    err = None
    try:
        with contextlib.redirect_stdout(io.StringIO()):
            eng = Engine(processes=processes, topology=topology, display_info=False)
            eng.update(c['at'] + 1)
            gone = 'c0' not in eng.state.get_value().get('agents', {})
            eng.end()
    except Exception as e:
        err = '%s: %s' % (type(e).__name__, ('[still pending] ' if 'still pending' in str(e) else '') + str(e)[:150])
        gone = None
    left = grace()
    # reap whatever is left so that later cases start clean
    for ch in multiprocessing.active_children():
        ch.terminate()
    return {'err': err, 'gone': gone, 'left': left}


def run_delete_step(c):
    """the deleted compartment holds a serial process and a parallel STEP (idle when the compartment goes); the
    garbage collector is kept off so that only the engine's own shutdown path can reap the worker"""
    from vivarium.core.engine import Engine
    from harness.par_kit import Acc, Killer, Doubler
    import gc
    processes = {'agents': {'c0': {'acc': Acc({'pid': 0, 'time_step': 1.0})}}, 'killer': Killer({'at': c['at'], 'key': 'c0'})}
    steps = {'agents': {'c0': {'d': Doubler({'_parallel': True})}}}
    flow = {'agents': {'c0': {'d': []}}}
    topology = {'agents': {'c0': {'acc': {'shared': ('..', '..', 'shared'), 'own': ('own',)},
                                  'd': {'shared': ('..', '..', 'shared')}}},
                'killer': {'agents': ('agents',)}}
    err, gone = None, None
    gc.disable()
    try:
        with contextlib.redirect_stdout(io.StringIO()):
            eng = Engine(processes=processes, steps=steps, flow=flow, topology=topology, display_info=False)
            eng.update(c['at'] + 1)
            gone = 'c0' not in eng.state.get_value().get('agents', {})
            eng.end()
        left = grace()
    except Exception as e:
        err = '%s: %s' % (type(e).__name__, ('[still pending] ' if 'still pending' in str(e) else '') + str(e)[:150])
        left = grace()
    finally:
        gc.enable()
    for ch in multiprocessing.active_children():
        ch.terminate()
    return {'err': err, 'gone': gone, 'left': left}


def run_grow(c):
    """a compartment with a (parallel) process and a (parallel) step is generated - and possibly divided - while the
    engine runs; then Engine.end(): every worker must be gone, with the garbage collector off (only the engine's own
    shutdown path may reap them), and the final state must be that of the serial run"""
    from vivarium.core.engine import Engine
    from harness.par_kit import Grower
    import gc
    out = {}
    for mode in ('serial', 'parallel'):
        par = mode == 'parallel'
        err, state = None, None
        gc.disable()
        try:
            with contextlib.redirect_stdout(io.StringIO()):
                # (the shared counter is declared by a process present from the start: a compartment generated at run
                # time gets its defaults applied only below its own key)
                from harness.par_kit import Acc, Doubler
                eng = Engine(processes={'grower': Grower({'at': c['at'], 'proc_par': par and c['proc_par'],
                                                          'step_par': par and c['step_par'], 'divide': c['divide']}),
                                        'base': Acc({'pid': 1, 'time_step': 1.0}),
                                        # a slow process whose update is in flight while the structure changes
                                        'slow': Acc(dict({'pid': 2, 'time_step': 3.0},
                                                         **({'_parallel': True} if par and c.get('slow_par') else {})))},
                             steps={'d0': Doubler()}, flow={'d0': []},
                             topology={'grower': {'agents': ('agents',)}, 'd0': {'shared': ('shared',)},
                                       'base': {'shared': ('shared',), 'own': ('own_base',)},
                                       'slow': {'shared': ('shared',), 'own': ('own_slow',)}}, display_info=False)
                eng.update(c['at'] + c['more'])
                state = {'shared': eng.state.get_value().get('shared'),
                         'agents': sorted(eng.state.get_value().get('agents', {}))}
                eng.end()
            left = grace()
        except Exception as e:
            err = '%s: %s' % (type(e).__name__, str(e)[:150])
            left = grace()
        finally:
            gc.enable()
        for ch in multiprocessing.active_children():
            ch.terminate()
        out[mode] = {'err': err, 'state': state, 'left': left}
    return out


def run_pmove(c):
    """a compartment holding a (parallel) process is moved from one colony to another while the engine runs: the
    process keeps running under its new path, exactly as in the serial run; after end() no worker is left"""
    from vivarium.core.engine import Engine
    from harness.par_kit import Acc, Mover
    import gc
    out = {}
    for mode in ('serial', 'parallel'):
        params = {'pid': 0, 'time_step': 1.0}
        if mode == 'parallel':
            params['_parallel'] = True
        items = [('mover', Mover({'at': c['at']})), ('A', {'c0': {'acc': Acc(params)}})]
        if c['first'] == 'acc':
            items.reverse()
        err, state = None, None
        gc.disable()
        try:
            with contextlib.redirect_stdout(io.StringIO()):
                eng = Engine(processes=dict(items), initial_state={'B': {}}, display_info=False,
                             topology={'A': {'c0': {'acc': {'shared': ('..', '..', 'shared'), 'own': ('own',)}}},
                                       'mover': {'A': ('A',), 'B': ('B',)}})
                eng.update(c['total'])
                v = eng.state.get_value()
                state = {'shared': v.get('shared'), 'A': sorted(v.get('A', {})), 'B': sorted(v.get('B', {})),
                         'own': (v.get('B', {}).get('c0') or {}).get('own')}
                eng.end()
            left = grace()
        except Exception as e:
            err = '%s: %s' % (type(e).__name__, str(e)[:150])
            left = grace()
        finally:
            gc.enable()
        for ch in multiprocessing.active_children():
            ch.terminate()
        out[mode] = {'err': err, 'state': state, 'left': left}
    return out


def run_impl(c):
    if c['kind'] == 'pmove':
        return run_pmove(c)
    if c['kind'] == 'grow':
        return run_grow(c)
    if c['kind'] == 'proto':
        return run_proto(c)
    if c['kind'] == 'twin':
        return run_twin(c)
    return run_delete(c)


def oracle(c, ob, rng):
    msgs = []
    if c['kind'] == 'proto':
        for m in ob.get('mixed', [])[:1]:
            msgs.append((m + ' (profile=%r)' % bool(c.get('profile')), 'result-mixed-up'))
        if ob['left']:
            msgs.append(('a worker survived end()', 'worker-leaked'))
        return msgs
    if c['kind'] == 'twin':
        s, p = ob['serial'], ob['parallel']
        if p['problems'] and p['problems'][0].startswith('EndHang'):
            msgs.append(('Engine.end() hangs with a parallel worker (profile=%r)' % c.get('profile'), 'end-hangs'))
        elif p['problems']:
            msgs.append(('the parallel run raised: ' + p['problems'][0], 'parallel-raised'))
        elif s['problems']:
            msgs.append(('the serial run raised: ' + s['problems'][0], 'serial-raised'))
        else:
            if s['data'] != p['data']:
                msgs.append(('marking %r parallel changes the emitted trajectory' % ([i for i, q in enumerate(c['procs']) if q['par']],),
                             'parallel-not-transparent'))
            if s['state'] != p['state']:
                msgs.append(('marking processes parallel changes the final state', 'parallel-not-transparent'))
            if s['pub'] != p['pub']:
                msgs.append(('marking processes parallel changes the published composite', 'parallel-not-transparent'))
        if p['left']:
            msgs.append(('%d worker process(es) still alive after Engine.end()/%s' % (p['left'], c['end']), 'worker-leaked'))
    elif c['kind'] == 'pmove':
        s, p = ob['serial'], ob['parallel']
        if p['err'] or s['err']:
            msgs.append(('a compartment with a %s process is moved: the run raised %s' % (
                'parallel' if p['err'] else 'serial', p['err'] or s['err']), 'parallel-raised' if p['err'] else 'serial-raised'))
        elif s['state'] != p['state']:
            msgs.append(('moving a compartment whose process is parallel changes the final state: %r / %r'
                         % (s['state'], p['state']), 'parallel-not-transparent'))
        if p['left']:
            msgs.append(('%d worker process(es) alive after a move and Engine.end()' % p['left'], 'worker-leaked'))
    elif c['kind'] == 'grow':
        s, p = ob['serial'], ob['parallel']
        if p['err'] or s['err']:
            msgs.append(('a compartment generated at run time: the %s run raised %s' % (
                'parallel' if p['err'] else 'serial', p['err'] or s['err']), 'parallel-raised' if p['err'] else 'serial-raised'))
        elif s['state'] != p['state']:
            msgs.append(('marking the generated process/step parallel changes the final state: %r / %r'
                         % (s['state'], p['state']), 'parallel-not-transparent'))
        if p['left']:
            msgs.append(('%d worker process(es) of a compartment generated at run time (process parallel: %r, step '
                         'parallel: %r, divided: %r) still alive after Engine.end()'
                         % (p['left'], c['proc_par'], c['step_par'], c['divide']), 'worker-leaked'))
    elif c['kind'] == 'delete':
        inflight = c['ts'] > c['at'] or (c['ts'] == c['at'] and c['first'] == 'killer') or \
            (c['ts'] <= c['at'] and c['first'] == 'killer' and (c['at'] % c['ts'] == 0))
        if ob['err']:
            msgs.append(('deleting the compartment raised: ' + ob['err'],
                         'parallel-deleted-in-flight' if 'still pending' in ob['err'] else 'delete-raised'))
        if ob['left']:
            msgs.append(('%d worker process(es) alive after the compartment was deleted and the engine ended' % ob['left'],
                         'parallel-deleted-in-flight' if ob['err'] and 'still pending' in ob['err'] else 'worker-leaked'))
    else:
        if ob['left']:
            msgs.append(('a worker survived end()', 'worker-leaked'))
    return msgs[:2]


def render(c, ob):
    if c['kind'] != 'proto':
        return '(QTrace [] [] true)'
    cmds = clist([{'send': 'CSend', 'get': 'CGet', 'end': 'CEnd', 'query': 'CQuery'}[x] for x in c['cmds']])
    return '(QTrace %s %s %s)' % (cmds, clist([cbool(b) for b in ob['oks']]), cbool(ob['alive']))


def nontrivial(c, ob):
    return True


def stat_key(c, ob):
    return c['kind']


def run(cases, tier='quick', seed=0):
    import sys
    # ParallelProcess.__del__ of a worker with an update in flight (known finding K2) raises inside the garbage
    # collector; the interpreter would print "Exception ignored in ..." for it: recorded by the oracle instead
    sys.unraisablehook = lambda unraisable: None
    return common.generic_run(__import__('harness.c13', fromlist=['x']), cases, seed, shard=100)


def model_output(case, ob):
    return common.coq_eval('C13', IMPORTS, 'model_out %s' % render(case, ob))[:1000]
