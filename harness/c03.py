"""C03 — the clock is monotone and lands exactly on the requested end; run_for terminates."""
import random
from harness import common, sched

FAMILY = 'sched+script'
RULE = ('as C01 plus a script stream: timesteps and condition outcomes given as explicit answer lists consumed per '
        'poll (adaptive), all-quiet composites, an engine without processes, lagging re-polls across run_for '
        'boundaries; a 3 s watchdog turns a hang into an observation. Global time is read inside every callback '
        'and after every call. Non-trivial: >=2 invocations; distinct by term.')
ASSUMPTIONS = __import__('harness.c01', fromlist=['x']).ASSUMPTIONS + [
    'the decimal-grid sentence (global_time_precision) is validated on a separate decimal stream, not proved',
]
IMPORTS, CHECK_FN, BAD_TERM = sched.IMPORTS, sched.CHECK_FN, sched.BAD_TERM
PROPS = ('C03',)


def generate(seed, tier, enlarged=False):
    rng = random.Random(seed * 7 + 3)
    n = 300 if tier == 'quick' else 6000
    if enlarged:
        n *= 3
    cases = [
        # corpus: all-quiet composite (hang on the pinned tree), lagging re-poll (known finding K1)
        {'kind': 'sched', 'procs': [{'ts': ['const', 1.0], 'cond': ['false']}], 'calls': [[2.0, 'update']],
         'emit_step': 1, 't0': 0},
        {'kind': 'sched', 'procs': [{'ts': ['script', [1.25, 0.5]], 'cond': ['true']}],
         'calls': [[1.0, 'run'], [1.0, 'run']], 'emit_step': 1, 't0': 0},
        {'kind': 'sched', 'procs': [], 'calls': [[2.0, 'run'], [1.0, 'update']], 'emit_step': 1, 't0': 0},
        # corpus (decimal grid): single jumps g -> f with f > 2g, where g + (f - g) is not f in binary floating point
        {'kind': 'sched', 'procs': [{'ts': ['state', [0.2, 0.7]], 'cond': ['true']}], 'calls': [[1.2, 'run'], [0.4, 'update']],
         'emit_step': 1, 't0': 0, 'precision': 1},
        {'kind': 'sched', 'procs': [{'ts': ['state', [0.3, 0.6, 0.9]], 'cond': ['true']},
                                    {'ts': ['const', 1.8], 'cond': ['true']}], 'calls': [[1.8, 'update']],
         'emit_step': 1, 't0': 0, 'precision': 1},
    ]
    for i in range(n):
        scripted = i % 2 == 0
        cases.append(sched.gen_case(rng, max_procs=4 if tier == 'quick' else 8, scripted=scripted))
    # decimal-grid stream: global_time_precision p, timesteps and intervals on the 10^-p grid
    for i in range(n // 3):
        cases.append(sched.gen_decimal_case(rng))
    return cases


def run(cases, tier='quick', seed=0):
    return sched.run_family(__import__('harness.c03', fromlist=['x']), cases, seed, PROPS)


model_output = sched.model_output
