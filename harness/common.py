"""Shared machinery of the /verif checks: proof gate, in-Coq evaluation of the models
(correspondence), evidence, known findings, verdicts, replay files, shrinking."""
import fcntl
import glob
import json
import os
import random
import re
import shutil
import subprocess
import sys
import time

VERIF = os.path.dirname(os.path.dirname(os.path.abspath(__file__)))
REPO = os.environ.get('VERIF_REPO', '/repo')
COQ = os.environ.get('VERIF_COQ_DIR') or os.path.join(VERIF, 'coq')      # (the override is for development)
BUILD = os.path.join(VERIF, 'build')
NCPU = os.cpu_count() or 4

FORBIDDEN = re.compile(
    r'\b(Admitted|admit|Axiom|Axioms|Parameter|Parameters|Conjecture|Hypothesis|Variable)\b'
    r'|Unset\s+Guard|bypass_check|type-in-type|impredicative-set|Admit\s+Obligations')

# standard-library axioms tolerated when a theorem depends on them (must be named in
# DESIGN.md section 4); empty: every property theorem is expected to be closed
AXIOM_WHITELIST = set()


def use_repo():
    """Make `import vivarium` resolve to /repo's working tree."""
    if REPO not in sys.path:
        sys.path.insert(0, REPO)
    os.environ.setdefault('PYTHONHASHSEED', '0')


# ----------------------------------------------------------------------------- rendering

class Names:
    """Interning of Python dict keys as N numbers (order of first use; stable per case)."""

    def __init__(self, preset=()):
        self.tab = {}
        for n in preset:
            self.get(n)

    def get(self, name):
        if name not in self.tab:
            self.tab[name] = len(self.tab)
        return self.tab[name]

    def table(self):
        return {str(v): k for k, v in self.tab.items()}


def cN(n):
    return '%d%%N' % n


def cZ(z):
    return '(%d)%%Z' % z


def cnat(n):
    return '%d%%nat' % n


def cbool(b):
    return 'true' if b else 'false'


def clist(items):
    return '[' + '; '.join(items) + ']'


def cpair(a, b):
    return '(%s, %s)' % (a, b)


def copt(x):
    return 'None' if x is None else '(Some %s)' % x


def cstr(s):
    return '"' + s.replace('"', '""') + '"%string'


# ----------------------------------------------------------------------------- build / proofs

def _lock(shared=False):
    """exclusive while the development is (re)built, shared while compiled files are being read (case evaluation):
    several checks may evaluate at once, none while another one rebuilds"""
    os.makedirs(BUILD, exist_ok=True)
    f = open(os.path.join(BUILD, '.lock'), 'a')
    fcntl.flock(f, fcntl.LOCK_SH if shared else fcntl.LOCK_EX)
    return f


def sh(cmd, cwd=None, timeout=3600, env=None):
    p = subprocess.run(cmd, shell=True, cwd=cwd, timeout=timeout, env=env,
                       stdout=subprocess.PIPE, stderr=subprocess.STDOUT, text=True)
    return p.returncode, p.stdout


def coq_sources():
    return sorted(p for p in glob.glob(os.path.join(COQ, '**', '*.v'), recursive=True)
                  if '/Crosscheck/' not in p)


def build_coq():
    """Full .vo build of the development (no-op when up to date)."""
    lock = _lock()
    try:
        if not os.path.exists(os.path.join(COQ, 'Makefile')):
            rc, out = sh('coq_makefile -f _CoqProject -o Makefile', cwd=COQ)
            if rc != 0:
                return False, out
        rc, out = sh('timeout 3000 make -j%d 2>&1' % NCPU, cwd=COQ, timeout=3100)
        return rc == 0, out
    finally:
        lock.close()


def strip_comments(text):
    out, depth, i = [], 0, 0
    while i < len(text):
        if text.startswith('(*', i):
            depth += 1
            i += 2
        elif text.startswith('*)', i) and depth:
            depth -= 1
            i += 2
        else:
            if not depth:
                out.append(text[i])
            i += 1
    return ''.join(out)


def dep_closure(vfile):
    """Transitive closure of project files a .v file depends on (via coqdep)."""
    rc, out = sh('coqdep -R . Viv %s' % ' '.join(
        os.path.relpath(p, COQ) for p in coq_sources()), cwd=COQ)
    deps = {}
    for line in out.splitlines():
        if ':' not in line:
            continue
        lhs, rhs = line.split(':', 1)
        tgt = [t for t in lhs.split() if t.endswith('.vo')]
        if not tgt:
            continue
        src = tgt[0][:-1]
        deps[src] = [d[:-1] for d in rhs.split() if d.endswith('.vo')]
    seen, todo = set(), [os.path.relpath(vfile, COQ)]
    while todo:
        f = todo.pop()
        if f in seen:
            continue
        seen.add(f)
        todo.extend(deps.get(f, []))
    return sorted(seen)


STMT = re.compile(r'^\s*(Theorem|Lemma|Corollary|Fact|Example|Proposition)\s+([A-Za-z0-9_\']+)', re.M)


def proof_gate(prop, tier='quick'):
    """Build everything, re-check Props/<prop>.v, collect assumptions.  Returns a dict.
    Thorough tier: the compiled property file and everything it depends on are re-checked with the independent
    checker coqchk, which also reports the axioms of the whole closure."""
    t0 = time.time()
    res = {'ok': True, 'errors': [], 'theorems': [], 'assumptions': {},
           'obligations': 0, 'discharged': 0}
    ok, out = build_coq()
    res['build_ok'] = ok
    if not ok:
        res['ok'] = False
        res['errors'].append('coq build failed: ' + out[-1500:])
    pfile = os.path.join(COQ, 'Props', prop + '.v')
    if not os.path.exists(pfile):
        res['ok'] = False
        res['errors'].append('missing ' + pfile)
        return res
    # forbidden constructs anywhere in the development
    for src in coq_sources():
        txt = strip_comments(open(src).read())
        for m in FORBIDDEN.finditer(txt):
            word = m.group(0)
            # Section-local Variable/Hypothesis/Context are allowed: check they sit in a Section
            if word in ('Variable', 'Hypothesis'):
                before = txt[:m.start()]
                if len(re.findall(r'^\s*Section\s', before, re.M)) > len(
                        re.findall(r'^\s*End\s', before, re.M)):
                    continue
            res['ok'] = False
            res['errors'].append('forbidden construct %r in %s' % (word, os.path.relpath(src, COQ)))
    # re-check the property file itself and capture Print Assumptions
    lock = _lock()
    try:
        rc, out = sh('timeout 900 coqc -R . Viv Props/%s.v' % prop, cwd=COQ, timeout=1000)
    finally:
        lock.close()
    if rc != 0:
        res['ok'] = False
        res['errors'].append('Props/%s.v does not check: %s' % (prop, out[-1500:]))
    ptxt = strip_comments(open(pfile).read())
    thms = [m.group(2) for m in STMT.finditer(ptxt) if m.group(1) != 'Example']
    res['theorems'] = thms
    wanted = re.findall(r'Print\s+Assumptions\s+([A-Za-z0-9_\'.]+)\s*\.', ptxt)
    missing = [t for t in thms if t not in wanted]
    if missing:
        res['ok'] = False
        res['errors'].append('no Print Assumptions for ' + ', '.join(missing))
    closed = out.count('Closed under the global context')
    axioms = re.findall(r'^([A-Za-z0-9_.\']+)\s*:', out, re.M) if 'Axioms:' in out else []
    res['assumptions'] = {'closed': closed, 'printed': len(wanted), 'axioms': axioms}
    bad_ax = [a for a in axioms if a not in AXIOM_WHITELIST]
    if rc == 0 and (closed + (1 if axioms else 0) < len(wanted) or bad_ax):
        res['ok'] = False
        res['errors'].append('assumptions not closed: %s' % (bad_ax or out[-800:]))
    # obligations: every statement in the dependency closure of the property file
    n = 0
    files = dep_closure(pfile)
    for f in files:
        try:
            n += len(STMT.findall(strip_comments(open(os.path.join(COQ, f)).read())))
        except OSError:
            pass
    if tier == 'thorough' and res['ok']:
        rc2, out2 = sh('timeout 2400 coqchk -silent -o -R . Viv Viv.Props.%s' % prop, cwd=COQ, timeout=2500)
        m = re.search(r'\* Axioms:(.*?)\n\s*\n\* Constants', out2, re.S)
        ax = ' '.join((m.group(1) if m else '?').split())
        res['coqchk'] = {'exit': rc2, 'axioms': ax,
                         'summary': ' '.join(out2[out2.find('CONTEXT SUMMARY'):].split())[:600]}
        if rc2 != 0 or ax != '<none>':
            res['ok'] = False
            res['errors'].append('coqchk: exit %s, axioms %s: %s' % (rc2, ax, out2[-600:]))
    res['files'] = files
    res['obligations'] = n
    res['discharged'] = n if res['ok'] else 0
    res['wall_s'] = round(time.time() - t0, 2)
    return res


# ----------------------------------------------------------------------------- in-Coq evaluation

def _parse_nat_list(out):
    m = re.search(r'=\s*(\[.*?\])\s*(%nat)?\s*:\s*list nat', out, re.S)
    if not m:
        return None
    return [int(x) for x in re.findall(r'\d+', m.group(1))]


def coq_check_cases(tag, imports, check_fn, terms, shard=400, extra_defs=''):
    """Evaluate `check_fn term` (a bool) for every term inside Coq with vm_compute.
    Returns (list of failing indices, error text or None)."""
    # one directory per run, so that two checks of one property never share files
    d = os.path.join(BUILD, 'cases', '%s.%d' % (tag, os.getpid()))
    shutil.rmtree(d, ignore_errors=True)
    os.makedirs(d, exist_ok=True)
    files = []
    for s in range(0, len(terms), shard):
        name = 'cases_%04d' % (s // shard)
        with open(os.path.join(d, name + '.v'), 'w') as f:
            f.write('From Coq Require Import List NArith ZArith Bool String.\n')
            f.write(imports + '\nImport ListNotations.\nOpen Scope list_scope.\n')
            f.write(extra_defs + '\n')
            chunk = terms[s:s + shard]
            for i, t in enumerate(chunk):
                f.write('Definition c%d := %s.\n' % (s + i, t))
            f.write('Definition bad : list nat := List.concat [\n')
            f.write(';\n'.join('  (if %s c%d then [] else [%d%%nat])' % (check_fn, s + i, s + i)
                               for i in range(len(chunk))))
            f.write('].\nEval vm_compute in bad.\n')
        files.append(name)
    if not files:
        return [], None
    rlock = _lock(shared=True)
    procs = []
    bad, errors = [], []
    env = dict(os.environ)
    pending = list(files)
    running = []
    while pending or running:
        while pending and len(running) < NCPU:
            name = pending.pop(0)
            p = subprocess.Popen(
                'ulimit -s unlimited 2>/dev/null; timeout 900 coqc -R %s Viv -Q . Cases %s.v' % (COQ, name),
                shell=True, cwd=d, stdout=subprocess.PIPE, stderr=subprocess.STDOUT, text=True, env=env)
            running.append((name, p))
        name, p = running.pop(0)
        out, _ = p.communicate()
        got = _parse_nat_list(out) if p.returncode == 0 else None
        if got is None:
            errors.append('%s: rc=%s %s' % (name, p.returncode, out[-1200:]))
        else:
            bad.extend(got)
    rlock.close()
    if not errors and not os.environ.get('VERIF_KEEP_CASES'):
        shutil.rmtree(d, ignore_errors=True)
    return sorted(bad), ('\n'.join(errors) if errors else None)


def coq_eval(tag, imports, expr, extra_defs=''):
    """Evaluate one expression in Coq and return the printed text (for replay files)."""
    d = os.path.join(BUILD, 'cases', '%s.eval.%d' % (tag, os.getpid()))
    os.makedirs(d, exist_ok=True)
    path = os.path.join(d, 'one.v')
    with open(path, 'w') as f:
        f.write('From Coq Require Import List NArith ZArith Bool String.\n')
        f.write(imports + '\nImport ListNotations.\nOpen Scope list_scope.\n' + extra_defs + '\n')
        f.write('Eval vm_compute in (%s).\n' % expr)
    rlock = _lock(shared=True)
    try:
        rc, out = sh('timeout 600 coqc -R %s Viv -Q . Cases one.v' % COQ, cwd=d, timeout=700)
    finally:
        rlock.close()
    shutil.rmtree(d, ignore_errors=True)
    return re.sub(r'\s+', ' ', out).strip()


# ----------------------------------------------------------------------------- findings / verdict

def load_known():
    p = os.path.join(VERIF, 'known_findings.json')
    if not os.path.exists(p):
        return []
    return json.load(open(p))


def write_replay(prop, name, payload):
    d = os.path.join(os.environ.get('VERIF_REPLAY_DIR') or os.path.join(VERIF, 'replays'), prop)
    os.makedirs(d, exist_ok=True)
    path = os.path.join(d, name + '.json')
    with open(path, 'w') as f:
        json.dump(payload, f, indent=1, default=repr)
    return path


def write_evidence(prop, tier, seed, coverage, assumptions, wall, violations):
    evdir = os.environ.get('VERIF_EVIDENCE_DIR') or os.path.join(VERIF, 'evidence')
    os.makedirs(evdir, exist_ok=True)
    ev = {
        'property_id': prop, 'tier': tier, 'seed': seed, 'level': 'proof',
        'coverage': coverage, 'assumptions': assumptions,
        'wall_s': round(wall, 2), 'violations': violations,
    }
    with open(os.path.join(evdir, prop + '.json'), 'w') as f:
        json.dump(ev, f, indent=1, default=repr)


def shrink(case, candidates, still_fails, budget=200):
    """Greedy shrinking: candidates(case) yields smaller cases; keep any that still fails."""
    n = 0
    improved = True
    while improved and n < budget:
        improved = False
        for c in candidates(case):
            n += 1
            if n >= budget:
                break
            try:
                if still_fails(c):
                    case = c
                    improved = True
                    break
            except Exception:
                continue
    return case


TRUSTED_BASE = [
    'Coq 8.16.1 kernel (coqc; coqchk in the thorough tier); vm_compute used to evaluate models, not in proofs of property theorems',
    'hand-written Gallina model of the anchored code (coq/Model/*.v); tied to /repo by the differential correspondence check of this run',
    'Python harness: generators, implementation observers, canonicalisation, rendering of cases as Gallina terms (harness/*.py)',
    'no axioms: every property theorem prints "Closed under the global context"',
    'scenario programs (scenarios/<property>/*/demo.py): implementation-side tests of single usages, no model side; each is the failing input of a defect recorded in known_findings.json',
]


def generic_run(mod, cases, seed=0, shard=400):
    """Run every case on the implementation, evaluate the oracle, render (case, observation)
    as a Gallina term and let Coq compare with the model.  `mod` provides run_impl(case),
    oracle(case, obs, rng) -> [(msg, signature)], render(case, obs) -> term, nontrivial(case, obs),
    IMPORTS, CHECK_FN, BAD_TERM (a term of the case type on which CHECK_FN is false),
    optional stat_key(case, obs)."""
    rng = random.Random(seed + 1)
    obs, orc, terms, stats = [], [], [], {}
    seen = set()
    nontriv = 0
    for i, c in enumerate(cases):
        try:
            ob = mod.run_impl(c)
        except Exception as e:  # the implementation crashed where the model has an answer
            ob = {'err': 'EOther:' + type(e).__name__, 'crash': repr(e)[:500]}
        obs.append(ob)
        key = mod.stat_key(c, ob) if hasattr(mod, 'stat_key') else c.get('kind', 'case')
        stats[key] = stats.get(key, 0) + 1
        try:
            for msg, sig in mod.oracle(c, ob, rng):
                orc.append((i, msg, sig))
        except Exception as e:
            orc.append((i, 'oracle crashed: %r' % e, 'oracle-crash'))
        try:
            t = mod.render(c, ob)
        except Exception as e:
            t = mod.BAD_TERM      # unrenderable observation: forces a disagreement
            if isinstance(ob, dict):
                ob['render_error'] = repr(e)[:300]
        terms.append(t)
        try:
            nt = mod.nontrivial(c, ob)
        except Exception:
            nt = False
        tkey = t if t is not None else 'oracle-only:' + json.dumps(c, sort_keys=True, default=repr)
        if tkey not in seen and nt:
            seen.add(tkey)
            nontriv += 1
    # a stream that is decided by the oracle alone renders None: such cases are not sent to Coq
    sent = [i for i, t in enumerate(terms) if t is not None]
    stats['oracle-only cases (no model side)'] = len(terms) - len(sent)
    if not stats['oracle-only cases (no model side)']:
        del stats['oracle-only cases (no model side)']
    bad, err = coq_check_cases(mod.__name__.split('.')[-1].upper(), mod.IMPORTS, mod.CHECK_FN,
                               [terms[i] for i in sent], shard=shard)
    bad = [sent[j] for j in bad]
    return {'observations': obs, 'oracle': orc, 'corr_bad': bad, 'corr_error': err,
            'stats': stats, 'nontrivial': nontriv, 'terms': terms,
            'samples': [{'case': cases[i], 'impl': obs[i]} for i in range(min(3, len(cases)))]}


def merge_streams(cases, parts):
    """Several streams of one check, each with its own correspondence layer.
    parts: [(predicate on a case, function(list of cases) -> result dict of generic_run)]"""
    obs = [None] * len(cases)
    out = {'observations': obs, 'oracle': [], 'corr_bad': [], 'corr_error': None, 'stats': {}, 'nontrivial': 0,
           'samples': []}
    for pred, runner in parts:
        idx = [i for i, c in enumerate(cases) if pred(c)]
        if not idx:
            continue
        r = runner([cases[i] for i in idx])
        for j, i in enumerate(idx):
            obs[i] = r['observations'][j]
        out['oracle'] += [(idx[j], m, sg) for j, m, sg in r['oracle']]
        out['corr_bad'] += [idx[j] for j in r['corr_bad']]
        for k, v in r['stats'].items():
            out['stats'][k] = out['stats'].get(k, 0) + v if isinstance(v, int) else v
        out['nontrivial'] += r['nontrivial']
        out['samples'] += r['samples'][:2]
        if r['corr_error']:
            out['corr_error'] = (out['corr_error'] or '') + r['corr_error']
    return out


def run_scenarios(prop, cases, results, only=None):
    """Run scenarios/<prop>/*/demo.py against the repository under test (PYTHONPATH = repo, cwd = repo).  Every
    scenario becomes a case {'kind': 'scenario', 'name': ...} with the observation {'exit': code, 'tail': output};
    a non-zero exit is an oracle violation with signature scenario-<name> (the replay is the scenario itself)."""
    import subprocess
    base = os.path.join(VERIF, 'scenarios', prop)
    if not os.path.isdir(base):
        return
    repo = os.environ.get('VERIF_REPO') or '/repo'
    names = sorted(n for n in os.listdir(base) if os.path.isfile(os.path.join(base, n, 'demo.py')))
    if only is not None:
        names = [n for n in names if n == only]
        del cases[:]
    env = dict(os.environ, PYTHONPATH=repo, PYTHONHASHSEED='0')
    jobs = []
    for n in names:
        jobs.append((n, subprocess.Popen([sys.executable, os.path.join(base, n, 'demo.py')], cwd=repo, env=env,
                                         stdout=subprocess.PIPE, stderr=subprocess.STDOUT, text=True)))
    for n, p in jobs:
        try:
            out, _ = p.communicate(timeout=300)
            code = p.returncode
        except subprocess.TimeoutExpired:
            p.kill()
            out, code = 'timed out after 300 s', 124
        idx = len(cases)
        cases.append({'kind': 'scenario', 'name': n})
        obs = results.setdefault('observations', [])
        while len(obs) < idx:
            obs.append(None)
        obs.append({'exit': code, 'tail': (out or '')[-1500:]})
        results.setdefault('stats', {})['scenario/%s' % ('ok' if code == 0 else 'fails')] = \
            results.get('stats', {}).get('scenario/%s' % ('ok' if code == 0 else 'fails'), 0) + 1
        if code != 0:
            results.setdefault('oracle', []).append(
                (idx, 'scenario %s/%s: %s' % (prop, n, (out or '').strip().splitlines()[-1][:300] if (out or '').strip() else 'exit %d' % code),
                 'scenario-' + n))
