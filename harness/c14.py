"""C14 — serialization round-trips every emittable value and yields plain JSON data."""
import math
import random
import re

from harness import common
from harness.common import cN, cZ, clist, cpair, cbool, cstr

FAMILY = 'ser'
RULE = ('random nested value trees (depth<=5) over ints incl. >2^53, finite floats incl. subnormal/huge/-0.0, strings '
        '(incl. "!", "[", "]" and ones that look like serialized quantities), booleans, None, lists, tuples, sets, '
        'string-keyed dicts, numpy scalars and 1-2-d arrays, quantities (magnitudes incl. nan/0/negative/1e+-300/ints, '
        'compound units), units, processes, functions; malformed stream: int keys, numpy-string keys, unsupported '
        'objects; kinds: ser (serialize_value), round (deserialize(serialize v)), deser (plain data incl. marker '
        'strings), emitter (RAMEmitter.emit + get_data_deserialized). Non-trivial: a container; distinct by term.')
ASSUMPTIONS = [
    'leaf codecs are assumed, and tested on every generated leaf: orjson reproduces every finite double and every int; str(q) of a pint quantity is parsed back by units(...) to a quantity that prints the same (reported as leaf_premise_failures)',
    'plain nan/inf floats are emitted as null by orjson (quantifier of the property: finite plain floats)',
    'sets are listed in their iteration order',
]
IMPORTS = 'From Viv Require Import Model.Serialize Corr.C14c.'
CHECK_FN = 'check_case'
BAD_TERM = '(ESer PNone (SOk (JBool true)))'

LEAF_PREMISE_FAILURES = []


def gen_float(rng):
    return rng.choice([0.0, -0.0, 1.5, -2.25, 1e-310, 1.7976931348623157e308, 3.141592653589793, 1e22, 0.1,
                       rng.random() * 10 ** rng.randint(-5, 5)])


def gen_str(rng):
    return rng.choice(['', 'a', 'x y', '!', '[', ']', '!units', 'units[3]', 'café', 'a]b[c', '!x[1]',
                       'line\nbreak', '!units[5 gram]', '!units[nan gram]', '!ProcessSerializer', 's%d' % rng.randint(0, 9)])


UNITS = ['gram', 'milligram', 'millimolar', 'nanometer', 'nanomolar / second', 'femtogram / micrometer ** 3',
         'second', '1 / second']
# offset units: a quantity in them is Quantity(magnitude, unit), not a product (F23)
OFFSET_UNITS = ['degree_Celsius', 'degree_Fahrenheit']


def gen_leaf(rng):
    k = rng.random()
    if k < 0.18:
        return ['int', rng.choice([0, 1, -1, 7, 2 ** 53 + 1, -2 ** 62, rng.randint(-1000, 1000)])]
    if k < 0.33:
        return ['float', gen_float(rng).hex()]
    if k < 0.45:
        return ['str', gen_str(rng)]
    if k < 0.52:
        return ['bool', rng.random() < 0.5]
    if k < 0.57:
        return ['none']
    if k < 0.65:
        return ['npint', rng.randint(-50, 50)]
    if k < 0.70:
        return ['npfloat', gen_float(rng).hex()]
    if k < 0.85:
        mag = rng.choice([['int', rng.choice([0, 1, -3, 5, 1000])], ['float', gen_float(rng).hex()],
                          ['float', float('nan').hex()], ['float', (1e-300).hex()], ['float', (1e300).hex()]])
        return ['qty', mag, rng.choice(UNITS + OFFSET_UNITS) if rng.random() < 0.3 else rng.choice(UNITS)]
    if k < 0.89:
        return ['unit', rng.choice(UNITS[:7])]
    if k < 0.92:
        return ['proc', rng.randint(0, 3)]
    if k < 0.94:
        return ['fun']
    if k < 0.97:
        return ['nanfloat', rng.choice(['nan', 'inf', '-inf'])]
    return ['nparr', [rng.randint(-5, 5) for _ in range(rng.randint(0, 3))]]


def gen_val(rng, depth):
    if depth == 0 or rng.random() < 0.3:
        return gen_leaf(rng)
    k = rng.random()
    n = rng.randint(0, 3)
    if k < 0.3:
        return ['list', [gen_val(rng, depth - 1) for _ in range(n)]]
    if k < 0.4:
        return ['tuple', [gen_val(rng, depth - 1) for _ in range(n)]]
    if k < 0.47:
        return ['set', [['int', x] for x in rng.sample(range(20), n)]]
    if k < 0.52:
        return ['nparr2', [[rng.randint(0, 9) for _ in range(2)] for _ in range(n)]]
    keys = rng.sample(['a', 'b', 'c', 'time', '!k', 'k]'], min(n, 6))
    return ['dict', [[['s', kk], gen_val(rng, depth - 1)] for kk in keys]]


def poison(rng, v):
    """put one malformed element somewhere"""
    if v[0] in ('list', 'tuple') and v[1]:
        i = rng.randrange(len(v[1]))
        v[1][i] = poison(rng, v[1][i])
        return v
    if v[0] == 'dict' and v[1] and rng.random() < 0.7:
        i = rng.randrange(len(v[1]))
        if rng.random() < 0.5:
            v[1][i][0] = rng.choice([['i', 3], ['np', 'zz']])
        else:
            v[1][i][1] = poison(rng, v[1][i][1])
        return v
    return rng.choice([['unsupported'], ['dict', [[['i', 1], ['int', 2]]]], ['dict', [[['np', 'q'], ['none']]]]])


def generate(seed, tier, enlarged=False):
    rng = random.Random(seed * 389 + 14)
    n = 900 if tier == 'quick' else 25000
    if enlarged:
        n *= 3
    cases = []
    for i in range(n):
        r = i % 10
        v = gen_val(rng, rng.randint(0, 5))
        if r < 3:
            cases.append({'kind': 'ser', 'v': v})
        elif r < 7:
            cases.append({'kind': 'round', 'v': v})
        elif r == 7:
            cases.append({'kind': 'ser', 'v': poison(rng, v)})
        elif r == 8:
            # (`second`: the row is the second one emitted for its time, merged into the stored row)
            cases.append({'kind': 'emitter', 'v': ['dict', [[['s', 'x'], v]]], 'second': rng.random() < 0.5})
        else:
            cases.append({'kind': 'idem', 'v': v})
    # serializers registered in the middle of a session (after values have been deserialized already): what they
    # serialize must come back through them
    cases += [{'kind': 'late', 'v': ['int', rng.randint(-50, 50)], 'n': i} for i in range(max(3, n // 300))]
    return cases


# ------------------------------------------------------------------ python objects

_PROC = None


def build(v):
    import numpy as np
    from vivarium.library.units import units
    t = v[0]
    if t == 'int':
        return v[1]
    if t == 'float':
        return float.fromhex(v[1])
    if t == 'nanfloat':
        return float(v[1])
    if t == 'str':
        return v[1]
    if t == 'bool':
        return v[1]
    if t == 'none':
        return None
    if t == 'npint':
        return np.int64(v[1])
    if t == 'npfloat':
        return np.float64(float.fromhex(v[1]))
    if t == 'nparr':
        if len(v[1]) >= 2 and sum(v[1]) % 2:
            # the same contents as a reversed (non C-contiguous) view: orjson hands those to the fallback serializer
            return np.array(v[1][::-1], dtype=np.int64)[::-1]
        return np.array(v[1], dtype=np.int64)
    if t == 'nparr2':
        a = np.array(v[1], dtype=np.int64).reshape(len(v[1]), 2)
        if len(v[1]) >= 2 and sum(map(sum, v[1])) % 2:
            return np.asfortranarray(a)          # Fortran order: not C-contiguous either
        return a
    if t == 'qty':
        mag = build(v[1])
        return units.Quantity(mag, v[2]) if v[2] in OFFSET_UNITS else mag * units(v[2])
    if t == 'unit':
        return units(v[1]).units
    if t == 'proc':
        return get_proc(v[1])
    if t == 'fun':
        return build
    if t == 'unsupported':
        return complex(1, 2)
    if t == 'list':
        return [build(x) for x in v[1]]
    if t == 'tuple':
        return tuple(build(x) for x in v[1])
    if t == 'set':
        return set(build(x) for x in v[1])
    if t == 'dict':
        import numpy as np
        d = {}
        for k, x in v[1]:
            kk = k[1] if k[0] == 's' else (k[1] if k[0] == 'i' else np.str_(k[1]))
            d[kk] = build(x)
        return d
    raise ValueError(t)


def get_proc(i):
    global _PROC
    if _PROC is None:
        from vivarium.core.process import Process

        class Dummy(Process):
            defaults = {'k': 1}

            def ports_schema(self):
                return {}

            def next_update(self, t, s):
                return {}
        _PROC = [Dummy({'k': j, 'time_step': 1.0}) for j in range(4)]
    return _PROC[i]


# ------------------------------------------------------------------ rendering values

class Floats:
    def __init__(self):
        self.tab = {}

    def id(self, x):
        h = float(x).hex()
        if h not in self.tab:
            self.tab[h] = len(self.tab)
        return self.tab[h]


def r_num_py(x, fl):
    if isinstance(x, bool):
        raise ValueError('bool as number')
    if isinstance(x, int):
        return '(NInt %s)' % cZ(x)
    return '(NFloat %s)' % cN(fl.id(x))


def r_pval(v, fl, obj=None):
    """model term of the generated value; obj is the built python object (for printed forms)"""
    t = v[0]
    if t == 'int':
        return '(PNum (NInt %s))' % cZ(v[1])
    if t == 'float':
        return '(PNum (NFloat %s))' % cN(fl.id(float.fromhex(v[1])))
    if t == 'nanfloat':
        return 'PNanFloat'
    if t == 'str':
        return '(PStr %s)' % cstr(v[1])
    if t == 'bool':
        return '(PBool %s)' % cbool(v[1])
    if t == 'none':
        return 'PNone'
    if t == 'npint':
        return '(PNpScalar (NInt %s))' % cZ(v[1])
    if t == 'npfloat':
        return '(PNpScalar (NFloat %s))' % cN(fl.id(float.fromhex(v[1])))
    if t == 'nparr':
        return '(PNpArr %s)' % clist(['(PNum (NInt %s))' % cZ(x) for x in v[1]])
    if t == 'nparr2':
        return '(PNpArr %s)' % clist(['(PNpArr %s)' % clist(['(PNum (NInt %s))' % cZ(x) for x in row]) for row in v[1]])
    if t == 'qty':
        return '(PQty %s)' % cstr(str(obj))
    if t == 'unit':
        return '(PUnit %s)' % cstr(str(obj))
    if t == 'proc':
        return '(PProc %s)' % cstr(str(dict(obj.parameters, _name=obj.name)))
    if t == 'fun':
        return '(PFun %s)' % cstr(str(obj))
    if t == 'unsupported':
        return 'PUnsupported'
    if t == 'list':
        return '(PList %s)' % clist([r_pval(x, fl, o) for x, o in zip(v[1], obj)])
    if t == 'tuple':
        return '(PTuple %s)' % clist([r_pval(x, fl, o) for x, o in zip(v[1], obj)])
    if t == 'set':
        return '(PSet %s)' % clist(['(PNum (NInt %s))' % cZ(o) for o in list(obj)])
    if t == 'dict':
        items = []
        for (k, x), (pk, o) in zip(v[1], obj.items()):
            kk = '(KStr %s)' % cstr(k[1]) if k[0] == 's' else ('(KInt %s)' % cZ(k[1]) if k[0] == 'i' else '(KNpStr %s)' % cstr(k[1]))
            items.append(cpair(kk, r_pval(x, fl, o)))
        return '(PDict %s)' % clist(items)
    raise ValueError(t)


def r_jval(j, fl):
    if j is None:
        return 'JNull'
    if isinstance(j, bool):
        return '(JBool %s)' % cbool(j)
    if isinstance(j, (int, float)):
        return '(JNum %s)' % r_num_py(j, fl)
    if isinstance(j, str):
        return '(JStr %s)' % cstr(j)
    if isinstance(j, list):
        return '(JList %s)' % clist([r_jval(x, fl) for x in j])
    if isinstance(j, dict):
        return '(JObj %s)' % clist([cpair(cstr(k), r_jval(x, fl)) for k, x in j.items()])
    raise ValueError('not plain JSON data: %r' % (type(j),))


def r_dval(d, fl):
    from pint import Quantity, Unit
    if d is None:
        return 'DNone'
    if isinstance(d, bool):
        return '(DBool %s)' % cbool(d)
    if isinstance(d, Quantity):
        m = d.magnitude
        if isinstance(m, float) and math.isnan(m):
            return '(DNanUnits %s)' % cstr(str(d.units))
        return '(DUnits %s)' % cstr(str(d))
    if isinstance(d, (int, float)):
        return '(DNum %s)' % r_num_py(d, fl)
    if isinstance(d, str):
        return '(DStr %s)' % cstr(d)
    if isinstance(d, list):
        return '(DList %s)' % clist([r_dval(x, fl) for x in d])
    if isinstance(d, dict):
        return '(DDict %s)' % clist([cpair(cstr(k), r_dval(x, fl)) for k, x in d.items()])
    raise ValueError('unexpected deserialized value %r' % (type(d),))


def marker_bodies(j, out):
    if isinstance(j, str):
        m = re.fullmatch(r'!units\[(.*)\]', j)
        if m:
            out.add(m.group(1))
    elif isinstance(j, list):
        for x in j:
            marker_bodies(x, out)
    elif isinstance(j, dict):
        for x in j.values():
            marker_bodies(x, out)


def canon_table(bodies):
    """what pint prints for what it parses from each body (the leaf premise, evaluated)"""
    from vivarium.library.units import units
    tab = []
    for b in sorted(bodies):
        try:
            if b == 'nan' or b.startswith('nan '):
                key = 'nan ' + b[3:].lstrip()
                try:
                    tab.append((key, str(units('1' + b[3:]).units)))
                except Exception as e:
                    if type(e).__name__ != 'OffsetUnitCalculusError':
                        raise
                    tab.append((key, str(units.Quantity(1, b[3:].strip()).units)))
            else:
                try:
                    q = units(b)
                except Exception as e:
                    if type(e).__name__ != 'OffsetUnitCalculusError':
                        raise
                    # what the text denotes: the quantity of that magnitude in that (offset) unit
                    m, _, u = b.partition(' ')
                    q = units.Quantity(float(m) if any(ch in m for ch in '.en') else int(m), u)
                tab.append((b, str(q)))
                if str(q) != b and re.match(r'[-+0-9.]|inf', b):       # a printed quantity (units alone parse to 1 * unit)
                    LEAF_PREMISE_FAILURES.append((b, str(q)))
        except Exception as e:
            tab.append((b, 'UNPARSEABLE:' + type(e).__name__))
    return tab


class LateBase:
    def __init__(self, n):
        self.n = n

    def __eq__(self, other):
        return type(self) is type(other) and self.n == other.n

    def __repr__(self):
        return '%s(%d)' % (type(self).__name__, self.n)


def run_late(c):
    from vivarium.core.serialize import serialize_value, deserialize_value
    from vivarium.core.registry import Serializer, serializer_registry
    import re
    deserialize_value({'warm': [1, 'up']})          # the session has deserialized something before
    tag = 'late%dx%d' % (c['n'], len(serializer_registry.list()))
    cls = type('Late_' + tag, (LateBase,), {})
    rx = re.compile(r'!%s\[(-?\d+)\]' % tag)

    class LateSerializer(Serializer):
        python_type = cls

        def serialize(self, data):
            return '!%s[%d]' % (tag, data.n)

        def can_deserialize(self, data):
            return isinstance(data, str) and bool(rx.fullmatch(data))

        def deserialize(self, data):
            return cls(int(rx.fullmatch(data).group(1)))
    serializer_registry.register(str(cls), LateSerializer())
    n = c['v'][1]
    obj = {'a': cls(n), 'b': [cls(n + 1), 2], 'c': {'d': cls(n + 2)}}
    out = {'obj': None}
    try:
        s = serialize_value(obj)
        out['late_ser_ok'] = s == {'a': '!%s[%d]' % (tag, n), 'b': ['!%s[%d]' % (tag, n + 1), 2], 'c': {'d': '!%s[%d]' % (tag, n + 2)}}
        back = deserialize_value(s)
        out['late_back_ok'] = back == obj
        out['late_back'] = repr(back)[:200]
    except Exception as e:
        out['late_err'] = '%s: %s' % (type(e).__name__, str(e)[:150])
    return out


def run_impl(c):
    from vivarium.core.serialize import serialize_value, deserialize_value
    from vivarium.core.emitter import RAMEmitter
    if c['kind'] == 'late':
        return run_late(c)
    obj = build(c['v'])
    kind = c['kind']
    out = {'obj': obj}
    try:
        s = serialize_value(obj)
        out['ser'] = s
    except TypeError as e:
        msg = str(e)
        out['ser_err'] = 'TypeErrorKey' if ('incompatible non-string' in msg and 'paths' in msg and '[]' not in msg.split(':')[-1]) \
            else 'TypeErrorNoSerializer'
        return out
    except Exception as e:
        out['ser_err'] = 'Other:' + type(e).__name__
        return out
    if kind == 'idem':
        try:
            out['ser2'] = serialize_value(s)
        except Exception as e:
            out['ser2_err'] = type(e).__name__
    if kind in ('round', 'emitter'):
        try:
            if kind == 'round':
                out['deser'] = deserialize_value(s)
            else:
                em = RAMEmitter({})
                row = dict(obj)
                row['time'] = 0.0
                if c.get('second'):
                    em.emit({'table': 'history', 'data': {'time': 0.0, 'zz_first': 1}})
                em.emit({'table': 'history', 'data': row})
                out['stored'] = em.get_data()[0.0]
                out['deser'] = em.get_data_deserialized()[0.0]
                out['deser'].pop('zz_first', None)
        except Exception as e:
            out['deser_err'] = type(e).__name__ + ':' + str(e)[:100]
    return out


def oracle(c, ob, rng):
    msgs = []

    def plain(j):
        if j is None or isinstance(j, (bool, int, float, str)):
            return True
        if isinstance(j, list):
            return all(plain(x) for x in j)
        if isinstance(j, dict):
            return all(isinstance(k, str) and plain(x) for k, x in j.items())
        return False
    if c['kind'] == 'late':
        if 'late_err' in ob:
            return [('a serializer registered in mid-session: ' + ob['late_err'], 'late-serializer')]
        if not ob['late_ser_ok']:
            return [('a serializer registered in mid-session is not used by serialize_value', 'late-serializer')]
        if not ob['late_back_ok']:
            return [('values serialized by a serializer registered in mid-session do not come back through its '
                     'deserializer: got %s' % ob['late_back'], 'late-serializer')]
        return []
    if 'stored' in ob and not plain(ob['stored']):
        msgs.append(('the row stored by the RAM emitter (%s row for its time) is not plain JSON data'
                     % ('second' if c.get('second') else 'first'), 'not-plain'))
    if 'ser' in ob:
        if not plain(ob['ser']):
            msgs.append(('serialize_value returned something that is not plain JSON data', 'not-plain'))
    if 'ser2' in ob and ob['ser2'] != ob['ser']:
        msgs.append(('serialize_value is not idempotent on its own output', 'not-idempotent'))
    if 'ser2_err' in ob:
        msgs.append(('serialize_value rejects its own output: ' + ob['ser2_err'], 'not-idempotent'))
    if 'ser_err' in ob and has_bad(c['v']) is False:
        msgs.append(('a supported value was rejected: ' + ob['ser_err'], 'rejects-supported'))
    if 'ser' in ob and has_bad(c['v']):
        msgs.append(('an unsupported value or non-string key was serialized silently', 'accepts-unsupported'))
    if 'deser' in ob:
        exp = expected(c['v'] if c['kind'] == 'round' else c['v'], ob['obj'])
        got = ob['deser']
        if c['kind'] == 'emitter':
            got = {k: v for k, v in got.items()}
        if not same(exp, got) and not looks_like_marker(c['v']):
            msgs.append(('round trip changed the value: %r -> %r' % (short(exp), short(got)), 'roundtrip'))
    if 'deser_err' in ob and not looks_like_marker(c['v']):
        msgs.append(('deserialize_value raised ' + ob['deser_err'], 'roundtrip-raised'))
    return msgs[:2]


def has_bad(v):
    t = v[0]
    if t == 'unsupported':
        return True
    if t in ('list', 'tuple'):
        return any(has_bad(x) for x in v[1])
    if t == 'dict':
        return any(k[0] != 's' or has_bad(x) for k, x in v[1])
    return False


def looks_like_marker(v):
    t = v[0]
    if t == 'str':
        return re.fullmatch(r'!units\[(.*)\]', v[1]) is not None
    if t in ('list', 'tuple'):
        return any(looks_like_marker(x) for x in v[1])
    if t == 'dict':
        return any(looks_like_marker(x) for _, x in v[1])
    return False


def expected(v, obj):
    """normal form of the original: tuples/sets/arrays -> lists, numpy scalars -> python, nan floats -> None"""
    import numpy as np
    from pint import Quantity, Unit
    if isinstance(obj, Quantity):
        return obj
    if isinstance(obj, Unit):
        return 1 * obj
    if isinstance(obj, np.ndarray):
        return obj.tolist()
    if isinstance(obj, (np.integer,)):
        return int(obj)
    if isinstance(obj, (np.floating,)):
        return float(obj)
    if isinstance(obj, float) and (math.isnan(obj) or math.isinf(obj)):
        return None
    if isinstance(obj, (list, tuple)):
        return [expected(None, x) for x in obj]
    if isinstance(obj, set):
        return [expected(None, x) for x in obj]
    if isinstance(obj, dict):
        return {k: expected(None, x) for k, x in obj.items()}
    if v is not None and v[0] == 'proc':
        return '!ProcessSerializer[%s]' % str(dict(obj.parameters, _name=obj.name))
    if callable(obj) and not isinstance(obj, type):
        return '!FunctionSerializer[%s]' % str(obj)
    if hasattr(obj, 'parameters') and hasattr(obj, 'ports_schema'):
        return '!ProcessSerializer[%s]' % str(dict(obj.parameters, _name=obj.name))
    return obj


def same(a, b):
    from pint import Quantity
    if isinstance(a, Quantity) or isinstance(b, Quantity):
        if not (isinstance(a, Quantity) and isinstance(b, Quantity)):
            return False
        if str(a.units) != str(b.units):
            return False
        ma, mb = a.magnitude, b.magnitude
        if isinstance(ma, float) and math.isnan(ma):
            return isinstance(mb, float) and math.isnan(mb)
        return ma == mb
    if isinstance(a, dict) and isinstance(b, dict):
        return list(a.keys()) == list(b.keys()) and all(same(a[k], b[k]) for k in a)
    if isinstance(a, list) and isinstance(b, list):
        return len(a) == len(b) and all(same(x, y) for x, y in zip(a, b))
    if isinstance(a, float) and isinstance(b, float):
        return a.hex() == b.hex()
    return type(a) == type(b) and a == b


def short(x):
    s = repr(x)
    return s if len(s) < 160 else s[:160] + '...'


def render(c, ob):
    if c['kind'] == 'late':
        return None                   # oracle only
    fl = Floats()
    v = r_pval(c['v'], fl, ob['obj'])
    kind = c['kind']
    if 'ser_err' in ob:
        if ob['ser_err'].startswith('Other'):
            raise ValueError(ob['ser_err'])
        return '(ESer %s (SErr %s))' % (v, ob['ser_err'])
    if kind in ('ser', 'idem') or 'deser' not in ob:
        return '(ESer %s (SOk %s))' % (v, r_jval(ob['ser'], fl))
    bodies = set()
    marker_bodies(ob['ser'], bodies)
    tab = clist([cpair(cstr(a), cstr(b)) for a, b in canon_table(bodies)])
    return '(ERound %s %s %s)' % (tab, v, r_dval(ob['deser'], fl))


def nontrivial(c, ob):
    return c['kind'] == 'late' or c['v'][0] in ('list', 'tuple', 'dict', 'set', 'nparr2')


def stat_key(c, ob):
    return '%s/%s' % (c['kind'], 'err' if 'ser_err' in ob else ('deser_err' if 'deser_err' in ob else 'ok'))


def run(cases, tier='quick', seed=0):
    del LEAF_PREMISE_FAILURES[:]
    res = common.generic_run(__import__('harness.c14', fromlist=['x']), cases, seed, shard=150)
    for o in res['observations']:
        if isinstance(o, dict):
            o.pop('obj', None)
            o.pop('stored', None)
    res['stats']['leaf_premise_failures'] = len(LEAF_PREMISE_FAILURES)
    res['samples'] = [{'case': cases[i]} for i in range(min(3, len(cases)))]
    return res


def model_output(case, ob):
    ob2 = run_impl(case)
    return common.coq_eval('C14', IMPORTS, 'model_out %s' % render(case, ob2))[:4000]
