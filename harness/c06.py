"""C06 — a port reads and writes the same store node, for every topology."""
import copy
import random
from harness import common, wire

FAMILY = 'wire'
RULE = ('1-3 (thorough 1-4) processes placed at depth 0-2, each with 1-4 ports: dict-of-variables ports (one nesting '
        'level), glob ports with sub-schemas (wired by a path, or by a dict with a "*" sub-topology and _path beside or '
        'inside it), output ports, ports split/renamed with _path dicts, _path-less dicts '
        'listing every sub-key, ".." at any position, two ports wired to one store; partial initial states and glob '
        'children named by the initial state. Kinds: view (topology view as absolute paths + states dict), invert '
        '(inverse_topology of a token update), apply (state after the inverted update). Non-trivial: >=2 ports; '
        'distinct by rendered term. Glob-topology stream (oracle only): a glob port whose topology entry has a "*" '
        'sub-topology with _path beside or inside it, process at the root or one level down, 1-2 variables at depth '
        '1-3 below each child, driven through a real Engine for 2-4 steps: every read comes from the named node, every '
        'token lands on it, nothing else changes, the topology object is left as it was.')
ASSUMPTIONS = [
    'well-formed domain: every declared port is mapped; a dict topology carries _path or lists every declared sub-key; no path climbs above the root; variable names and branch names are disjoint (a node is never both)',
    'all variables use the set updater and integer values; process nodes are not represented in the model tree',
    'glob children exist through the initial state; "*" entries of topology dicts are outside Model/Wire.v and decided by the glob-topology oracle stream only',
]
IMPORTS, CHECK_FN, BAD_TERM = wire.IMPORTS, wire.CHECK_FN, wire.BAD_TERM
model_output = wire.model_output


def _gt(c):
    from harness import globtopo
    return globtopo if c['kind'] == 'globtopo' else None


def render(c, ob):
    return None if _gt(c) else wire.render(c, ob)


def run_impl(c):
    return _gt(c).run_impl(c) if _gt(c) else wire.run_impl(c)


def stat_key(c, ob):
    return _gt(c).stat_key(c, ob) if _gt(c) else wire.stat_key(c, ob)


def nontrivial(c, ob):
    return _gt(c).nontrivial(c, ob) if _gt(c) else wire.nontrivial(c, ob)


def generate(seed, tier, enlarged=False):
    rng = random.Random(seed * 131 + 6)
    n = 300 if tier == 'quick' else 6000
    if enlarged:
        n *= 3
    wire.GLOBDICT_WEIGHT[0] = 2
    cases = wire.gen_cases(rng, n, ['view', 'invert', 'apply', 'apply'], 3 if tier == 'quick' else 4)

    # corpus: two scalar port variables wired to one variable, at the root of the hierarchy, reached through
    # '..' from a nested process, and one level down (F3 was this collision; every depth has to merge)
    def var(d):
        return {'$var': {'default': d, 'value': None, 'units': None}}

    def collide(parent, tgt):
        return {'kind': 'apply', 'init': {}, 'i': 0, 'upd': {'pa': {'x': 10, 'y': 20}}, 'procs': [{
            'parent': parent, 'name': 'p0',
            'schema': {'$node': {'out': False, 'c': [['pa', {'$node': {'out': False, 'c': [['x', var(1)], ['y', var(1)]]}}]]}},
            'topo': [['pa', {'$dict': {'path': None, 'c': [['x', {'$path': tgt}], ['y', {'$path': tgt}]]}}]]}]}
    cases = [collide([], ['z']), collide(['c1'], ['..', 'z']), collide([], ['sa', 'z'])] + cases
    # corpus (F22): an output-only port wired through a dictionary (with and without '_path')
    for tp in ({'$dict': {'path': ['sa'], 'c': [['x', {'$path': ['z']}]]}},
               {'$dict': {'path': None, 'c': [['x', {'$path': ['sa', 'z']}], ['y', {'$path': ['sb', 'y']}]]}}):
        cases.insert(3, {'kind': 'apply', 'init': {}, 'i': 0, 'upd': {'pa': {'x': 10, 'y': 20}}, 'procs': [{
            'parent': ['c1'], 'name': 'p0',
            'schema': {'$node': {'out': False, 'c': [['pa', {'$node': {'out': True, 'c': [['x', var(1)], ['y', var(2)]]}}]]}},
            'topo': [['pa', tp]]}]})
    # glob ports whose topology carries a '*' entry (oracle only: no '*' entries in the model's topologies)
    from harness import globtopo
    cases += [globtopo.gen_case(rng) for _ in range(n // 5)]
    # what a port READS while the structure changes around it: the live stream of C07
    from harness import live
    cases += [live.gen_case(rng) for _ in range(n // 10)]
    return cases


def flat_tokens(u, prefix=()):
    out = []
    for k, v in u.items():
        if isinstance(v, dict):
            out.extend(flat_tokens(v, prefix + (k,)))
        else:
            out.append((prefix + (k,), v))
    return out


def view_refs(dv, prefix=()):
    """{port variable path: absolute path of the node its view refers to}"""
    out = {}
    if isinstance(dv, list) and dv and dv[0] == 'ref':
        out[prefix] = tuple(dv[1])
    elif isinstance(dv, dict):
        for k, v in dv.items():
            out.update(view_refs(v, prefix + (k,)))
    return out


def leaf_values(d, prefix=()):
    out = {}
    if isinstance(d, dict):
        for k, v in d.items():
            out.update(leaf_values(v, prefix + (k,)))
    elif isinstance(d, list) and d and d[0] == 'v':
        out[prefix] = d[1]
    return out


def oracle(c, ob, rng):
    """read/write symmetry on the implementation alone.  Every declared variable the process can
    read is updated with a distinct token (accumulate updater).  The node a variable READS is the
    one its topology view refers to; the node an update WRITES is the one whose value changes.
    Required: every node changes by exactly the sum of the tokens of the port variables that read
    it, and no other node changes."""
    msgs = []
    if c['kind'] == 'globtopo':
        from harness import globtopo
        return globtopo.oracle(c, ob, rng)
    if ob.get('topology_mutated'):
        msgs.append(('inverse_topology changed the topology it was given (a second call with the same topology '
                     'routes the same update elsewhere)', 'topology-mutated'))
    if ob.get('update_mutated'):
        msgs.append(('inverse_topology modified the update it was given', 'update-mutated'))
    if c['kind'] != 'apply' or 'ok' not in ob:
        return msgs
    from vivarium.library.topology import inverse_topology
    try:
        store = wire.build_store(c['procs'], c['init'])
    except Exception:
        return msgs
    p = c['procs'][c['i']]
    node = store.get_path(tuple(p['parent']) + (p['name'],))
    before = leaf_values(wire.dump_values(store))
    refs = view_refs(wire.dump_view(node.topology_view))
    upd = wire.dec_update(c['upd'])
    toks = dict(flat_tokens(upd))
    after = leaf_values(ob['ok'])
    expected = dict(before)
    unreadable = []
    for pv, tok in toks.items():
        if pv in refs:
            r = refs[pv]
            if r in expected and expected[r] is not None:
                expected[r] = expected[r] + tok
        else:
            unreadable.append(pv)       # output-only ports have no read side
    if unreadable:
        # output-only ports have no read side to compare with: require that nothing is lost or
        # duplicated (every token lands exactly once somewhere)
        tot_before = sum(v for v in before.values() if v is not None)
        tot_after = sum(v for v in after.values() if v is not None)
        if tot_after - tot_before != sum(toks.values()):
            msgs.append(('tokens worth %d were written but the state grew by %d: an update was lost or duplicated'
                         % (sum(toks.values()), tot_after - tot_before), 'update-lost'))
        return msgs
    for r in sorted(set(before) | set(after)):
        if after.get(r) != expected.get(r):
            readers = [pv for pv, rr in refs.items() if rr == r and pv in toks]
            if readers:
                msgs.append(('node %r is read by %r; they were updated with %r but the node went from %r to %r'
                             % (r, readers, [toks[pv] for pv in readers], before.get(r), after.get(r)),
                             'update-lost' if len(readers) > 1 else 'write-not-read-back'))
            else:
                msgs.append(('node %r changed from %r to %r although no updated port variable reads it'
                             % (r, before.get(r), after.get(r)), 'frame'))
            break
    return msgs


def run(cases, tier='quick', seed=0):
    from harness import live
    me = __import__('harness.c06', fromlist=['x'])

    class Live:
        __name__ = 'harness.live'
        IMPORTS, CHECK_FN, BAD_TERM = live.IMPORTS, live.CHECK_FN, live.BAD_TERM
        run_impl, render, oracle = staticmethod(live.run_impl), staticmethod(live.render), staticmethod(live.oracle)
        nontrivial, stat_key = staticmethod(live.nontrivial), staticmethod(live.stat_key)
    return common.merge_streams(cases, [
        (lambda c: c['kind'] != 'live', lambda cs: common.generic_run(me, cs, seed, shard=60)),
        (lambda c: c['kind'] == 'live', lambda cs: common.generic_run(Live, cs, seed, shard=20))])
