"""C09 — structural updates change the hierarchy exactly as specified and nothing else."""
import random
from harness import common, struct

FAMILY = 'struct'
RULE = ('two glob colonies holding compartments from a kit (counting process; optional legacy deriver; optional '
        'two-step flow); histories of 3-10 (thorough 3-25) updates issued through Engine.apply_update, each carrying '
        '1-3 operations among _add, _delete (key form, tuple-path form, missing key), _generate, _divide (explicit '
        'daughters or inheriting ones, with explicit initial states), _move between colonies; duplicate _add as the '
        'malformed stream. Observed after every update: the whole hierarchy with, for every node and process object, '
        'where it was before the update (identity), plus the engine bookkeeping; with some probability one directive '
        'object is addressed to both colonies in turn. Nested stream: two zones of groups of cells, every '
        'cell with a process, 1-6 _move updates whose source is a group or a cell named by a nested path; after each, '
        'hierarchy, node/process identities and process table against Model/Struct.v (OpMoveP) and against a reference '
        'on plain dicts. '
        'Non-trivial: >=3 updates applied / a nested source.')
ASSUMPTIONS = [
    'generated subtrees come from a fixed kit of process classes (Model/StructC.v); the theorems are generic in the kit',
    'structural updates are addressed to the colony nodes; _move targets the other colony through the holder process port',
    'random.choice inside divide_split is replayed from the seed handed to random.seed before the update',
]
IMPORTS, CHECK_FN, BAD_TERM = struct.IMPORTS, struct.CHECK_FN, struct.BAD_TERM
render, run_impl, stat_key, nontrivial, model_output = struct.render, struct.run_impl, struct.stat_key, struct.nontrivial, struct.model_output


def generate(seed, tier, enlarged=False):
    rng = random.Random(seed * 977 + 9)
    n = 150 if tier == 'quick' else 3000
    if enlarged:
        n *= 3
    cases = [
        # corpus: tuple-path _delete (known finding K4)
        {'kind': 'hist', 'hist': [['A', [['generate', 'c01', 0, {}]]], ['A', [['delete_path', ['c01']]]]]},
        # corpus: one update that generates a compartment and deletes it again (known finding K7)
        {'kind': 'hist', 'hist': [['A', [['generate', 'c01', 0, {}]]],
                                  ['A', [['generate', 'c02', 1, {}], ['delete', 'c02']]]]},
    ]
    for i in range(n):
        cases.append({'kind': 'hist', 'hist': struct.gen_history(rng, rng.randint(3, 10 if tier == 'quick' else 25))})
    # _move whose source is named by a nested path (Model/Struct.v OpMoveP, from a hierarchy the harness supplies)
    from harness import nestmove
    for i in range(n // 3):
        cases.append(nestmove.gen_case(rng))
    # _add into a store whose children are declared through a re-mapped glob port (oracle only): the glob-topology
    # stream of C06 with its mid-run _add
    from harness import globtopo
    for i in range(n // 5):
        c = globtopo.gen_case(rng)
        if c['add_at'] is None:
            c['add_at'] = rng.choice([0, 1])
        cases.append(c)
    # the frame condition on values the structural model does not carry (None, strings, dicts): oracle only
    from harness import frame
    cases += frame.corpus() + [frame.gen_case(rng) for _ in range(n // 3)]
    return cases


def flat(a, path=()):
    out = {}
    out[path] = a
    if a[0] == 'dir':
        for k, v in a[2].items():
            out.update(flat(v, path + (k,)))
    return out


def oracle(c, ob, rng):
    """the declared effect of every operation and the frame, on the implementation's observations alone"""
    msgs = []
    prev_keys = {'A': set(), 'B': set()}
    for (col, ops), o in zip([(e[0], e[1]) for e in c['hist']], ob['obs']):
        if 'err' in o:
            created = {op[1] for op in ops if op[0] == 'generate'} | {d[0] for op in ops if op[0] == 'divide' for d in op[2]}
            # (a '_move' comes before '_generate' and '_divide': moving what the same update only creates later is
            # refused by the store, rightly - it is not there yet)
            removed = {op[1] for op in ops if op[0] in ('delete', 'divide')}
            moved_early = {op[1] for op in ops if op[0] == 'move'} & created
            if created & removed and 'is not a valid path' in o['err'] and not moved_early:
                msgs.append(('an update that creates %r and removes it again raises in Engine.apply_update: %s'
                             % (sorted(created & removed), o['err']), 'created-and-removed-in-one-update'))
                break
            dup = any(op[0] == 'add' and op[1] in prev_keys[col] for op in ops)
            if not dup and len(ops) == 1 and not (ops[0][0] in ('move', 'divide') and ops[0][1] not in prev_keys[col]):
                msgs.append(('update %r raised %s' % (ops, o['err']), 'unexpected-error'))
            break
        if o.get('links'):
            msgs.append(('after update %r the node at %r has upward links that give the path %r'
                         % (ops, o['links'][0][0], o['links'][0][1]), 'upward-link'))
            break
        nodes = flat(o['tree'])
        named = set()
        other = 'B' if col == 'A' else 'A'
        single = len(ops) == 1       # declared effects are checked on single-operation updates;
        for op in ops:               # combined ones only through the frame and the model
            if op[0] in ('add', 'generate'):
                named.add((col, op[1]))
            elif op[0] in ('delete',):
                named.add((col, op[1]))
            elif op[0] == 'delete_path':
                named.add((col,) + tuple(op[1]))
            elif op[0] == 'move':
                named.add((col, op[1]))
                named.add((other, op[1]))
            elif op[0] == 'divide':
                named.add((col, op[1]))
                for dk, ck, init in op[2]:
                    named.add((col, dk))
        for op in (ops if single else []):
            if op[0] in ('add', 'generate'):
                named.add((col, op[1]))
                if (col, op[1]) not in nodes:
                    msgs.append(('%s of %r did not create the child' % (op[0], op[1]), 'op-no-effect:' + op[0]))
                elif op[0] == 'add' and op[1] in prev_keys[col]:
                    msgs.append(('adding the existing key %r was not rejected' % op[1], 'duplicate-add-accepted'))
                else:
                    want = op[2] if op[0] == 'add' else op[3]
                    n = want.get('s', {}).get('n') if isinstance(want, dict) else None
                    got = nodes.get((col, op[1], 's', 'n'))
                    if n is not None and (got is None or got[2] != n):
                        msgs.append(('%s %r: s.n is %r, the given state says %r' % (op[0], op[1], got, n), 'state-not-applied'))
            elif op[0] == 'delete':
                named.add((col, op[1]))
                if (col, op[1]) in nodes:
                    msgs.append(('_delete of key %r left it in place' % op[1], 'delete-no-effect'))
            elif op[0] == 'delete_path':
                named.add((col,) + tuple(op[1]))
                if (col,) + tuple(op[1]) in nodes:
                    msgs.append(('_delete of path %r left it in place' % (tuple(op[1]),), 'delete-by-tuple-path'))
            elif op[0] == 'move':
                named.add((col, op[1]))
                named.add((other, op[1]))
                if (col, op[1]) in nodes or (other, op[1]) not in nodes:
                    msgs.append(('_move of %r: source still present or target missing' % op[1], 'move-no-effect'))
                else:
                    sub = {p: a for p, a in nodes.items() if p[:2] == (other, op[1])}
                    for p, a in sub.items():
                        if a[1] != [col] + list(p[1:]):
                            msgs.append(('moved node %r is not the node that was at %r (identity lost)' % (p, [col] + list(p[1:])),
                                         'move-identity'))
                            break
            elif op[0] == 'divide':
                named.add((col, op[1]))
                if (col, op[1]) in nodes:
                    msgs.append(('mother %r still present after _divide' % op[1], 'divide-mother-left'))
                for dk, ck, init in op[2]:
                    named.add((col, dk))
                    if (col, dk) not in nodes:
                        msgs.append(('daughter %r missing after _divide' % dk, 'divide-daughter-missing'))
        # frame: every node outside the named subtrees keeps identity, place and value
        for p, a in nodes.items():
            if any(p[:len(nm)] == nm for nm in named) or p == () or p == (col,) or p == (other,):
                continue
            if a[1] != list(p):
                msgs.append(('node %r is not the node that was there before (was at %r)' % (p, a[1]), 'frame-identity'))
                break
        prev_keys = {'A': {p[1] for p in nodes if len(p) == 2 and p[0] == 'A'},
                     'B': {p[1] for p in nodes if len(p) == 2 and p[0] == 'B'}}
        if msgs:
            break
    return msgs[:2]


def run(cases, tier='quick', seed=0):
    from harness import nestmove

    class Nest:
        __name__ = 'harness.nestmove'
        IMPORTS, CHECK_FN, BAD_TERM = struct.IMPORTS, struct.CHECK_FN, struct.BAD_TERM
        run_impl, oracle = staticmethod(nestmove.run_impl), staticmethod(nestmove.oracle)
        nontrivial, stat_key = staticmethod(nestmove.nontrivial), staticmethod(nestmove.stat_key)
        render = staticmethod(nestmove.render)
    me = __import__('harness.c09', fromlist=['x'])
    from harness import globtopo

    class Glob:
        __name__ = 'harness.globtopo'
        IMPORTS, CHECK_FN, BAD_TERM = struct.IMPORTS, struct.CHECK_FN, struct.BAD_TERM
        run_impl, oracle = staticmethod(globtopo.run_impl), staticmethod(globtopo.oracle)
        nontrivial, stat_key = staticmethod(globtopo.nontrivial), staticmethod(globtopo.stat_key)
        render = staticmethod(lambda c, ob: None)
    from harness import frame

    class Frame:
        __name__ = 'harness.frame'
        IMPORTS, CHECK_FN, BAD_TERM = struct.IMPORTS, struct.CHECK_FN, struct.BAD_TERM
        run_impl, oracle = staticmethod(frame.run_impl), staticmethod(frame.oracle)
        nontrivial, stat_key = staticmethod(frame.nontrivial), staticmethod(frame.stat_key)
        render = staticmethod(lambda c, ob: None)
    return common.merge_streams(cases, [
        (lambda c: c['kind'] == 'frame', lambda cs: common.generic_run(Frame, cs, seed, shard=40)),
        (lambda c: c['kind'] == 'hist', lambda cs: common.generic_run(me, cs, seed, shard=40)),
        (lambda c: c['kind'] == 'nestmove', lambda cs: common.generic_run(Nest, cs, seed, shard=40)),
        (lambda c: c['kind'] == 'globtopo', lambda cs: common.generic_run(Glob, cs, seed, shard=40))])
