"""Nested-source _move stream (C09): two zones of groups of cells (a two-level glob), random sequences of
_move updates whose source is a group (path of length 1) or a cell named by a nested path (length 2), some cells
holding a process.  After every update the hierarchy is compared with a reference computed on plain dicts
(detach the source subtree, attach it under the target at the same relative path, creating the missing
intermediate node; nothing else changes), node and process-object identities included, and the engine's
process table with the process nodes of the hierarchy.

Compared with Model/Struct.v (OpMoveP / OpMove from a hierarchy rendered by the harness: Corr/Structc.v HNest)
and judged by the reference oracle."""
import contextlib
import copy
import io

GROUPS = ['g1', 'g2', 'g3']
CELLS = ['x', 'y', 'z']
_KIT = None


def kit():
    global _KIT
    if _KIT:
        return _KIT
    from vivarium.core.process import Process
    LEAF = {'mass': {'_default': 0, '_updater': 'set', '_emit': True}}

    class Holder(Process):
        def ports_schema(self):
            # '**': the whole subtree, no sub-schema (a two-level glob meeting cells that exist already through
            # the processes dict makes Store._topology_ports create a child literally named '*')
            return {'za': '**', 'zb': '**'}

        def next_update(self, ts, states):
            return {}

    class Inner(Process):
        def ports_schema(self):
            return {'m': {'mass': {'_default': 0, '_updater': 'set', '_emit': True}}}

        def next_update(self, ts, states):
            return {}
    _KIT = dict(Holder=Holder, Inner=Inner)
    return _KIT


def gen_case(rng):
    zones = {'za': {}, 'zb': {}}
    n = 0
    for z in zones:
        for g in rng.sample(GROUPS, rng.randint(0 if z == 'zb' else 1, 3)):
            zones[z][g] = {}
            for c in rng.sample(CELLS, rng.randint(1, 3)):
                n += 1
                zones[z][g][c] = {'mass': n, 'proc': True}     # every cell is declared by a process of its own
    layout = copy.deepcopy(zones)
    moves = []
    for _ in range(rng.randint(1, 6)):
        frm = rng.choice(['za', 'zb'])
        to = 'zb' if frm == 'za' else 'za'
        groups = list(zones[frm])
        if not groups:
            continue
        g = rng.choice(groups)
        cells = list(zones[frm][g])
        if cells and rng.random() < 0.7:
            c = rng.choice(cells)
            if c in zones[to].get(g, {}):
                continue                      # the target already holds that path: merged as an update, not generated
            zones[to].setdefault(g, {})[c] = zones[frm][g].pop(c)
            moves.append([frm, [g, c], to])
        else:
            if g in zones[to]:
                continue
            zones[to][g] = zones[frm].pop(g)
            moves.append([frm, [g], to])
    return {'kind': 'nestmove', 'layout': layout, 'moves': moves}


def dump(store, ids):
    """{path: (id of the Store node, value or id of the process object)}"""
    from vivarium.core.process import Process
    out = {}

    def walk(s, path):
        ids.append(s)
        if tuple(s.path_for()) != tuple(path):
            out.setdefault('!links', []).append(['/'.join(path), list(s.path_for())])
        if isinstance(s.value, Process):
            ids.append(s.value)
            out[path] = [id(s), 'proc', id(s.value)]
        elif s.inner or not s.leaf:
            out[path] = [id(s), 'dir', None]
            for k, ch in s.inner.items():
                walk(ch, path + (k,))
        else:
            out[path] = [id(s), 'var', s.value]
    walk(store, ())
    return out


def run_impl(c):
    from vivarium.core.engine import Engine
    K = kit()
    processes, topology = {}, {}
    init = {'za': {}, 'zb': {}}
    for z, groups in c['layout'].items():
        for g, cells in groups.items():
            init[z].setdefault(g, {})
            for cell, d in cells.items():
                init[z][g][cell] = {'mass': d['mass']}
                if d['proc']:
                    processes.setdefault(z, {}).setdefault(g, {}).setdefault(cell, {})['p'] = K['Inner']()
                    topology.setdefault(z, {}).setdefault(g, {}).setdefault(cell, {})['p'] = {'m': ()}
    # the holder is listed last: its two-level glob schema then meets cells that already exist
    processes['holder'] = K['Holder']()
    topology['holder'] = {'za': ('za',), 'zb': ('zb',)}
    keep = []
    steps = []
    with contextlib.redirect_stdout(io.StringIO()):
        eng = Engine(processes=processes, topology=topology, initial_state=init, display_info=False)
        holder = eng.state.get_path(('holder',))
        before = dump(eng.state, keep)
        for frm, src, to in c['moves']:
            try:
                expire = eng.apply_update({frm: {'_move': [{'source': tuple(src), 'target': (to,)}]}}, holder)
                if expire:
                    eng.state.build_topology_views()
            except Exception as e:
                steps.append({'err': type(e).__name__ + ':' + str(e)[:160]})
                break
            after = dump(eng.state, keep)
            links = after.pop('!links', None)
            before.pop('!links', None)
            steps.append({'links': links, 'before': {'/'.join(p): v for p, v in before.items()},
                          'after': {'/'.join(p): v for p, v in after.items()},
                          'table': sorted('/'.join(p) for p in eng.process_paths)})
            before = after
        eng.end()
    return {'steps': steps}


def oracle(c, ob, rng):
    for (frm, src, to), st in zip(c['moves'], ob['steps']):
        what = '_move of %s/%s to %s' % (frm, '/'.join(src), to)
        if 'err' in st:
            return [('%s raised %s' % (what, st['err']), 'nested-move-raised')]
        if st.get('links'):
            return [('%s: the upward links of %r do not lead back to the root along their own path (path_for() gives %r)'
                     % (what, st['links'][0][0], st['links'][0][1]), 'upward-link')]
        b = {tuple(k.split('/')) if k else (): v for k, v in st['before'].items()}
        a = {tuple(k.split('/')) if k else (): v for k, v in st['after'].items()}
        old = (frm,) + tuple(src)
        new = (to,) + tuple(src)
        want = {}
        for p, v in b.items():
            if p[:len(old)] == old:
                want[new + p[len(old):]] = v
            else:
                want[p] = v
        created = [new[:i] for i in range(2, len(new)) if new[:i] not in b]
        for p in created:
            want[p] = [None, 'dir', None]
        if set(a) != set(want):
            return [('%s: nodes %r differ from the expected hierarchy (missing / unexpected)'
                     % (what, sorted('/'.join(p) for p in set(a) ^ set(want))), 'move-hierarchy')]
        for p, v in want.items():
            if p in created:
                continue
            if a[p] != v:
                kind = 'move-identity' if p[:len(new)] == new else 'frame-identity'
                return [('%s: node %r is %r, expected the node/value %r' % (what, '/'.join(p), a[p], v), kind)]
        procs = sorted('/'.join(p) for p, v in a.items() if v[1] == 'proc')
        if procs != st['table']:
            return [('%s: the process table %r differs from the process nodes %r' % (what, st['table'], procs),
                     'process-table')]
    return []


KEYID = {'za': 200, 'zb': 201, 'g1': 210, 'g2': 211, 'g3': 212, 'x': 220, 'y': 221, 'z': 222, 'mass': 230,
         'p': 231, 'holder': 12}


def _tree(flat):
    """{'a/b': v} (parents before children, dict order) -> nested [(key, path, v, children)]"""
    root = {'v': flat[''], 'c': {}}
    for k, v in flat.items():
        if not k:
            continue
        node = root
        for part in k.split('/'):
            node = node['c'].setdefault(part, {'v': None, 'c': {}})
        node['v'] = v
    return root


def render(c, ob):
    from harness.common import cN, cZ, clist, cpair, copt, cbool
    if not ob['steps'] or 'before' not in ob['steps'][0]:
        return None

    def rp(path):
        return clist([cN(KEYID[k]) for k in path])
    first = ob['steps'][0]['before']
    uid = {v[0]: 1000 + i for i, v in enumerate(first.values())}
    oid = {v[2]: 5000 + i for i, v in enumerate(first.values()) if v[1] == 'proc'}

    def cnode(n):
        i, kind, val = n['v']
        if kind == 'var':
            return '(CVar %s %s DSet)' % (cN(uid[i]), cZ(val))
        if kind == 'proc':
            return ('(CProc %s {| pi_step := false; pi_in_steps := false; pi_flow := None; pi_obj := %s |})'
                    % (cN(uid[i]), cN(oid[val])))
        return '(CDir %s false %s)' % (cN(uid[i]), clist([cpair(cN(KEYID[k]), cnode(x)) for k, x in n['c'].items()]))

    exp = []
    for st in ob['steps']:
        if 'err' in st:
            exp.append('None')
            break
        where = {v[0]: k for k, v in st['before'].items()}
        objs = {v[2]: k for k, v in st['before'].items() if v[1] == 'proc'}

        def prev(table, key):
            p = table.get(key)
            return copt(rp(p.split('/') if p else []) if p is not None else None)

        def anode(n):
            i, kind, val = n['v']
            if kind == 'var':
                return '(AVar %s %s)' % (prev(where, i), cZ(val))
            if kind == 'proc':
                return '(AProc %s %s false)' % (prev(where, i), prev(objs, val))
            return '(ADir %s %s)' % (prev(where, i), clist([cpair(cN(KEYID[k]), anode(x)) for k, x in n['c'].items()]))
        exp.append('(Some (%s, %s))' % (anode(_tree(st['after'])), clist([rp(p.split('/')) for p in st['table']])))
    hist = clist([cpair(rp([frm]), clist(['(%s N %s %s)' % (
        'OpMoveP' if len(src) > 1 else 'OpMove', rp(src) if len(src) > 1 else cN(KEYID[src[0]]), rp([to]))]))
        for frm, src, to in c['moves'][:len(exp)]])
    return '(HNest %s 9000 %s %s)' % (cnode(_tree(first)), hist, clist(exp))


def model_output(c, ob):
    from harness import common, struct
    t = render(c, ob)
    return {'agree(tree,table) per update': common.coq_eval('STRUCT', struct.IMPORTS, 'diagnose %s' % t)[:400],
            'model': common.coq_eval('STRUCT', struct.IMPORTS, 'model_out_nest %s' % t)[:5000]}


def nontrivial(c, ob):
    return any(len(src) == 2 for _, src, _ in c['moves']) and len(ob['steps']) >= 1


def stat_key(c, ob):
    return 'nestmove/%s' % ('err' if any('err' in s for s in ob['steps']) else 'ok')
