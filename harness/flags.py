"""C12, flags stream: who may change an emit flag.  A store with one process that declares two variables x, y of a
branch b (with random declared flags); then a random sequence of: a SCHEMA that arrives later (Store._apply_config of
{'b': {'x': {'_emit': v}}} or of the branch form {'b': {'_emit': v}} - what the port schema of a daughter or of a
generated agent does), an explicit Store.set_emit_value on a variable or on the branch, and an
Engine(store=..., store_schema=...) naming a variable or the branch.  Observed after every operation: the flags of x
and y.  Compared with Model/EmitFlags.v (Corr/Flagsc.v); the oracle restates explicit_flag_sticks on the
observations alone."""
import contextlib
import io

from harness.common import clist, cbool

IMPORTS = 'From Viv Require Import Model.EmitFlags Corr.Flagsc.'
CHECK_FN = 'check_case'
BAD_TERM = '(FlCase true true [Schema TX false] [])'
TARGETS = {'x': 'TX', 'y': 'TY', 'b': 'TBranch'}


def gen_case(rng):
    ops = []
    for _ in range(rng.randint(2, 8)):
        kind = rng.choice(['schema', 'schema', 'schema', 'set', 'store_schema'])
        ops.append([kind, rng.choice(['x', 'y', 'b']), rng.random() < 0.5])
    return {'kind': 'flags', 'ex': rng.random() < 0.5, 'ey': rng.random() < 0.5, 'ops': ops}


def corpus():
    return [
        # the former known finding K37: store_schema switches the branch off, the schema of a newcomer names x
        {'kind': 'flags', 'ex': True, 'ey': False, 'ops': [['store_schema', 'b', False], ['schema', 'x', True]]},
        # F94: a later store_schema overrides an earlier explicit request
        {'kind': 'flags', 'ex': True, 'ey': True,
         'ops': [['set', 'b', False], ['store_schema', 'x', True], ['schema', 'b', False]]},
    ]


def run_impl(c):
    from vivarium.core.engine import Engine
    from vivarium.core.process import Process
    from vivarium.core.store import generate_state

    class Decl(Process):
        def ports_schema(self):
            return {'b': {'x': {'_default': 0, '_emit': c['ex']}, 'y': {'_default': 1, '_emit': c['ey']}}}

        def next_update(self, timestep, states):
            return {}
    obs = []
    with contextlib.redirect_stdout(io.StringIO()):
        store = generate_state({'p': Decl()}, {'p': {'b': ('b',)}}, {})
        for kind, target, value in c['ops']:
            schema = {'b': {'_emit': value}} if target == 'b' else {'b': {target: {'_emit': value}}}
            if kind == 'schema':
                store._apply_config(schema)
            elif kind == 'set':
                store.set_emit_value(('b',) if target == 'b' else ('b', target), value)
            else:
                Engine(store=store, store_schema=schema, display_info=False, progress_bar=False)
            obs.append([bool(store.get_path(('b', 'x')).emit), bool(store.get_path(('b', 'y')).emit)])
    return {'obs': obs}


def oracle(c, ob, rng):
    msgs = []
    for var, col in (('x', 0), ('y', 1)):
        asked = None        # the value of the last explicit request that concerns the variable
        for (kind, target, value), row in zip(c['ops'], ob['obs']):
            if kind != 'schema' and target in (var, 'b'):
                asked = value
            if asked is not None and row[col] != asked:
                msgs.append(('%s was explicitly set to emit=%r and is %r after %r' % (var, asked, row[col], [kind, target, value]),
                             'explicit-flag-flipped'))
                break
    return msgs[:1]


def render(c, ob):
    ops = clist(['(%s %s %s)' % ({'schema': 'Schema', 'set': 'SetEmit', 'store_schema': 'StoreSchema'}[k], TARGETS[t], cbool(v))
                 for k, t, v in c['ops']])
    obs = clist(['(%s, %s)' % (cbool(a), cbool(b)) for a, b in ob['obs']])
    return '(FlCase %s %s %s %s)' % (cbool(c['ex']), cbool(c['ey']), ops, obs)


def nontrivial(c, ob):
    return any(k != 'schema' for k, _, _ in c['ops']) and any(k == 'schema' for k, _, _ in c['ops'])


def stat_key(c, ob):
    return 'flags/%s' % ('requests' if any(k != 'schema' for k, _, _ in c['ops']) else 'schemas only')
