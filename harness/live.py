"""Live-view stream (C07, C04): structural histories issued from INSIDE a running engine - by a director
process or a director step - while observers log, at every one of their invocations, the states dict they
were handed next to an independent projection of Engine.state.get_value() at that very moment.

Observers: a process and two steps with glob ports on both colonies (one step in the director's layer, one
in the layer after it), a probe process without any glob port wired to a fixed node that is deleted and
re-added under the same key within one tick (by two different directors), and a sensor process inside every
generated compartment wired upward through '..' to a reference node of the colony it currently lives in
(so that a _move must re-wire it).  A plain step that sorts last in the director's layer returns an ordinary
update, so that the structural update is not the last one applied in its layer.

The states handed out are judged by the oracle; the control flow that keeps the cached views current - where
Engine._send_updates / run_steps rebuild the views relative to the applications and invocations - is logged by
wrapping the engine's methods for the duration of a case and compared with Model/Views.v (Corr/Viewsc.v)."""
import contextlib
import io
import random

from harness import struct

LOG = []
CTX = {'eng': None, 'tick': 0}


def project(col):
    """{child: {'s': {'n': value}}} of one colony, read from the hierarchy itself"""
    node = CTX['eng'].state.get_path((col,))
    out = {}
    for k, ch in node.inner.items():
        s = ch.inner.get('s') if ch.inner else None
        if s is not None and 'n' in s.inner:
            out[k] = {'s': {'n': s.inner['n'].value}}
    return out


_KIT = None


def kit():
    global _KIT
    if _KIT:
        return _KIT
    from vivarium.core.process import Process, Step
    K = struct.kit()
    SUB = K['SUB']

    def observe(self, states):
        if CTX['eng'] is None:
            return              # the steps run once inside Engine.__init__, before the engine can be reached
        LOG.append([self.parameters['name'], CTX['tick'],
                    {c: states[c] for c in ('A', 'B')}, {c: project(c) for c in ('A', 'B')}])

    class ObsP(Process):
        defaults = {'name': 'obs_p'}

        def ports_schema(self):
            return {'A': {'*': SUB}, 'B': {'*': SUB}}

        def next_update(self, ts, states):
            observe(self, states)
            return {}

    class ObsS(Step):
        defaults = {'name': 'obs_s'}

        def ports_schema(self):
            return {'A': {'*': SUB}, 'B': {'*': SUB}}

        def next_update(self, ts, states):
            observe(self, states)
            return {}

    class Probe(Process):
        """no glob port: wired to the fixed node A/fix/s"""
        def ports_schema(self):
            return {'s': {'n': {'_default': 0}}}

        def next_update(self, ts, states):
            if CTX['eng'] is None:
                return {}
            node = CTX['eng'].state.get_path(('A', 'fix', 's', 'n'))
            LOG.append(['probe', CTX['tick'], states['s']['n'], node.value])
            return {}

    class Sensor(Process):
        """lives in a compartment; reads the reference node of the colony the compartment is in"""
        def ports_schema(self):
            return {'r': {'n': {'_default': 0}}}

        def next_update(self, ts, states):
            eng = CTX['eng']
            if eng is None:
                return {}
            here = [p for p, x in eng.process_paths.items() if x is self]
            if here:
                col = here[0][0]
                LOG.append(['sensor' + '/'.join(here[0]), CTX['tick'], states['r']['n'],
                            eng.state.get_path((col, 'ref', 's', 'n')).value])
            return {}

    class Plain(Step):
        def ports_schema(self):
            return {'misc': {'z': {'_default': 0, '_updater': 'set'}}}

        def next_update(self, ts, states):
            return {'misc': {'z': CTX['tick']}}

    def director(base):
        class Director(base):
            defaults = {'hist': [], 'refresh': [], 'second': False}

            def __init__(self, parameters=None):
                super().__init__(parameters)
                self.k = 0

            def ports_schema(self):
                return {'A': {'*': SUB}, 'B': {'*': SUB}}

            def next_update(self, ts, states):
                i = self.k
                self.k += 1
                hist = self.parameters['hist']
                second = self.parameters['second']
                upd = {}
                if not second and i < len(hist):
                    upd, seed = live_update(hist[i][0], hist[i][1])
                    if seed is not None:
                        random.seed(seed)
                if i in self.parameters['refresh']:
                    a = upd.setdefault('A', {})
                    if second:
                        a.setdefault('_add', []).append({'key': 'fix', 'state': {'s': {'n': 500 + i}}})
                    else:
                        a.setdefault('_delete', []).append('fix')
                return upd
        return Director
    _KIT = dict(ObsP=ObsP, ObsS=ObsS, Probe=Probe, Sensor=Sensor, Plain=Plain,
                DirP=director(Process), DirS=director(Step), Holder=K['Holder'])
    return _KIT


def live_update(col, ops):
    """struct.py_update with a sensor in every generated compartment"""
    orig = struct.compartment

    def comp(kind, ts=1):
        p, s, f, t = orig(kind, ts)
        p['sns'] = kit()['Sensor']()
        t['sns'] = {'r': ('..', 'ref', 's')}
        return p, s, f, t
    struct.compartment = comp
    try:
        return struct.py_update(col, ops)
    finally:
        struct.compartment = orig


TRACE = []


@contextlib.contextmanager
def instrument():
    """log the control skeleton of Engine._send_updates / run_steps (no change to /repo: the methods are wrapped
    for the duration of one case): SU / SU_END around _send_updates, RS at run_steps, I at every read of a
    cached view (Engine._process_state), A flag at every Engine.apply_update, B at every rebuild"""
    from vivarium.core.engine import Engine
    from vivarium.core.store import Store
    orig = (Engine._send_updates, Engine.run_steps, Engine._process_state, Engine.apply_update,
            Store.build_topology_views)
    depth = [0]

    def send_updates(self, update_tuples):
        TRACE.append(['SU'])
        try:
            return orig[0](self, update_tuples)
        finally:
            TRACE.append(['SU_END'])

    def run_steps(self):
        TRACE.append(['RS'])
        return orig[1](self)

    def process_state(self, path):
        TRACE.append(['I'])
        return orig[2](self, path)

    def apply_update(self, update, state):
        r = orig[3](self, update, state)
        TRACE.append(['A', bool(r)])
        return r

    def build_topology_views(self, *a, **k):
        if depth[0] == 0:
            TRACE.append(['B'])
        depth[0] += 1
        try:
            return orig[4](self, *a, **k)
        finally:
            depth[0] -= 1
    Engine._send_updates, Engine.run_steps, Engine._process_state = send_updates, run_steps, process_state
    Engine.apply_update, Store.build_topology_views = apply_update, build_topology_views
    try:
        yield
    finally:
        (Engine._send_updates, Engine.run_steps, Engine._process_state, Engine.apply_update,
         Store.build_topology_views) = orig


def segments(trace):
    """[(batch size, [steps per layer], [flags], [observed events])] per _send_updates call"""
    out, cur = [], None
    for e in trace:
        if e[0] == 'SU':
            cur = []
        elif e[0] == 'SU_END':
            if cur is not None:
                out.append(cur)
            cur = None
        elif cur is not None:
            cur.append(e)
    res = []
    for seg in out:
        k = next((i for i, e in enumerate(seg) if e[0] == 'RS'), len(seg))
        head, tail = seg[:k], seg[k + 1:]
        batch = sum(1 for e in head if e[0] == 'A')
        layers, n, seen_a = [], 0, False
        for e in tail:
            if e[0] == 'I':
                if seen_a:
                    layers.append(n)
                    n, seen_a = 0, False
                n += 1
            elif e[0] == 'A':
                seen_a = True
        if n:
            layers.append(n)
        flags = [e[1] for e in seg if e[0] == 'A']
        res.append([batch, layers, flags, [e for e in seg if e[0] != 'RS']])
    return res


def gen_case(rng):
    n = rng.randint(3, 8)
    hist = struct.gen_history(rng, n, allow_bad=False,
                              only_kinds=['generate', 'generate', 'add', 'delete', 'move', 'divide'])
    # divisions with inheriting daughters run into the known findings K3/K8 under a live scheduler: explicit only
    for e in hist:
        for op in e[1]:
            if op[0] == 'divide':
                for d in op[2]:
                    if d[1] is None:
                        d[1] = rng.randint(0, 3)
    return {'kind': 'live', 'hist': hist, 'director': rng.choice(['process', 'step']),
            'refresh': sorted(rng.sample(range(n + 1), rng.randint(0, 2))), 'extra': 2}


def run_impl(c):
    from vivarium.core.engine import Engine
    K = kit()
    del LOG[:]
    step_dir = c['director'] == 'step'
    cfg = {'hist': c['hist'], 'refresh': c['refresh']}
    processes = {'holder': K['Holder'](), 'obs_p': K['ObsP']({'name': 'obs_p'}), 'probe': K['Probe']()}
    steps, flow = {}, {}
    ab = {'A': ('A',), 'B': ('B',)}
    topology = {'holder': dict(ab), 'obs_p': dict(ab), 'probe': {'s': ('A', 'fix', 's')}}
    if step_dir:
        steps['a_dir'] = K['DirS'](dict(cfg, second=False))
        steps['b_dir'] = K['DirS'](dict(cfg, second=True))
        flow['a_dir'], flow['b_dir'] = [], []
        dep = [('a_dir',), ('b_dir',)]
    else:
        processes['dir_p'] = K['DirP'](dict(cfg, second=False))
        processes['dir_q'] = K['DirP'](dict(cfg, second=True))
        dep = []
    for name in (['a_dir', 'b_dir'] if step_dir else ['dir_p', 'dir_q']):
        topology[name] = dict(ab)
    steps['obs_s0'] = K['ObsS']({'name': 'obs_s0'})       # in the first layer
    flow['obs_s0'] = []
    steps['obs_s1'] = K['ObsS']({'name': 'obs_s1'})       # after the director steps / after obs_s0
    flow['obs_s1'] = dep or [('obs_s0',)]
    steps['z_plain'] = K['Plain']()                        # sorts last in the first layer
    flow['z_plain'] = []
    topology['obs_s0'], topology['obs_s1'] = dict(ab), dict(ab)
    topology['z_plain'] = {'misc': ('misc',)}
    init = {'A': {'ref': {'s': {'n': 100}}, 'fix': {'s': {'n': 5}}}, 'B': {'ref': {'s': {'n': 200}}}}
    out = {'status': 'ok'}
    try:
        del TRACE[:]
        with contextlib.redirect_stdout(io.StringIO()), instrument():
            CTX['tick'] = -1
            eng = Engine(processes=processes, steps=steps, flow=flow, topology=topology, initial_state=init,
                         display_info=False)
            CTX['eng'] = eng
            for tick in range(len(c['hist']) + c['extra']):
                CTX['tick'] = tick
                eng.update(1)
            eng.end()
    except Exception as e:
        out['status'] = 'raised:%s:%s' % (type(e).__name__, str(e)[:160])
    finally:
        CTX['eng'] = None
    out['log'] = [list(x) for x in LOG]
    out['sends'] = segments(TRACE)
    return out


IMPORTS = 'From Viv Require Import Model.Views Corr.Viewsc.'
CHECK_FN = 'check_case_all'
BAD_TERM = '[VSend 0 [] [] [SBuild]]'


def render(c, ob):
    """one term per case: the list of its _send_updates calls"""
    from harness.common import cnat, clist, cbool

    def ev(e):
        return {'I': 'SInvoke', 'B': 'SBuild'}.get(e[0]) or '(SApply %s)' % cbool(e[1])
    return clist(['(VSend %s %s %s %s)' % (cnat(b), clist([cnat(k) for k in ls]), clist([cbool(f) for f in fl]),
                                          clist([ev(e) for e in obs])) for b, ls, fl, obs in ob['sends']])


def oracle(c, ob, rng):
    for who, tick, seen, actual in ob['log']:
        if seen != actual:
            return [('tick %d: %s is handed %r while the hierarchy holds %r' % (tick, who, seen, actual), 'stale-view')]
    return []


def nontrivial(c, ob):
    return len(ob['log']) >= 6


def stat_key(c, ob):
    return 'live/%s/%s' % (c['director'], ob['status'].split(':')[0])
