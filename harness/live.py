"""Live-view stream (C07, C04): structural histories issued from INSIDE a running engine - by a director
process or a director step - while observers log, at every one of their invocations, the states dict they
were handed next to an independent projection of Engine.state.get_value() at that very moment.

Observers: a process and two steps with glob ports on both colonies (one step in the director's layer, one
in the layer after it), a probe process without any glob port wired to a fixed node that is deleted and
re-added under the same key within one tick (by two different directors), and a sensor process inside every
generated compartment wired upward through '..' to a reference node of the colony it currently lives in
(so that a _move must re-wire it).  A plain step that sorts last in the director's layer returns an ordinary
update, so that the structural update is not the last one applied in its layer.

Decided by the oracle only (no Coq side): see DESIGN.md section 5, C07."""
import contextlib
import io
import random

from harness import struct

LOG = []
CTX = {'eng': None, 'tick': 0}


def project(col):
    """{child: {'s': {'n': value}}} of one colony, read from the hierarchy itself"""
    node = CTX['eng'].state.get_path((col,))
    out = {}
    for k, ch in node.inner.items():
        s = ch.inner.get('s') if ch.inner else None
        if s is not None and 'n' in s.inner:
            out[k] = {'s': {'n': s.inner['n'].value}}
    return out


_KIT = None


def kit():
    global _KIT
    if _KIT:
        return _KIT
    from vivarium.core.process import Process, Step
    K = struct.kit()
    SUB = K['SUB']

    def observe(self, states):
        if CTX['eng'] is None:
            return              # the steps run once inside Engine.__init__, before the engine can be reached
        LOG.append([self.parameters['name'], CTX['tick'],
                    {c: states[c] for c in ('A', 'B')}, {c: project(c) for c in ('A', 'B')}])

    class ObsP(Process):
        defaults = {'name': 'obs_p'}

        def ports_schema(self):
            return {'A': {'*': SUB}, 'B': {'*': SUB}}

        def next_update(self, ts, states):
            observe(self, states)
            return {}

    class ObsS(Step):
        defaults = {'name': 'obs_s'}

        def ports_schema(self):
            return {'A': {'*': SUB}, 'B': {'*': SUB}}

        def next_update(self, ts, states):
            observe(self, states)
            return {}

    class Probe(Process):
        """no glob port: wired to the fixed node A/fix/s"""
        def ports_schema(self):
            return {'s': {'n': {'_default': 0}}}

        def next_update(self, ts, states):
            if CTX['eng'] is None:
                return {}
            node = CTX['eng'].state.get_path(('A', 'fix', 's', 'n'))
            LOG.append(['probe', CTX['tick'], states['s']['n'], node.value])
            return {}

    class Sensor(Process):
        """lives in a compartment; reads the reference node of the colony the compartment is in"""
        def ports_schema(self):
            return {'r': {'n': {'_default': 0}}}

        def next_update(self, ts, states):
            eng = CTX['eng']
            if eng is None:
                return {}
            here = [p for p, x in eng.process_paths.items() if x is self]
            if here:
                col = here[0][0]
                LOG.append(['sensor' + '/'.join(here[0]), CTX['tick'], states['r']['n'],
                            eng.state.get_path((col, 'ref', 's', 'n')).value])
            return {}

    class Plain(Step):
        def ports_schema(self):
            return {'misc': {'z': {'_default': 0, '_updater': 'set'}}}

        def next_update(self, ts, states):
            return {'misc': {'z': CTX['tick']}}

    def director(base):
        class Director(base):
            defaults = {'hist': [], 'refresh': [], 'second': False}

            def __init__(self, parameters=None):
                super().__init__(parameters)
                self.k = 0

            def ports_schema(self):
                return {'A': {'*': SUB}, 'B': {'*': SUB}}

            def next_update(self, ts, states):
                i = self.k
                self.k += 1
                hist = self.parameters['hist']
                second = self.parameters['second']
                upd = {}
                if not second and i < len(hist):
                    upd, seed = live_update(hist[i][0], hist[i][1])
                    if seed is not None:
                        random.seed(seed)
                if i in self.parameters['refresh']:
                    a = upd.setdefault('A', {})
                    if second:
                        a.setdefault('_add', []).append({'key': 'fix', 'state': {'s': {'n': 500 + i}}})
                    else:
                        a.setdefault('_delete', []).append('fix')
                return upd
        return Director
    _KIT = dict(ObsP=ObsP, ObsS=ObsS, Probe=Probe, Sensor=Sensor, Plain=Plain,
                DirP=director(Process), DirS=director(Step), Holder=K['Holder'])
    return _KIT


def live_update(col, ops):
    """struct.py_update with a sensor in every generated compartment"""
    orig = struct.compartment

    def comp(kind, ts=1):
        p, s, f, t = orig(kind, ts)
        p['sns'] = kit()['Sensor']()
        t['sns'] = {'r': ('..', 'ref', 's')}
        return p, s, f, t
    struct.compartment = comp
    try:
        return struct.py_update(col, ops)
    finally:
        struct.compartment = orig


def gen_case(rng):
    n = rng.randint(3, 8)
    hist = struct.gen_history(rng, n, allow_bad=False,
                              only_kinds=['generate', 'generate', 'add', 'delete', 'move', 'divide'])
    # divisions with inheriting daughters run into the known findings K3/K8 under a live scheduler: explicit only
    for e in hist:
        for op in e[1]:
            if op[0] == 'divide':
                for d in op[2]:
                    if d[1] is None:
                        d[1] = rng.randint(0, 3)
    return {'kind': 'live', 'hist': hist, 'director': rng.choice(['process', 'step']),
            'refresh': sorted(rng.sample(range(n + 1), rng.randint(0, 2))), 'extra': 2}


def run_impl(c):
    from vivarium.core.engine import Engine
    K = kit()
    del LOG[:]
    step_dir = c['director'] == 'step'
    cfg = {'hist': c['hist'], 'refresh': c['refresh']}
    processes = {'holder': K['Holder'](), 'obs_p': K['ObsP']({'name': 'obs_p'}), 'probe': K['Probe']()}
    steps, flow = {}, {}
    ab = {'A': ('A',), 'B': ('B',)}
    topology = {'holder': dict(ab), 'obs_p': dict(ab), 'probe': {'s': ('A', 'fix', 's')}}
    if step_dir:
        steps['a_dir'] = K['DirS'](dict(cfg, second=False))
        steps['b_dir'] = K['DirS'](dict(cfg, second=True))
        flow['a_dir'], flow['b_dir'] = [], []
        dep = [('a_dir',), ('b_dir',)]
    else:
        processes['dir_p'] = K['DirP'](dict(cfg, second=False))
        processes['dir_q'] = K['DirP'](dict(cfg, second=True))
        dep = []
    for name in (['a_dir', 'b_dir'] if step_dir else ['dir_p', 'dir_q']):
        topology[name] = dict(ab)
    steps['obs_s0'] = K['ObsS']({'name': 'obs_s0'})       # in the first layer
    flow['obs_s0'] = []
    steps['obs_s1'] = K['ObsS']({'name': 'obs_s1'})       # after the director steps / after obs_s0
    flow['obs_s1'] = dep or [('obs_s0',)]
    steps['z_plain'] = K['Plain']()                        # sorts last in the first layer
    flow['z_plain'] = []
    topology['obs_s0'], topology['obs_s1'] = dict(ab), dict(ab)
    topology['z_plain'] = {'misc': ('misc',)}
    init = {'A': {'ref': {'s': {'n': 100}}, 'fix': {'s': {'n': 5}}}, 'B': {'ref': {'s': {'n': 200}}}}
    out = {'status': 'ok'}
    try:
        with contextlib.redirect_stdout(io.StringIO()):
            CTX['tick'] = -1
            eng = Engine(processes=processes, steps=steps, flow=flow, topology=topology, initial_state=init,
                         display_info=False)
            CTX['eng'] = eng
            for tick in range(len(c['hist']) + c['extra']):
                CTX['tick'] = tick
                eng.update(1)
            eng.end()
    except Exception as e:
        out['status'] = 'raised:%s:%s' % (type(e).__name__, str(e)[:160])
    finally:
        CTX['eng'] = None
    out['log'] = [list(x) for x in LOG]
    return out


def oracle(c, ob, rng):
    for who, tick, seen, actual in ob['log']:
        if seen != actual:
            return [('tick %d: %s is handed %r while the hierarchy holds %r' % (tick, who, seen, actual), 'stale-view')]
    return []


def nontrivial(c, ob):
    return len(ob['log']) >= 6


def stat_key(c, ob):
    return 'live/%s/%s' % (c['director'], ob['status'].split(':')[0])
