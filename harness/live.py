"""Live-view stream (C07, C04): structural histories issued from INSIDE a running engine - by a director
process or a director step - while observers log, at every one of their invocations, the states dict they
were handed next to an independent projection of Engine.state.get_value() at that very moment.

Observers: a process and two steps with glob ports on both colonies (one step in the director's layer, one
in the layer after it), a probe process without any glob port wired to a fixed node that is deleted and
re-added under the same key within one tick (by two different directors), and a sensor process inside every
generated compartment wired upward through '..' to a reference node of the colony it currently lives in
(so that a _move must re-wire it).  A plain step that sorts last in the director's layer returns an ordinary
update, so that the structural update is not the last one applied in its layer.

The states handed out are judged by the oracle; the control flow that keeps the cached views current - where
Engine._send_updates / run_steps rebuild the views relative to the applications and invocations - is logged by
wrapping the engine's methods for the duration of a case and compared with Model/Views.v (Corr/Viewsc.v)."""
import contextlib
import io
import random

from harness import struct

LOG = []
CTX = {'eng': None, 'tick': 0}


def project(col, with_e=False):
    """{child: {'s': {'n': value}}} of one colony, read from the hierarchy itself (with_e: also s.e, the
    sub-variable only the observing process declares; a child that lacks it shows None there)"""
    node = CTX['eng'].state.get_path((col,))
    out = {}
    for k, ch in node.inner.items():
        s = ch.inner.get('s') if ch.inner else None
        if s is not None and 'n' in s.inner:
            out[k] = {'s': {'n': s.inner['n'].value}}
            if with_e:
                out[k]['s']['e'] = s.inner['e'].value if 'e' in s.inner else None
    return out


_KIT = None


def kit():
    global _KIT
    if _KIT:
        return _KIT
    from vivarium.core.process import Process, Step
    K = struct.kit()
    SUB = K['SUB']

    def observe(self, states):
        if CTX['eng'] is None:
            return              # the steps run once inside Engine.__init__, before the engine can be reached
        own = self.parameters['name'] == 'obs_p'
        LOG.append([self.parameters['name'], CTX['tick'],
                    {c: states[c] for c in ('A', 'B')}, {c: project(c, own) for c in ('A', 'B')}])

    # the observing process declares, for every child of the colonies, a sub-variable of its own (s.e) that no
    # process inside a compartment declares: it must exist in every child, however the child was created
    SUBE = {'s': {'n': dict(SUB['s']['n']), 'e': {'_default': 3}}}

    class ObsP(Process):
        defaults = {'name': 'obs_p'}

        def ports_schema(self):
            return {'A': {'*': SUBE}, 'B': {'*': SUBE}}

        def next_update(self, ts, states):
            observe(self, states)
            return {}

    class ObsS(Step):
        defaults = {'name': 'obs_s'}

        def ports_schema(self):
            return {'A': {'*': SUB}, 'B': {'*': SUB}}

        def next_update(self, ts, states):
            observe(self, states)
            return {}

    class Probe(Process):
        """no glob port: wired to the fixed node A/fix/s"""
        def ports_schema(self):
            # (also declares the counter the sensors write to)
            return {'s': {'n': {'_default': 0}}, 't': {'count': {'_default': 0}}}

        def next_update(self, ts, states):
            if CTX['eng'] is None:
                return {}
            node = CTX['eng'].state.get_path(('A', 'fix', 's', 'n'))
            LOG.append(['probe', CTX['tick'], states['s']['n'], node.value])
            return {}

    class Sensor(Process):
        """lives in a compartment; reads the reference node of the colony the compartment is in"""
        defaults = {'timestep': 1}

        def ports_schema(self):
            return {'r': {'n': {'_default': 0}}, 't': {'count': {'_default': 0}}}

        def next_update(self, ts, states):
            eng = CTX['eng']
            if eng is None:
                return {}
            here = [p for p, x in eng.process_paths.items() if x is self]
            if here:
                col = here[0][0]
                LOG.append(['sensor' + '/'.join(here[0]), CTX['tick'], states['r']['n'],
                            eng.state.get_path((col, 'ref', 's', 'n')).value])
            # every invocation adds 1 to a counter OUTSIDE its compartment; the update falls due `ts` later and
            # must be dropped if the compartment is gone by then
            INVOKED.append([id(self), eng.global_time, ts])
            return {'t': {'count': 1}}

    class Drv2(Step):
        """a second legacy deriver (no flow entry) listed after `drv`: h := d + 1, so it must run after drv's
        update of the same phase has been applied"""
        def ports_schema(self):
            return {'s': {'d': {'_default': 0, '_updater': 'set'}, 'h': {'_default': 1, '_updater': 'set'}}}

        def next_update(self, ts, states):
            return {'s': {'h': states['s']['d'] + 1}}

    class ObsIn(Process):
        """lives INSIDE a generated compartment and watches the whole colony through a glob port that declares a
        sub-variable of its own (s.e2) - at construction this pushes e2 into every child of the colony"""
        def ports_schema(self):
            return {'col': {'*': {'s': {'n': dict(SUB['s']['n']), 'e2': {'_default': 9}}}}}

        def next_update(self, ts, states):
            return {}

    class Plain(Step):
        def ports_schema(self):
            return {'misc': {'z': {'_default': 0, '_updater': 'set'}}}

        def next_update(self, ts, states):
            return {'misc': {'z': CTX['tick']}}

    def director(base):
        class Director(base):
            defaults = {'hist': [], 'refresh': [], 'second': False}

            def __init__(self, parameters=None):
                super().__init__(parameters)
                self.k = 0

            def ports_schema(self):
                return {'A': {'*': SUB}, 'B': {'*': SUB}}

            def next_update(self, ts, states):
                i = self.k
                self.k += 1
                if not self.parameters['second']:
                    CTX['tick'] = i
                hist = self.parameters['hist']
                second = self.parameters['second']
                upd = {}
                if not second and i < len(hist):
                    upd, seed = live_update(hist[i][0], hist[i][1])
                    if seed is not None:
                        random.seed(seed)
                if i in self.parameters['refresh']:
                    a = upd.setdefault('A', {})
                    if second:
                        a.setdefault('_add', []).append({'key': 'fix', 'state': {'s': {'n': 500 + i}}})
                    else:
                        a.setdefault('_delete', []).append('fix')
                return upd
        return Director
    _KIT = dict(ObsP=ObsP, ObsS=ObsS, Probe=Probe, Sensor=Sensor, Plain=Plain, Drv2=Drv2, ObsIn=ObsIn,
                DirP=director(Process), DirS=director(Step), Holder=K['Holder'])
    return _KIT


def live_update(col, ops):
    """struct.py_update with a sensor in every generated compartment"""
    orig = struct.compartment

    def comp(kind, ts=1):
        p, s, f, t = orig(kind, ts)
        p['sns'] = kit()['Sensor']({'timestep': STS[len(INVOKED_TS) % len(STS)] if SLOW[0] else 1})
        INVOKED_TS.append(1)
        t['sns'] = {'r': ('..', 'ref', 's'), 't': ('..', '..', 'tally')}
        if CTX.get('inner_obs'):
            p['iobs'] = kit()['ObsIn']()
            t['iobs'] = {'col': ('..',)}
        if 'drv' in p:
            # (struct.compartment lists the legacy deriver in the processes dict; its follower goes right after it)
            p['drv2'] = kit()['Drv2']()
            t['drv2'] = {'s': ('s',)}
        return p, s, f, t
    struct.compartment = comp
    try:
        return struct.py_update(col, ops)
    finally:
        struct.compartment = orig


TRACE = []
PHASES = []
RELS = []
INVOKED = []        # [sensor id, time of the invocation, timestep]
INVOKED_TS = []
STS = [1, 3, 2, 1, 2, 3, 1]
SLOW = [False]
KEEP = []           # every process object seen during a case (so that no id() is reused within the case)
BATCHES = []        # per batch: [global time, ids of the registered processes after it]


@contextlib.contextmanager
def instrument():
    """log the control skeleton of Engine._send_updates / run_steps (no change to /repo: the methods are wrapped
    for the duration of one case): SU / SU_END around _send_updates, RS at run_steps, I at every read of a
    cached view (Engine._process_state), A flag at every Engine.apply_update, B at every rebuild"""
    from vivarium.core.engine import Engine
    from vivarium.core.store import Store
    orig = (Engine._send_updates, Engine.run_steps, Engine._process_state, Engine.apply_update,
            Store.build_topology_views)
    depth = [0]
    in_send = [0]

    def send_updates(self, *args, **kwargs):
        TRACE.append(['SU'])
        in_send[0] += 1
        try:
            return orig[0](self, *args, **kwargs)
        finally:
            in_send[0] -= 1
            TRACE.append(['SU_END'])
            KEEP.extend(self.process_paths.values())
            BATCHES.append([self.global_time, {id(p): '/'.join(map(str, path)) for path, p in self.process_paths.items()}])
            # after the step phase every kit step's output is what it computes from the CURRENT values of its
            # compartment (it ran once, saw the committed state and the updates of the steps before it)
            K = struct.kit()
            # (only when the structure and the counters are changed by PROCESSES: a director step changes them in
            # the middle of the phase, after earlier steps of the same phase have legitimately used the old values)
            for path, x in (list(self._step_paths.items()) if CTX.get('director') == 'process' else []):
                try:
                    sv = self.state.get_path(path[:-1] + ('s',)).get_value()
                except Exception:
                    continue
                want = None
                if isinstance(x, K['Drv']):
                    want = ('d', sv['n'] * 2)
                elif isinstance(x, K['Fst']):
                    want = ('f', sv['n'] * 3)
                elif isinstance(x, K['Fst2']):
                    want = ('g', sv['f'] + 1)
                elif isinstance(x, kit()['Drv2']):
                    want = ('h', sv['d'] + 1)
                if want and sv.get(want[0]) != want[1]:
                    RELS.append('after the step phase at t=%s, %s holds %s = %r; from the current values the step '
                                'computes %r' % (self.global_time, '/'.join(path[:-1]), want[0], sv.get(want[0]), want[1]))

    def run_steps(self, *args, **kwargs):
        TRACE.append(['RS'])
        # exactly-once per phase for the kit's steps (they log their calls in struct.CALLS): a step that exists when
        # the phase begins and still exists when it ends ran once; one created during the phase did not run
        # (a step moved during the phase counts as removed under its old path and created under the new one)
        before = {(p, id(x)) for p, x in self._step_paths.items()}
        n0 = len(struct.CALLS)
        r = orig[1](self, *args, **kwargs)
        calls = [cid for kind, cid in struct.CALLS[n0:] if kind in 'DFG']
        K = struct.kit()
        kit_steps = (K['Drv'], K['Fst'], K['Fst2'])
        for path, x in self._step_paths.items():
            cid = id(x)
            if (path, cid) not in before and cid in {i for _, i in before}:
                continue          # moved during this phase: it may or may not have had its turn under the old path
            want = 1 if (path, cid) in before else 0
            if isinstance(x, kit_steps) and calls.count(cid) != want:
                PHASES.append('step %s ran %d time(s) in a phase at whose start it %s' % (
                    '/'.join(path), calls.count(cid), 'existed' if want else 'did not exist there'))
        if not in_send[0]:
            # the step phase of Engine.__init__ / a direct call: processes created by it exist from this time on
            KEEP.extend(self.process_paths.values())
            BATCHES.append([self.global_time, {id(p): '/'.join(map(str, path)) for path, p in self.process_paths.items()}])
        return r

    def process_state(self, *args, **kwargs):
        TRACE.append(['I'])
        return orig[2](self, *args, **kwargs)

    def apply_update(self, *args, **kwargs):
        r = orig[3](self, *args, **kwargs)
        TRACE.append(['A', bool(r)])
        return r

    def build_topology_views(self, *a, **k):
        if depth[0] == 0:
            TRACE.append(['B'])
        depth[0] += 1
        try:
            return orig[4](self, *a, **k)
        finally:
            depth[0] -= 1
    Engine._send_updates, Engine.run_steps, Engine._process_state = send_updates, run_steps, process_state
    Engine.apply_update, Store.build_topology_views = apply_update, build_topology_views
    try:
        yield
    finally:
        (Engine._send_updates, Engine.run_steps, Engine._process_state, Engine.apply_update,
         Store.build_topology_views) = orig


def segments(trace):
    """[(batch size, [steps per layer], [flags], [observed events])] per _send_updates call"""
    out, cur = [], None
    for e in trace:
        if e[0] == 'SU':
            cur = []
        elif e[0] == 'SU_END':
            if cur is not None:
                out.append(cur)
            cur = None
        elif cur is not None:
            cur.append(e)
    res = []
    for seg in out:
        k = next((i for i, e in enumerate(seg) if e[0] == 'RS'), len(seg))
        head, tail = seg[:k], seg[k + 1:]
        batch = sum(1 for e in head if e[0] == 'A')
        layers, n, seen_a = [], 0, False
        for e in tail:
            if e[0] == 'I':
                if seen_a:
                    layers.append(n)
                    n, seen_a = 0, False
                n += 1
            elif e[0] == 'A':
                seen_a = True
        if n:
            layers.append(n)
        flags = [e[1] for e in seg if e[0] == 'A']
        res.append([batch, layers, flags, [e for e in seg if e[0] != 'RS']])
    return res


def gen_case(rng):
    n = rng.randint(3, 8)
    # slow: the sensors get timesteps 1-3, so that their updates are in flight while the structure changes around
    # them; such histories have no _move (moving a compartment with an update in flight is known finding K10)
    slow = rng.random() < 0.5
    hist = struct.gen_history(rng, n, allow_bad=False, only_kinds=(
        ['generate', 'generate', 'add', 'delete', 'delete', 'divide'] if slow else
        ['generate', 'generate', 'add', 'delete', 'move', 'divide']))
    # divisions with inheriting daughters run into the known findings K3/K8 under a live scheduler: explicit only
    for e in hist:
        for op in e[1]:
            if op[0] == 'divide':
                for d in op[2]:
                    if d[1] is None:
                        d[1] = rng.randint(0, 3)
    return {'kind': 'live', 'hist': hist, 'director': rng.choice(['process', 'step']),
            'refresh': sorted(rng.sample(range(n + 1), rng.randint(0, 2))), 'extra': 2,
            # how the engine is built: from its parts, or from a generated store with the initial children
            # handed to Engine(store=..., initial_state=...)
            'slow': slow, 'entry': rng.choice(['parts', 'parts', 'store']),
            'more': {k: {'s': {'n': rng.randint(1, 9)}} for k in rng.sample(['i1', 'i2', 'i3'], rng.randint(1, 3))}}


def corpus():
    """directed cases: a compartment with steps deleted and generated again under the SAME key; chained derivers
    in a compartment created at run time"""
    base = {'kind': 'live', 'director': 'process', 'refresh': [], 'extra': 3, 'slow': False, 'entry': 'parts', 'more': {}}
    return [
        dict(base, hist=[['A', [['generate', 'c01', 3, {'s': {'n': 5}}]]], ['A', [['delete', 'c01']]],
                         ['A', [['generate', 'c01', 3, {'s': {'n': 50}}]]], ['B', [['generate', 'c02', 1, {'s': {'n': 2}}]]]]),
        dict(base, hist=[['B', [['generate', 'c01', 1, {'s': {'n': 4}}]]], ['B', [['generate', 'c02', 3, {'s': {'n': 7}}]]],
                         ['B', [['divide', 'c02', [['c03', 1, {}], ['c04', 3, {}]], 11]]]]),
    ]


def corpus_k11():
    """known finding K11: compartments generated at run time hold a process whose glob port over the colony declares
    a sub-variable (s.e2) the existing children lack"""
    return [{'kind': 'live', 'director': 'process', 'refresh': [], 'extra': 2, 'slow': False, 'entry': 'parts', 'more': {},
             'inner_obs': True,
             'hist': [['A', [['generate', 'c01', 1, {'s': {'n': 5}}]]], ['A', [['generate', 'c02', 0, {}]]]]}]


def corpus_intervals():
    """a slow sensor (timestep 3) deleted in mid-interval and generated again under the same key before the old
    interval would have ended"""
    base = {'kind': 'live', 'director': 'process', 'refresh': [], 'extra': 6, 'slow': True, 'entry': 'parts', 'more': {}}
    return [
        dict(base, hist=[['A', [['generate', 'c01', 1, {'s': {'n': 5}}]]], ['A', [['generate', 'c02', 1, {'s': {'n': 5}}]]],
                         ['A', [['delete', 'c02']]], ['A', [['generate', 'c02', 1, {'s': {'n': 6}}]]]]),
        dict(base, hist=[['B', [['generate', 'c01', 3, {}]]], ['B', [['generate', 'c02', 3, {}]]], ['B', [['delete', 'c02']]],
                         ['B', [['generate', 'c03', 0, {}], ['generate', 'c02', 3, {}]]]]),
    ]


def run_impl(c):
    from vivarium.core.engine import Engine
    K = kit()
    del LOG[:]
    step_dir = c['director'] == 'step'
    CTX['director'] = c['director']
    CTX['inner_obs'] = bool(c.get('inner_obs'))
    cfg = {'hist': c['hist'], 'refresh': c['refresh']}
    processes = {'holder': K['Holder'](), 'obs_p': K['ObsP']({'name': 'obs_p'}), 'probe': K['Probe']()}
    steps, flow = {}, {}
    ab = {'A': ('A',), 'B': ('B',)}
    topology = {'holder': dict(ab), 'obs_p': dict(ab), 'probe': {'s': ('A', 'fix', 's'), 't': ('tally',)}}
    if step_dir:
        steps['a_dir'] = K['DirS'](dict(cfg, second=False))
        steps['b_dir'] = K['DirS'](dict(cfg, second=True))
        flow['a_dir'], flow['b_dir'] = [], []
        dep = [('a_dir',), ('b_dir',)]
    else:
        processes['dir_p'] = K['DirP'](dict(cfg, second=False))
        processes['dir_q'] = K['DirP'](dict(cfg, second=True))
        dep = []
    for name in (['a_dir', 'b_dir'] if step_dir else ['dir_p', 'dir_q']):
        topology[name] = dict(ab)
    steps['obs_s0'] = K['ObsS']({'name': 'obs_s0'})       # in the first layer
    flow['obs_s0'] = []
    steps['obs_s1'] = K['ObsS']({'name': 'obs_s1'})       # after the director steps / after obs_s0
    flow['obs_s1'] = dep or [('obs_s0',)]
    steps['z_plain'] = K['Plain']()                        # sorts last in the first layer
    flow['z_plain'] = []
    topology['obs_s0'], topology['obs_s1'] = dict(ab), dict(ab)
    topology['z_plain'] = {'misc': ('misc',)}
    init = {'A': {'ref': {'s': {'n': 100}}, 'fix': {'s': {'n': 5}}}, 'B': {'ref': {'s': {'n': 200}}}}
    out = {'status': 'ok'}
    try:
        del TRACE[:]
        del PHASES[:]
        del RELS[:]
        del INVOKED[:]
        del INVOKED_TS[:]
        del BATCHES[:]
        del KEEP[:]
        SLOW[0] = bool(c.get('slow'))
        del struct.CALLS[:]
        with contextlib.redirect_stdout(io.StringIO()), instrument():
            CTX['tick'] = -1
            if c.get('entry') == 'store':
                from vivarium.core.store import generate_state
                store = generate_state(processes, topology, init, steps, flow)
                eng = Engine(store=store, initial_state={'B': dict(c['more'])}, display_info=False)
            else:
                eng = Engine(processes=processes, steps=steps, flow=flow, topology=topology, initial_state=init,
                             display_info=False)
            CTX['eng'] = eng
            nticks = len(c['hist']) + c['extra']
            # one non-forced call: the updates of the slower sensors stay in flight while the directors (timestep 1)
            # change the structure around them
            eng.run_for(nticks)
            out['tally'] = [eng.state.get_path(('tally', 'count')).value,
                            [list(x) for x in INVOKED], [[t, sorted(l.items())] for t, l in BATCHES]]
            eng.end()
    except Exception as e:
        out['status'] = 'raised:%s:%s%s' % (type(e).__name__, '[still pending] ' if 'still pending' in str(e) else '',
                                            str(e)[:160])
    finally:
        CTX['eng'] = None
    out['log'] = [list(x) for x in LOG]
    out['sends'] = segments(TRACE)
    out['phases'] = list(PHASES)
    out['rels'] = list(RELS)
    return out


IMPORTS = 'From Viv Require Import Model.Views Corr.Viewsc.'
CHECK_FN = 'check_case_all'
BAD_TERM = '[VSend 0 [] [] [SBuild]]'


def render(c, ob):
    """one term per case: the list of its _send_updates calls"""
    from harness.common import cnat, clist, cbool

    def ev(e):
        return {'I': 'SInvoke', 'B': 'SBuild'}.get(e[0]) or '(SApply %s)' % cbool(e[1])
    return '(%s : list vcase)' % clist([
        '(VSend %s %s %s %s)' % (cnat(b), clist([cnat(k) for k in ls]), clist([cbool(f) for f in fl]),
                                 clist([ev(e) for e in obs])) for b, ls, fl, obs in ob['sends']])


def oracle_raised(c, ob, rng):
    """C10: the engine must survive the history"""
    if ob['status'].startswith('raised'):
        if c.get('inner_obs') and 'is not a valid path' in ob['status'] and "'e2'" in ob['status']:
            return [('a process generated at run time declares a new sub-variable under a glob port over a store '
                     'outside its compartment: ' + ob['status'], 'runtime-glob-subvariable')]
        moved = any(op[0] == 'move' for e in c['hist'] for op in e[1])
        if 'still pending' in ob['status'] and moved and c.get('slow'):
            return [('moving a compartment with an update in flight: ' + ob['status'], 'move-in-flight')]
        return [('the engine raised: ' + ob['status'], 'engine-raised')]
    return []


def oracle_phases(c, ob, rng):
    """C10 / C05: every step that exists when a phase begins runs exactly once in it"""
    if ob.get('phases'):
        return [(ob['phases'][0], 'step-not-once-per-phase')]
    return []


def oracle_rels(c, ob, rng):
    """C05 / C04: after a step phase every step's output is what it computes from the current state"""
    if ob.get('rels'):
        return [(ob['rels'][0], 'step-saw-stale-state')]
    return []


def oracle_intervals(c, ob, rng):
    """C02: a process that enters the simulation at time T is first invoked at T, and every further invocation starts
    where the previous interval ended (the timestep it is handed is the length of the interval it accounts for)"""
    if 'tally' not in ob:
        return []
    got, invoked, batches = ob['tally']
    created = {}
    for t, ids in batches:
        for sid, _ in ids:
            created.setdefault(sid, t)
    last = {}
    for sid, t, ts in invoked:
        if sid not in last:
            born = created.get(sid)
            if born is not None and abs(t - born) > 1e-9:
                return [('a process created at time %s is first invoked at time %s (timestep %s)' % (born, t, ts),
                         'first-interval-start')]
        else:
            t0, ts0 = last[sid]
            if abs(t0 + ts0 - t) > 1e-9:
                return [('a process invoked at %s for %s is next invoked at %s' % (t0, ts0, t), 'interval-gap')]
        last[sid] = (t, ts)
    return []


def oracle_inflight(c, ob, rng, report_moved=True):
    """C01: the update of an invocation is applied exactly once when it falls due if its process is still live
    then, and never if the process has been deleted before (updates in flight of deleted processes are dropped).
    An update in flight while its compartment is MOVED is dropped by the engine although the process lives on
    (K10): counted separately and reported under its own signature (not at all with report_moved=False, for the
    property that is only about batches)"""
    if 'tally' not in ob:
        return []
    got, invoked, batches = ob['tally']
    batches = [[t, dict((i, p) for i, p in l)] for t, l in batches]
    times = [t for t, _ in batches]
    moved_at = {}                           # sid -> times of the batches that changed its path
    for k in range(1, len(batches)):
        for sid, path in batches[k][1].items():
            if sid in batches[k - 1][1] and batches[k - 1][1][sid] != path:
                moved_at.setdefault(sid, []).append(batches[k][0])
    sure = dropped = 0
    for sid, t, ts in invoked:
        due = t + ts
        ks = [k for k, bt in enumerate(times) if abs(bt - due) < 1e-9]
        if not ks:
            continue                        # still in flight at the end of the run
        k = ks[0]
        before = k == 0 or sid in batches[k - 1][1]
        if before:
            # registered when the update fell due: it is applied, even if another update of the same batch deletes
            # the process (all updates of a batch were computed from the same committed state)
            if any(t + 1e-9 < m < due - 1e-9 for m in moved_at.get(sid, [])):
                dropped += 1                # moved while in flight
            else:
                sure += 1
    if got == sure and dropped and report_moved:
        return [('%d update(s) in flight when their compartment was moved were never applied (counter %d, %d fell due '
                 'while their process was live)' % (dropped, got, sure + dropped), 'move-in-flight')]
    if not (sure <= got <= sure + dropped):
        return [('the counter outside the compartments holds %d; %d sensor updates fell due while their process was '
                 'live (+%d in flight when their compartment was moved)' % (got, sure, dropped), 'inflight-update')]
    return []


def oracle(c, ob, rng):
    """C07 / C04: what is handed out is the current hierarchy"""
    for who, tick, seen, actual in ob['log']:
        if seen != actual:
            return [('tick %d: %s is handed %r while the hierarchy holds %r' % (tick, who, seen, actual), 'stale-view')]
    return []


def nontrivial(c, ob):
    return len(ob['log']) >= 6


def stat_key(c, ob):
    return 'live/%s/%s/%s' % (c.get('entry', 'parts'), c['director'], ob['status'].split(':')[0])
