"""C05 — steps run once per phase, after process updates, in dependency order.
Family `steps`: _StepGraph operations and whole Engine runs with logging steps against
Model/Steps.v."""
import contextlib
import io
import random

from harness import common
from harness.common import cN, cZ, clist, cpair, copt, cnat

FAMILY = 'steps'
RULE = ('ops: random operation sequences on _StepGraph (add with dependencies, add_sequential, remove, '
        'get_execution_layers) over 2-8 step paths of depth 1-3, incl. cycles and sequential/graph overlaps; '
        'engine: random flows over 0-8 (thorough 0-14) logging steps generated from a random linear order, '
        'nested at depth<=3, plus 0-3 flow-less derivers, plus a malformed stream (cycles, unknown / cross-'
        'compartment dependencies); a ticking process drives 1-4 batches; each step sets its own variable to '
        '1 + the sum of the variables it reads (so a wrong order changes values). Non-trivial: >=2 steps; '
        'distinct by rendered term.')
ASSUMPTIONS = [
    'step names are interned in sorted order so that sorted() on paths is the numeric order of the model',
    'steps are deterministic; all steps write distinct variables with the set updater',
    'networkx is replaced by the model: its behaviour is compared, not assumed',
]
IMPORTS = 'From Viv Require Import Base.Assoc Base.Tree Model.Paths Model.Steps Corr.C05c.'
CHECK_FN = 'check_case'
BAD_TERM = '(COps [] [GOk])'

NAMES = ['a', 'b', 'c'] + ['s%02d' % i for i in range(16)]      # sorted order == intern order


def gen_path(rng, used, depth=None):
    depth = depth or rng.choice([1, 1, 2, 2, 3])
    for _ in range(50):
        p = [rng.choice(['a', 'b', 'c']) for _ in range(depth - 1)] + ['s%02d' % rng.randint(0, 15)]
        if tuple(p) not in used:
            used.add(tuple(p))
            return p
    return None


def rel(frm_parent, to):
    """relative path from the directory frm_parent to the path `to`"""
    i = 0
    while i < len(frm_parent) and i < len(to) - 1 and frm_parent[i] == to[i]:
        i += 1
    return ['..'] * (len(frm_parent) - i) + list(to[i:])


def generate(seed, tier, enlarged=False):
    rng = random.Random(seed * 613 + 5)
    n = 400 if tier == 'quick' else 6000
    if enlarged:
        n *= 3
    cases = []
    for i in range(n):
        if i % 2 == 0:
            # ---- operations on the helper class
            used = set()
            paths = [p for p in (gen_path(rng, used) for _ in range(rng.randint(2, 8))) if p]
            ops = []
            for _ in range(rng.randint(2, 12)):
                r = rng.random()
                p = rng.choice(paths)
                if r < 0.5:
                    k = rng.randint(0, 3)
                    if rng.random() < 0.93:
                        # mostly forward edges w.r.t. the index order => acyclic
                        cand = paths[:paths.index(p)] or paths
                    else:
                        cand = paths
                    deps = [rng.choice(cand) for _ in range(k)]
                    ops.append(['add', p, deps])
                elif r < 0.62:
                    if ['addseq', p] not in ops:      # a path is registered once
                        ops.append(['addseq', p])
                elif r < 0.75:
                    ops.append(['remove', p])
                else:
                    ops.append(['layers'])
            ops.append(['layers'])
            cases.append({'kind': 'ops', 'ops': ops})
        else:
            maxs = 8 if tier == 'quick' else 14
            used = set()
            same_dir = rng.random() < 0.6
            depth = rng.choice([1, 2, 3])
            k = rng.randint(0, maxs)
            steps = []
            base = [rng.choice(['a', 'b']) for _ in range(depth - 1)]
            for j in range(k):
                if same_dir:
                    name = 's%02d' % j
                    p = base + [name] if tuple(base + [name]) not in used else None
                    used.add(tuple(base + [name]))
                else:
                    p = gen_path(rng, used)
                if p:
                    steps.append({'path': p})
            order = list(range(len(steps)))
            rng.shuffle(order)          # a random linear order: dependencies point backwards in it
            rank = {j: r for r, j in enumerate(order)}
            malformed = rng.random() < 0.15
            for st in steps:
                st['deriver'] = rng.random() < 0.25
            for j, st in enumerate(steps):
                if st['deriver']:
                    st['deps'] = None   # legacy deriver
                else:
                    cands = [x for x in range(len(steps))
                             if (rank[x] < rank[j] and not steps[x]['deriver'])
                             or (malformed and rng.random() < 0.3)]
                    cands = [x for x in cands if x != j or malformed]
                    ds = rng.sample(cands, min(len(cands), rng.randint(0, 3))) if cands else []
                    st['deps'] = [rel(st['path'][:-1], steps[x]['path']) for x in ds]
                    if malformed and rng.random() < 0.3:
                        st['deps'].append(['s15x'])       # unknown step
                st['write'] = j + 1
            for j, st in enumerate(steps):
                pool = [0] + [x + 1 for x in range(len(steps)) if x != j]
                deps_idx = []
                if st['deps']:
                    for x, other in enumerate(steps):
                        if rel(st['path'][:-1], other['path']) in st['deps']:
                            deps_idx.append(x + 1)
                extra = rng.sample(pool, min(len(pool), rng.randint(0, 2)))
                st['reads'] = sorted(set(deps_idx + extra))
            # a Step may also be listed in the `processes` dict, its flow entry still counting: done for some
            # flow steps that nothing depends on
            depended = {tuple(d) for st in steps for d in (st['deps'] or [])}
            for st in steps:
                if st['deps'] and rng.random() < 0.25 and not any(
                        tuple(rel(o['path'][:-1], st['path'])) in {tuple(d) for d in (o['deps'] or [])} for o in steps):
                    st['in_processes'] = True
            rng.shuffle(steps) if rng.random() < 0.5 else None
            cases.append({'kind': 'engine', 'steps': steps, 'nphases': rng.randint(1, 4),
                          'init': [rng.randint(0, 3) for _ in range(len(steps) + 1)]})
    # steps whose dependencies change the STRUCTURE of the hierarchy: the live stream of C07
    from harness import live
    n_live = 40 if tier == 'quick' else 600
    cases += [live.gen_case(rng) for _ in range(n_live)]
    cases += live.corpus()
    return cases


# ------------------------------------------------------------------ implementation side

LOG = []
_CLS = None


def classes():
    global _CLS
    if _CLS:
        return _CLS
    from vivarium.core.process import Process, Step
    from vivarium.core.emitter import Emitter
    from vivarium.core.registry import emitter_registry

    def tick_updater(cur, upd):
        LOG.append(['apply'])
        return cur + upd

    class LogStep(Step):
        defaults = {'sid': 0, 'reads': [], 'write': 1, 'path': ()}

        def ports_schema(self):
            names = set(self.parameters['reads']) | {self.parameters['write']}
            sch = {}
            for v in names:
                sch['v%d' % v] = {'_default': 0, '_updater': 'set', '_emit': True}
                if v == 0:
                    sch['v0'] = {'_default': 0, '_updater': tick_updater, '_emit': True}
            return {'vars': sch}

        def next_update(self, timestep, states):
            val = 1 + sum(states['vars']['v%d' % r] for r in self.parameters['reads'])
            LOG.append(['step', list(self.parameters['path']), timestep, dict(states['vars']), val])
            return {'vars': {'v%d' % self.parameters['write']: val}}

    class Ticker(Process):
        def ports_schema(self):
            return {'vars': {'v0': {'_default': 0, '_updater': tick_updater, '_emit': True}}}

        def next_update(self, timestep, states):
            LOG.append(['process'])
            return {'vars': {'v0': 1}}

    class Rec(Emitter):
        def emit(self, data):
            if data['table'] == 'history':
                LOG.append(['emit', data['data']['time']])

    emitter_registry.register('verif_rec05', Rec)
    _CLS = (LogStep, Ticker)
    return _CLS


def nest(d, path, value):
    for k in path[:-1]:
        d = d.setdefault(k, {})
    d[path[-1]] = value


def run_impl(c):
    if c['kind'] == 'ops':
        from vivarium.core.engine import _StepGraph
        g = _StepGraph()
        out = []
        for op in c['ops']:
            try:
                if op[0] == 'add':
                    g.add(tuple(op[1]), [tuple(d) for d in op[2]])
                    out.append(['ok'])
                elif op[0] == 'addseq':
                    g.add_sequential(tuple(op[1]))
                    out.append(['ok'])
                elif op[0] == 'remove':
                    try:
                        g.remove(tuple(op[1]))
                    except Exception as e:
                        if 'not in the digraph' not in str(e) and 'not in the graph' not in str(e):
                            raise
                    out.append(['ok'])
                else:
                    out.append(['layers', [[list(p) for p in layer] for layer in g.get_execution_layers()]])
            except ValueError as e:
                out.append(['err', 'ECycle' if 'DAG' in str(e) else ('EOverlap' if 'overlapping' in str(e) else 'EOther')])
                break
        return {'out': out}
    LogStep, Ticker = classes()
    from vivarium.core.engine import Engine
    del LOG[:]
    steps, flow, topology = {}, {}, {'ticker': {'vars': ('vars',)}}
    processes = {'ticker': Ticker()}
    for st in c['steps']:
        p = st['path']
        nest(processes if st.get('in_processes') else steps, p,
             LogStep({'sid': st['write'], 'reads': st['reads'], 'write': st['write'], 'path': p}))
        if st['deps'] is not None:
            nest(flow, p, [tuple(d) for d in st['deps']])
        nest(topology, p, {'vars': tuple(['..'] * (len(p) - 1) + ['vars'])})
    init = {'vars': {'v%d' % i: v for i, v in enumerate(c['init'])}}
    try:
        with contextlib.redirect_stdout(io.StringIO()):
            eng = Engine(processes=processes, steps=steps, flow=flow, topology=topology,
                         initial_state=init, emitter={'type': 'verif_rec05'}, display_info=False)
            if c['nphases'] > 1:
                eng.update(c['nphases'] - 1)
    except ValueError as e:
        s = str(e)
        return {'err': 'ECycle' if 'DAG' in s else 'EOverlap' if 'overlapping' in s else
                'EUnknownDep' if 'Unknown dependency' in s else 'EOther:' + s[:80]}
    except Exception as e:
        return {'err': 'EOther:%s:%s' % (type(e).__name__, str(e)[:80])}
    return {'log': list(LOG)}


def split_phases(log):
    """[(kind-sequence before the steps, step calls)] per emitted row"""
    phases, cur = [], {'pre': [], 'steps': [], 'order': []}
    for e in log:
        if e[0] == 'emit':
            phases.append(cur)
            cur = {'pre': [], 'steps': [], 'order': []}
        else:
            cur['order'].append(e[0])
            if e[0] == 'step':
                cur['steps'].append(e)
    return phases


# ------------------------------------------------------------------ oracle

def oracle(c, ob, rng):
    msgs = []
    if c['kind'] == 'ops':
        # layers must respect the edges added so far (recomputed independently)
        edges, seqs, nodes = set(), [], []
        for op, out in zip(c['ops'], ob['out']):
            if out[0] == 'err':
                break
            if op[0] == 'add':
                nodes.append(tuple(op[1]))
                for d in op[2]:
                    edges.add((tuple(d), tuple(op[1])))
            elif op[0] == 'remove':
                return msgs     # removal semantics (descendants) is compared through the model only
            elif op[0] == 'layers':
                pos = {}
                for li, layer in enumerate(out[1]):
                    for p in layer:
                        if tuple(p) in pos:
                            msgs.append(('step %r occurs in two layers' % (p,), 'layer-duplicate'))
                        pos[tuple(p)] = li
                    if len(layer) > 1 and sorted(map(tuple, layer)) != [tuple(p) for p in layer]:
                        msgs.append(('layer %r is not sorted' % (layer,), 'layer-unsorted'))
                for d, s in edges:
                    if d in pos and s in pos and not pos[d] < pos[s]:
                        msgs.append(('dependency %r is not in an earlier layer than %r' % (d, s), 'layer-order'))
        return msgs
    if 'err' in ob:
        return msgs
    steps = {tuple(st['path']): st for st in c['steps']}
    # declaration order = iteration order of the nested steps dict handed to the engine
    nested = {}
    for st in c['steps']:
        nest(nested, st['path'], st)

    def flat(d):
        out = []
        for k, v in d.items():
            out.extend(flat(v) if 'path' not in v else [v])
        return out
    derivers = [tuple(st['path']) for st in flat(nested) if st['deps'] is None]
    deps = {}
    for p, st in steps.items():
        deps[p] = []
        for d in (st['deps'] or []):
            q = list(p[:-1]) + list(d)
            deps[p].append(tuple(q))
    # longest-path layer of every flow step
    layer = {}

    def lay(p, seen=()):
        if p in layer:
            return layer[p]
        if p in seen:
            return 0
        layer[p] = 1 + max([lay(d, seen + (p,)) for d in deps[p] if d in steps and steps[d]['deps'] is not None] or [-1])
        return layer[p]
    for p, st in steps.items():
        if st['deps'] is not None:
            lay(p)
    phases = split_phases(ob['log'])
    if len(phases) != c['nphases']:
        msgs.append(('%d history rows for %d phases' % (len(phases), c['nphases']), 'phase-count'))
    for pi, ph in enumerate(phases):
        order = ph['order']
        # placement: process, apply, then steps only
        first_step = order.index('step') if 'step' in order else len(order)
        if any(k != 'step' for k in order[first_step:]):
            msgs.append(('phase %d: a process update is computed or applied in between steps' % pi, 'phase-placement'))
        ran = [tuple(e[1]) for e in ph['steps']]
        if sorted(ran) != sorted(steps.keys()):
            msgs.append(('phase %d ran %r, existing steps %r' % (pi, ran, sorted(steps.keys())), 'phase-once'))
            continue
        if any(e[2] != 0 for e in ph['steps']):
            msgs.append(('a step was handed a non-zero timestep', 'step-timestep'))
        if ran[:len(derivers)] != derivers:
            msgs.append(('phase %d: derivers did not run first in declaration order: %r' % (pi, ran), 'derivers-first'))
        pos = {p: i for i, p in enumerate(ran)}
        wrote = {}
        for e in ph['steps']:
            p = tuple(e[1])
            for d in deps[p]:
                if d in pos and not pos[d] < pos[p]:
                    msgs.append(('phase %d: %r ran before its dependency %r' % (pi, p, d), 'dep-order'))
                elif d in wrote:
                    dv = 'v%d' % steps[d]['write']
                    if dv in e[3] and e[3][dv] != wrote[d]:
                        msgs.append(('phase %d: %r does not see the value its dependency %r just wrote' % (pi, p, d),
                                     'dep-not-applied'))
            wrote[p] = e[4]
        # steps of one layer see the same state
        by_layer = {}
        for e in ph['steps']:
            p = tuple(e[1])
            if steps[p]['deps'] is not None:
                by_layer.setdefault(layer[p], []).append(e)
        for li, es in by_layer.items():
            for a in es:
                for b in es:
                    common_vars = set(a[3]) & set(b[3])
                    if any(a[3][v] != b[3][v] for v in common_vars):
                        msgs.append(('phase %d: steps %r and %r of one layer see different states' % (pi, a[1], b[1]),
                                     'layer-snapshot'))
    return msgs[:3]


# ------------------------------------------------------------------ rendering

def r_seg(s):
    return 'Up' if s == '..' else '(Dn %s)' % cN(NAMES.index(s) if s in NAMES else 40)


def r_node(p):
    return clist([r_seg(s) for s in p])


def render(c, ob):
    if c['kind'] == 'ops':
        ops = []
        for op in c['ops']:
            if op[0] == 'add':
                ops.append('(OAdd %s %s)' % (r_node(op[1]), clist([r_node(d) for d in op[2]])))
            elif op[0] == 'addseq':
                ops.append('(OAddSeq %s)' % r_node(op[1]))
            elif op[0] == 'remove':
                ops.append('(ORemove %s)' % r_node(op[1]))
            else:
                ops.append('OLayers')
        outs = []
        for o in ob['out']:
            if o[0] == 'ok':
                outs.append('GOk')
            elif o[0] == 'err':
                outs.append('(GErr %s)' % o[1])
            else:
                outs.append('(GLayers %s)' % clist([clist([r_node(p) for p in layer]) for layer in o[1]]))
        return '(COps %s %s)' % (clist(ops), clist(outs))
    specs = []
    # the engine registers the Steps found in the processes dict first (Engine._find_process_paths), then the
    # steps dict, each in the iteration order of the nested dict
    nested_p, nested = {}, {}
    for st in c['steps']:
        nest(nested_p if st.get('in_processes') else nested, st['path'], st)

    def flat(d):
        out = []
        for k, v in d.items():
            out.extend(flat(v) if 'path' not in v else [v])
        return out
    for st in flat(nested_p) + flat(nested):
        deps = 'None' if st['deps'] is None else '(Some %s)' % clist([r_node(d) for d in st['deps']])
        specs.append('{| s_path := %s; s_deps := %s; s_reads := %s; s_write := %s |}' % (
            r_node(st['path']), deps, clist([cN(r) for r in st['reads']]), cN(st['write'])))
    init = clist([cpair(cN(i), cZ(v)) for i, v in enumerate(c['init'])])
    if 'err' in ob:
        e = ob['err']
        exp = '(Err %s)' % (e if not e.startswith('EOther') else 'EOther')
    else:
        phases = split_phases(ob['log'])
        exp = '(Ok %s)' % clist([clist([cpair(r_node(e[1]), cZ(e[4])) for e in ph['steps']]) for ph in phases])
    return '(CEngine %s %s %s %s)' % (clist(specs), init, cnat(c['nphases']), exp)


def nontrivial(c, ob):
    if c['kind'] == 'ops':
        return len(c['ops']) >= 3
    return len(c['steps']) >= 2


def stat_key(c, ob):
    if c['kind'] == 'ops':
        return 'ops/' + ('err' if any(o[0] == 'err' for o in ob['out']) else 'ok')
    return 'engine/%s' % (ob['err'].split(':')[0] if 'err' in ob else 'ok/steps=%d' % min(len(c['steps']), 9))


def run(cases, tier='quick', seed=0):
    from harness import live
    me = __import__('harness.c05', fromlist=['x'])

    class Live:
        __name__ = 'harness.live'
        IMPORTS, CHECK_FN, BAD_TERM = live.IMPORTS, live.CHECK_FN, live.BAD_TERM
        run_impl, render = staticmethod(live.run_impl), staticmethod(live.render)
        # a step observes the effects of its dependencies (also their structural ones), and every step that
        # exists when a phase begins runs exactly once in it
        oracle = staticmethod(lambda c, ob, rng: live.oracle(c, ob, rng) + live.oracle_phases(c, ob, rng) +
                              live.oracle_rels(c, ob, rng))
        nontrivial, stat_key = staticmethod(live.nontrivial), staticmethod(live.stat_key)
    return common.merge_streams(cases, [
        (lambda c: c['kind'] != 'live', lambda cs: common.generic_run(me, cs, seed, shard=100)),
        (lambda c: c['kind'] == 'live', lambda cs: common.generic_run(Live, cs, seed, shard=20))])


def model_output(case, ob):
    if case['kind'] == 'live':
        from harness import live
        return common.coq_eval('LIVE', live.IMPORTS, 'model_out_all %s' % live.render(case, ob))[:4000]
    return common.coq_eval('C05', IMPORTS, 'model_out %s' % render(case, ob))[:5000]
