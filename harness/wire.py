"""Wiring family (C06, C07, C15): random ports schemas x well-formed topologies driven through
generate_state / topology views / inverse_topology / Store.apply_update, compared with
Model/Wire.v."""
import copy
import random

from harness import common
from harness.common import cN, cZ, clist, cpair, copt, cbool, cnat

IMPORTS = 'From Viv Require Import Base.Assoc Base.Tree Model.Paths Model.Wire Model.CompState Corr.Wirec.'
CHECK_FN = 'check_case'
BAD_TERM = '(WGen [] (Nd []) (Ok (SV None)))'

COMPS = ['c1', 'c2']
BRANCH = ['sa', 'sb', 'sc']
NEST = ['n', 'm']
VARS = ['x', 'y', 'z', 'w', '_u']      # ('_u': a variable name may begin with an underscore)
GLOBS = ['ga', 'gb']
KIDS = ['k1', 'k2', 'k3']
PORTS = ['pa', 'pb', 'pc', 'pd']
GLOBDICT_WEIGHT = [0]      # weight of glob ports with a '*' sub-topology in gen_port (set by the callers)
STAR_TUPLE = [True]        # tuple-path '*' entries and named ports wired into glob children (since repair F21)
GLOBS_R = ['gc', 'gd']     # glob nodes whose '*' sub-topology redirects sub-variables (one sub-topology per node)
ALL_NAMES = COMPS + BRANCH + NEST + VARS + GLOBS + KIDS + PORTS + ['p0', 'p1', 'p2', 'p3'] + GLOBS_R


# ------------------------------------------------------------------ generation

def gen_var(rng):
    return {'$var': {'default': rng.choice([0, 1, 2, 5, -3]), 'value': None, 'units': None}}


GLOB_DEFAULT = {'x': 5, 'y': 1, 'z': 0, 'w': 2, '_u': 4}


def gen_glob_var(rng, v):
    """sub-variables of glob ports get one default per name: several globs (and named ports wired into their
    children) meet on one node, and which of two conflicting `_default`s wins there is outside the claim"""
    return {'$var': {'default': GLOB_DEFAULT[v], 'value': None, 'units': None}}


def gen_vars_schema(rng, nested_ok=True):
    c = []
    for v in rng.sample(VARS, rng.randint(1, 3)):
        c.append([v, gen_var(rng)])
    if nested_ok and rng.random() < 0.3:
        n = rng.choice(NEST)
        inner = [[v, gen_var(rng)] for v in rng.sample(VARS, rng.randint(1, 2))]
        if rng.random() < 0.35:
            # a second level of nesting below the port
            inner.append([rng.choice(NEST), {'$node': {'out': False, 'c': [
                [v, gen_var(rng)] for v in rng.sample(VARS, rng.randint(1, 2))]}}])
        c.append([n, {'$node': {'out': False, 'c': inner}}])
    rng.shuffle(c)
    return c


def ups(rng, depth):
    return ['..'] * rng.randint(0, depth)


OUT_DICT = [True]


def gen_target(rng, depth, minlen=0):
    """a branch path relative to the process's parent"""
    p = ups(rng, depth)
    n = rng.randint(minlen, 2)
    if rng.random() < 0.15:
        # '..' in the middle: down into a compartment and back up
        p = p + [rng.choice(BRANCH), '..']
    return p + [rng.choice(BRANCH) for _ in range(n)]


def gen_port(rng, depth):
    kind = rng.choices(['vars', 'vars', 'vars', 'glob', 'output', 'dictpath', 'dictnopath', 'globdict'],
                       [3, 3, 2, 2, 1, 3, 2, GLOBDICT_WEIGHT[0]])[0]
    if kind == 'globdict':
        # a glob port whose topology entry is a dict with a '*' sub-topology; '_path' beside or inside it
        vs = rng.sample(VARS, rng.randint(1, 2))
        sub = {'$node': {'out': False, 'c': [[v, gen_glob_var(rng, v)] for v in vs]}}
        sch = {'$node': {'out': False, 'c': [['*', sub]]}}
        # every declared sub-variable is listed (well-formed domain: an unlisted one is read at its default
        # place while its updates are dropped, as for a dict topology without '_path')
        ents = [[v, {'$path': rng.choice([[v], [rng.choice(NEST), v], [rng.choice(VARS)]])}] for v in vs]
        base = ups(rng, depth) + [rng.choice(GLOBS)]
        r = rng.random()
        if r >= 0.3 and any(e[1]['$path'] != [e[0]] for e in ents):
            # a node has ONE sub-topology: redirecting ones get nodes of their own, apart from the plain globs
            # (into whose children named ports may be wired)
            base = ups(rng, depth) + [rng.choice(GLOBS_R)]
        if r < 0.3 and STAR_TUPLE[0]:
            # the '*' entry is a tuple path: the children of the node it leads to
            return sch, {'$dict': {'path': None, 'c': [['*', {'$path': base}]]}}
        if r < 0.65:
            return sch, {'$dict': {'path': base, 'c': [['*', {'$dict': {'path': None, 'c': ents}}]]}}
        return sch, {'$dict': {'path': None, 'c': [['*', {'$dict': {'path': base, 'c': ents}}]]}}
    if kind in ('vars', 'output'):
        sch = {'$node': {'out': kind == 'output', 'c': gen_vars_schema(rng)}}
        return sch, {'$path': gen_target(rng, depth, 0 if rng.random() < 0.2 else 1)}
    if kind == 'glob':
        sub = {'$node': {'out': False, 'c': [[v, gen_glob_var(rng, v)] for v in rng.sample(VARS, rng.randint(1, 2))]}}
        sch = {'$node': {'out': False, 'c': [['*', sub]]}}
        return sch, {'$path': ups(rng, depth) + [rng.choice(GLOBS)]}
    c = gen_vars_schema(rng)
    # (an output-only port may be wired through a dictionary as well)
    sch = {'$node': {'out': OUT_DICT[0] and rng.random() < 0.2, 'c': c}}
    if kind == 'dictpath':
        # '_path' plus renamed / redirected sub-keys; unlisted sub-keys keep their name
        ents = []
        for k, s in c:
            if rng.random() < 0.5:
                if '$var' in s:
                    tgt = (['..'] if rng.random() < 0.4 else []) + \
                          ([rng.choice(BRANCH)] if rng.random() < 0.5 else []) + [rng.choice(VARS)]
                else:
                    tgt = (['..'] if rng.random() < 0.4 else []) + [rng.choice(BRANCH + NEST)]
                ents.append([k, {'$path': tgt}])
        # '_path': () - the port is split over the process's own compartment - is legal too
        base = [] if rng.random() < 0.15 else gen_target(rng, depth, 1)
        return sch, {'$dict': {'path': base, 'c': ents}}
    # no '_path': every declared sub-key is listed
    ents = []
    for k, s in c:
        if '$var' in s:
            ents.append([k, {'$path': gen_target(rng, depth, 1)[:-1] + [rng.choice(BRANCH), rng.choice(VARS)]}])
        else:
            ents.append([k, {'$path': gen_target(rng, depth, 1)}])
    return sch, {'$dict': {'path': None, 'c': ents}}


def glob_base(t):
    """the path of the node whose children a glob port shows, when the sub-variables are not redirected"""
    if '$path' in t:
        return list(t['$path']) if t['$path'] and t['$path'][-1] in GLOBS else None
    d = t['$dict']
    star = [x for k, x in d['c'] if k == '*']
    if len(d['c']) != 1 or not star:
        return None
    if '$path' in star[0]:
        return (d['path'] or []) + list(star[0]['$path'])
    return None


def gen_procs(rng, max_procs=3):
    procs = []
    for i in range(rng.randint(1, max_procs)):
        depth = rng.choice([0, 0, 1, 1, 2])
        parent = COMPS[:depth]
        ports, topo = [], []
        for pn in rng.sample(PORTS, rng.randint(1, 3)):
            s, t = gen_port(rng, depth)
            ports.append([pn, s])
            topo.append([pn, t])
        if rng.random() < 0.15 and len(ports) >= 1:
            # a second port wired to the same store as the first (collision / multi-update)
            pn2 = [p for p in PORTS if p not in [q[0] for q in ports]][0]
            ports.append([pn2, copy.deepcopy(ports[0][1])])
            topo.append([pn2, copy.deepcopy(topo[0][1])])
        if rng.random() < 0.3 and STAR_TUPLE[0]:
            # a named port wired into one child of a glob port of the same process, listed before it
            for j, (pn, t) in enumerate(topo):
                gp = glob_base(t)
                sub = ports[j][1]['$node']['c'][0][1] if ports[j][1]['$node']['c'][0][0] == '*' else None
                if gp is not None and sub is not None and '$node' in sub:
                    pn2 = [p for p in PORTS if p not in [q[0] for q in ports]]
                    if pn2:
                        named = copy.deepcopy(sub)
                        if len(named['$node']['c']) > 1 and rng.random() < 0.5:
                            # only some of the child's variables: the others are declared by the glob alone
                            named['$node']['c'] = named['$node']['c'][:1]
                        ports.insert(j, [pn2[0], named])
                        topo.insert(j, [pn2[0], {'$path': gp + [rng.choice(KIDS)]}])
                    break
        procs.append({'parent': parent, 'name': 'p%d' % i,
                      'schema': {'$node': {'out': False, 'c': ports}}, 'topo': topo})
    return nested_order(procs)


def nested_order(procs):
    """list the processes in the order Store._generate_paths visits the nested processes dict"""
    nested = {}
    for p in procs:
        d = nested
        for k in p['parent']:
            d = d.setdefault(k, {})
        d[p['name']] = p

    def flat(d):
        out = []
        for k, v in d.items():
            out.extend([v] if 'schema' in v else flat(v))
        return out
    return flat(nested)


def gen_init(rng, procs, built):
    """a partial initial state over the built leaves, plus children for glob nodes"""
    init = {}

    def put(path, v):
        d = init
        for k in path[:-1]:
            d = d.setdefault(k, {})
            if not isinstance(d, dict):
                return
        if isinstance(d, dict) and not isinstance(d.get(path[-1]), dict):
            d[path[-1]] = v
    for path in built.get('leaves', []):
        if rng.random() < 0.4:
            put(path, rng.randint(10, 99))
    for gpath, subvars in built.get('globs', []):
        for kid in rng.sample(KIDS, rng.randint(0, 3)):
            kd = {}
            for v in subvars:
                if rng.random() < 0.6:
                    kd[v] = rng.randint(100, 199)
            d = init
            ok = True
            for k in gpath:
                d = d.setdefault(k, {})
                if not isinstance(d, dict):
                    ok = False
                    break
            if ok:
                d[kid] = kd
    return init


# ------------------------------------------------------------------ python objects

def py_schema(s):
    if s == '**':
        return '**'
    if '$var' in s:
        v = s['$var']
        out = {'_default': v['default'], '_emit': True}
        if v.get('value') is not None:
            out['_value'] = v['value']
        if v.get('units'):
            from vivarium.library.units import units
            out['_units'] = getattr(units, v['units'])
        return out
    n = s['$node']
    out = {k: py_schema(x) for k, x in n['c']}
    if n['out']:
        out['_output'] = True
    return out


def py_topo(t):
    if '$path' in t:
        return tuple(t['$path'])
    d = t['$dict']
    out = {}
    if d['path'] is not None:
        out['_path'] = tuple(d['path'])
    for k, x in d['c']:
        out[k] = py_topo(x)
    return out


_PCLS = None


def pcls():
    global _PCLS
    if _PCLS is None:
        from vivarium.core.process import Process

        class Wired(Process):
            defaults = {'schema': {}}

            def ports_schema(self):
                return copy.deepcopy(self.parameters['schema'])

            def next_update(self, timestep, states):
                return {}
        _PCLS = Wired
    return _PCLS


def build_store(procs, init):
    from vivarium.core.store import generate_state
    P = pcls()
    processes, topology = {}, {}
    for p in procs:
        d, t = processes, topology
        for k in p['parent']:
            d = d.setdefault(k, {})
            t = t.setdefault(k, {})
        d[p['name']] = P({'schema': py_schema(p['schema'])})
        t[p['name']] = {k: py_topo(x) for k, x in p['topo']}
    return generate_state(processes, topology, copy.deepcopy(init))


def dump_values(store):
    from vivarium.core.process import Process
    if store.inner:
        out = {}
        for k, ch in store.inner.items():
            if isinstance(ch.value, Process):
                continue
            out[k] = dump_values(ch)
        return out
    if store.leaf:
        return ['v', store.value]
    return {}


def dump_view(tv):
    from vivarium.core.store import Store
    if isinstance(tv, Store):
        return ['ref', list(tv.path_for())]
    return {k: dump_view(v) for k, v in tv.items()}


def view_to_values(tv):
    from vivarium.core.store import Store
    if isinstance(tv, Store):
        return dump_values(tv)
    return {k: view_to_values(v) for k, v in tv.items()}


def enc_update(u):
    if isinstance(u, dict):
        if '_multi_update' in u and len(u) == 1:
            return {'$multi': [enc_update(x) for x in u['_multi_update']]}
        return {k: enc_update(v) for k, v in u.items()}
    return u


def dec_update(u):
    if isinstance(u, dict):
        if '$multi' in u:
            return {'_multi_update': [dec_update(x) for x in u['$multi']]}
        return {k: dec_update(v) for k, v in u.items()}
    return u


def token_update(schema_node, view, counter):
    """an update with a fresh token for every declared variable the process can see"""
    out = {}
    for k, s in schema_node['c']:
        if k == '*':
            if isinstance(view, dict):
                for kid, sub in view.items():
                    if kid in [kk for kk, _ in schema_node['c']]:
                        continue
                    out[kid] = token_update(s['$node'], sub if isinstance(sub, dict) else {}, counter) \
                        if isinstance(s, dict) and '$node' in s else next_tok(counter)
            continue
        if s == '**':
            continue
        if '$var' in s:
            out[k] = next_tok(counter)
        else:
            out[k] = token_update(s['$node'], view.get(k, {}) if isinstance(view, dict) else {}, counter)
    return out


def next_tok(counter):
    counter[0] += 1
    return 1000 + counter[0]


def run_impl(c):
    from vivarium.library.topology import inverse_topology
    kind = c['kind']
    try:
        store = build_store(c['procs'], c['init'])
    except Exception as e:
        return {'err': 'build:' + type(e).__name__ + ':' + str(e)[:120]}
    if kind == 'gen':
        return {'ok': dump_values(store)}
    p = c['procs'][c['i']]
    node = store.get_path(tuple(p['parent']) + (p['name'],))
    if kind == 'view':
        tv = node.topology_view
        return {'ok': [dump_view(tv), view_to_values(tv)]}
    upd = dec_update(c['upd'])
    upd0 = copy.deepcopy(upd)
    tp = {k: py_topo(x) for k, x in p['topo']}
    tp0 = copy.deepcopy(tp)
    try:
        inv = inverse_topology(tuple(p['parent']), upd, tp)
        # the engine hands the same topology object to every later call
        again = inverse_topology(tuple(p['parent']), copy.deepcopy(upd0), tp)
    except Exception as e:
        return {'err': 'invert:' + type(e).__name__ + ':' + str(e)[:120]}
    mut = {'update_mutated': upd != upd0, 'topology_mutated': tp != tp0 or again != inv}
    if kind == 'invert':
        return dict({'ok': enc_update(inv)}, **mut)
    try:
        store.apply_update(inv)
    except Exception as e:
        return {'err': 'apply:' + type(e).__name__ + ':' + str(e)[:120]}
    return dict({'ok': dump_values(store)}, **mut)


def prepare(procs, init):
    """build once on the implementation to learn leaves, globs and views (used by the generator
    to make initial states and token updates); returns None when the build fails"""
    try:
        store = build_store(procs, init)
    except Exception:
        return None
    leaves, globs = [], []

    def walk(s, path):
        from vivarium.core.process import Process
        if isinstance(s.value, Process):
            return
        if s.subschema:
            globs.append([list(path), [k for k in s.subschema.keys() if not k.startswith('_')]])
        if s.inner:
            for k, ch in s.inner.items():
                walk(ch, path + [k])
        elif s.leaf:
            leaves.append(list(path))
    walk(store, [])
    views = []
    for p in procs:
        node = store.get_path(tuple(p['parent']) + (p['name'],))
        views.append(dump_view(node.topology_view))
    return {'leaves': leaves, 'globs': globs, 'views': views}


def gen_cases(rng, n, kinds, max_procs=3):
    cases = []
    tries = 0
    while len(cases) < n and tries < n * 6:
        tries += 1
        procs = gen_procs(rng, max_procs)
        built = prepare(procs, {})
        if built is None:
            # construction rejected (leaf/branch clash of the random wiring): keep a few as error cases
            if rng.random() < 0.15:
                cases.append({'kind': 'gen', 'procs': procs, 'init': {}})
            continue
        init = gen_init(rng, procs, built)
        built2 = prepare(procs, init)
        if built2 is None:
            continue
        kind = kinds[len(cases) % len(kinds)]
        i = rng.randrange(len(procs))
        c = {'kind': kind, 'procs': procs, 'init': init, 'i': i}
        if kind in ('invert', 'apply'):
            c['upd'] = token_update(procs[i]['schema']['$node'], built2['views'][i], [rng.randint(0, 50) * 10])
        cases.append(c)
    return cases


# ------------------------------------------------------------------ rendering

def key(k):
    return cN(ALL_NAMES.index(k))


def r_seg(s):
    return 'Up' if s == '..' else '(Dn %s)' % key(s)


def r_pkey(k):
    return 'PStar' if k == '*' else '(PK %s)' % key(k)


def r_schema(s):
    if s == '**':
        return 'SAll'
    if '$var' in s:
        v = s['$var']
        return '(SVar {| dd := %s; dv := %s; du := %s; ds := None |})' % (
            copt(cZ(v['default']) if v['default'] is not None else None),
            copt(cZ(v['value']) if v.get('value') is not None else None),
            copt(cN({'mg': 1, 'g': 2}[v['units']]) if v.get('units') else None))
    n = s['$node']
    return '(SNode %s %s)' % (cbool(n['out']), clist([cpair(r_pkey(k), r_schema(x)) for k, x in n['c']]))


def r_topo(t):
    if '$path' in t:
        return '(TPath %s)' % clist([r_seg(s) for s in t['$path']])
    d = t['$dict']
    return '(TDict %s %s)' % (copt(clist([r_seg(s) for s in d['path']]) if d['path'] is not None else None),
                              clist([cpair(r_pkey(k), r_topo(x)) for k, x in d['c']]))


def r_proc(p):
    return '{| pr_parent := %s; pr_schema := %s; pr_topo := %s |}' % (
        clist([key(k) for k in p['parent']]), r_schema(p['schema']),
        clist([cpair(r_pkey(k), r_topo(x)) for k, x in p['topo']]))


def r_init(d):
    if isinstance(d, dict):
        return '(Nd %s)' % clist([cpair(key(k), r_init(v)) for k, v in d.items()])
    return '(Lf %s)' % cZ(d)


def r_sval(d):
    if isinstance(d, list) and d and d[0] == 'v':
        return '(SV %s)' % copt(cZ(d[1]) if d[1] is not None else None)
    if isinstance(d, dict):
        return '(SD %s)' % clist([cpair(key(k), r_sval(v)) for k, v in d.items()])
    raise ValueError('sval %r' % (d,))


def r_vtree(d):
    if isinstance(d, list) and d and d[0] == 'ref':
        return '(VRef %s)' % clist([key(k) for k in d[1]])
    return '(VNode %s)' % clist([cpair(key(k), r_vtree(v)) for k, v in d.items()])


def r_utree(u):
    if isinstance(u, dict):
        if '$multi' in u:
            return '(UM %s)' % clist([r_utree(x) for x in u['$multi']])
        return '(UD %s)' % clist([cpair(key(k), r_utree(v)) for k, v in u.items()])
    return '(UV %s)' % cZ(u)


def r_ulist(u):
    return clist([cpair(key(k), r_utree(v)) for k, v in u.items()])


def render(c, ob):
    ps = clist([r_proc(p) for p in c['procs']])
    init = r_init(c['init'])
    kind = c['kind']
    if kind == 'gen':
        return '(WGen %s %s %s)' % (ps, init, '(Ok %s)' % r_sval(ob['ok']) if 'ok' in ob else '(Err EOther)')
    if kind == 'view':
        e = '(Ok (%s, %s))' % (r_vtree(ob['ok'][0]), r_sval(ob['ok'][1])) if 'ok' in ob else '(Err EOther)'
        return '(WView %s %s %s %s)' % (ps, init, cnat(c['i']), e)
    if kind == 'invert':
        e = '(Ok %s)' % r_utree(ob['ok']) if 'ok' in ob else '(Err EOther)'
        return '(WInvert true %s %s %s %s)' % (ps, cnat(c['i']), r_ulist(c['upd']), e)
    e = '(Ok %s)' % r_sval(ob['ok']) if 'ok' in ob else '(Err EOther)'
    return '(WApply %s %s %s %s %s)' % (ps, init, cnat(c['i']), r_ulist(c['upd']), e)


def stat_key(c, ob):
    return '%s/%s/procs=%d' % (c['kind'], 'ok' if 'ok' in ob else ob['err'].split(':')[0], len(c['procs']))


def nontrivial(c, ob):
    return 'ok' in ob and sum(len(p['topo']) for p in c['procs']) >= 2


def model_output(case, ob):
    return common.coq_eval('WIRE', IMPORTS, 'model_out %s' % render(case, ob))[:6000]
