"""C07 — a process sees exactly its declared variables, always from the current hierarchy."""
import random
from harness import common, wire, struct, live

FAMILY = 'wire (views) + struct (views after structural updates)'
RULE = ('wire stream: as C06, kind view: the topology view of a process as absolute paths and the states dict handed '
        'to it, compared with Model/Wire.v; struct stream: histories of structural updates (as C09) after each of '
        'which the view of an observing process wired to both colonies is rebuilt and compared with an independent '
        'projection of Engine.state.get_value(); live stream: the same kinds of histories issued from inside a running '
        'engine by a director process or a director step, while a process and two steps with glob ports (one in the '
        'director\'s layer, one after it), a glob-free probe wired to a node that is deleted and re-added under the '
        'same key within a tick, and a sensor inside every generated compartment wired upward through ".." log at every '
        'invocation the states they are handed next to the hierarchy at that moment. Non-trivial: >=2 ports (wire) / >=3 updates (struct).')
ASSUMPTIONS = __import__('harness.c06', fromlist=['x']).ASSUMPTIONS + [
    'the struct stream is decided by the oracle only (the model has no integrated wire+struct view); the proof part for it is that view is a function of the current store and that every structural operation sets the view_expire flag',
]
IMPORTS, CHECK_FN, BAD_TERM = wire.IMPORTS, wire.CHECK_FN, wire.BAD_TERM
def model_output(case, ob):
    if case['kind'] == 'live':
        return common.coq_eval('LIVE', live.IMPORTS, 'model_out_all %s' % live.render(case, ob))[:4000]
    return wire.model_output(case, ob)


def generate(seed, tier, enlarged=False):
    rng = random.Random(seed * 131 + 7)
    n = 200 if tier == 'quick' else 4000
    if enlarged:
        n *= 3
    wire.GLOBDICT_WEIGHT[0] = 2
    cases = wire.gen_cases(rng, n, ['view'], 3 if tier == 'quick' else 4)
    for i in range(n // 3):
        cases.append({'kind': 'structview', 'hist': struct.gen_history(rng, rng.randint(3, 8), allow_bad=False)})
    for i in range(n // 4):
        cases.append(live.gen_case(rng))
    # corpus: known finding K11 (a glob sub-variable declared by a process that enters at run time)
    cases += live.corpus_k11()
    return cases


def run_impl(c):
    if c['kind'] == 'live':
        return live.run_impl(c)
    if c['kind'] != 'structview':
        return wire.run_impl(c)
    import contextlib, io
    eng = struct.make_engine()
    holder = eng.state.get_path(('holder',))
    out = []
    import random as _r
    from vivarium.core.store import view_values
    for entry in c['hist']:
        col, ops = entry[0], entry[1]
        upd, seed = struct.py_update(col, ops)
        if seed is not None:
            _r.seed(seed)
        try:
            with contextlib.redirect_stdout(io.StringIO()):
                if eng.apply_update(upd, holder):
                    eng.state.build_topology_views()
        except Exception as e:
            out.append({'err': str(e)[:100]})
            break
        states = view_values(holder.topology_view)
        full = eng.state.get_value()
        out.append({'states': {k: {ck: cv for ck, cv in v.items()} for k, v in states.items()},
                    'proj': {col_: {ck: {'s': {'n': cv['s']['n']}} for ck, cv in full.get(col_, {}).items()
                                    if isinstance(cv, dict) and 's' in cv and 'n' in cv['s']}
                             for col_ in ('A', 'B')}})
    return {'ok': 1, 'views': out}


def render(c, ob):
    if c['kind'] not in ('structview', 'live'):
        return wire.render(c, ob)
    return None       # no model side for this stream


def vshape(d):
    if isinstance(d, dict):
        return {k: vshape(v) for k, v in d.items()}
    return None


def schema_shape(s, view):
    """the key structure the ports schema prescribes, given the children visible under globs"""
    if s == '**' or '$var' in s:
        return None
    n = s['$node']
    if n['out']:
        return {}
    out = {}
    for k, sub in n['c']:
        if k == '*':
            for kid, sv in (view or {}).items():
                out[kid] = schema_shape(sub, sv if isinstance(sv, dict) else {})
        else:
            out[k] = schema_shape(sub, (view or {}).get(k) if isinstance(view, dict) else None)
    return out


def oracle(c, ob, rng):
    msgs = []
    if c['kind'] == 'live':
        return live.oracle_raised(c, ob, rng) + live.oracle(c, ob, rng)
    if c['kind'] == 'structview':
        for i, v in enumerate(ob['views']):
            if 'err' in v:
                break
            if v['states'] != v['proj']:
                msgs.append(('after update %d the observer sees %r but the hierarchy holds %r'
                             % (i, v['states'], v['proj']), 'stale-view'))
                break
        return msgs
    if 'ok' not in ob:
        return msgs
    refs, vals = ob['ok']
    p = c['procs'][c['i']]
    # shape: exactly the declared ports / variables
    want = schema_shape(p['schema'], refs)
    have = vshape({k: (v if not (isinstance(v, list)) else None) for k, v in refs.items()})

    def strip(d):
        if isinstance(d, dict):
            return {k: strip(v) for k, v in d.items()}
        return None

    def refshape(d):
        if isinstance(d, list):
            return None
        return {k: refshape(v) for k, v in d.items()}
    if refshape(refs) != want:
        msgs.append(('the view has shape %r, the ports schema prescribes %r' % (refshape(refs), want), 'view-shape'))
    # values: every entry equals the current value of the node it refers to
    try:
        store = wire.build_store(c['procs'], c['init'])
        state = wire.dump_values(store)
    except Exception:
        return msgs

    def at(path):
        d = state
        for k in path:
            d = d[k]
        return d

    def chk(r, v, pre=()):
        if isinstance(r, list) and r[0] == 'ref':
            if at(r[1]) != v:
                msgs.append(('%r shows %r but the node %r holds %r' % (pre, v, r[1], at(r[1])), 'view-value'))
        elif isinstance(r, dict):
            for k in r:
                chk(r[k], v[k], pre + (k,))
    chk(refs, vals)
    return msgs[:2]


def stat_key(c, ob):
    if c['kind'] == 'live':
        return live.stat_key(c, ob)
    return 'structview' if c['kind'] == 'structview' else wire.stat_key(c, ob)


def nontrivial(c, ob):
    if c['kind'] == 'live':
        return live.nontrivial(c, ob)
    if c['kind'] == 'structview':
        return len(ob.get('views', [])) >= 3
    return wire.nontrivial(c, ob)


def run(cases, tier='quick', seed=0):
    me = __import__('harness.c07', fromlist=['x'])

    class Live:
        __name__ = 'harness.live'
        IMPORTS, CHECK_FN, BAD_TERM = live.IMPORTS, live.CHECK_FN, live.BAD_TERM
        run_impl, render = staticmethod(live.run_impl), staticmethod(live.render)
        oracle = staticmethod(lambda c, ob, rng: live.oracle_raised(c, ob, rng) + live.oracle(c, ob, rng))
        nontrivial, stat_key = staticmethod(live.nontrivial), staticmethod(live.stat_key)
    return common.merge_streams(cases, [
        (lambda c: c['kind'] != 'live', lambda cs: common.generic_run(me, cs, seed, shard=60)),
        (lambda c: c['kind'] == 'live', lambda cs: common.generic_run(Live, cs, seed, shard=20))])
