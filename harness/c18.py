"""C18 — timeseries and query views of emitted data lose nothing.
Family `ts`: timeseries_from_data / path_timeseries_from_data / RAMEmitter.get_data(query)
against Model/Timeseries.v."""
import copy
import random

from harness import common
from harness.common import cN, cZ, clist, cpair, cbool

FAMILY = 'ts'
RULE = ('raw-data histories of 1-12 rows over a random skeleton (depth<=4, 1-4 keys per level), leaves '
        'ints incl 0, bools, strings incl "", int lists incl [], None, quantities (integer magnitudes; '
        'one unit per variable); 80% rectangular, 20% ragged (a variable missing/added in some row); '
        'query sets of 0-4 paths incl absent paths, branch paths and paths through leaves. '
        'Non-trivial: >=2 rows and >=2 leaf paths; distinct by rendered term.')
ASSUMPTIONS = [
    'dict keys interned (<50 distinct) ; quantity columns keyed by (key, unit string) rendered with the model injection unit_key',
    'query correspondence uses plain (unit-less) values because RAMEmitter serialises rows before storing them',
    'all Python exceptions of these helpers are mapped to one error value',
    'query paths never continue below a string or list leaf (Python would run a substring/membership test there)',
]
IMPORTS = 'From Viv Require Import Base.Assoc Base.Tree Model.Paths Model.Timeseries Corr.C17c Corr.C18c.'
CHECK_FN = 'check_case'
BAD_TERM = '(SQuery [] [] [((0)%Z, Ok (Nd []))])'

KEYS = ['a', 'b', 'c', 'd', 'e', 'f']
UNITS = ['millimolar', 'femtogram', 'second']
STRS = ['', 'x', 'yy']


def gen_skeleton(rng, depth, top=True):
    n = rng.randint(1, 4)
    out = {}
    # below the top level a variable (or a store) may well be called 'time'
    for k in rng.sample(KEYS if top else KEYS + ['time', 'time'], n):
        if depth > 1 and rng.random() < 0.4:
            out[k] = gen_skeleton(rng, depth - 1, False)
        else:
            out[k] = rng.choice(['int', 'int', 'bool', 'str', 'list', 'none', 'qty:' + rng.choice(UNITS), 'mixed'])
    return out


def gen_leaf(rng, kind, plain):
    if kind == 'mixed':
        kind = rng.choice(['int', 'bool', 'str', 'list', 'none'])
    if kind == 'int':
        return rng.choice([0, 0, 1, -3, 7, 12345678901234567890])
    if kind == 'bool':
        return {'$b': rng.random() < 0.5}
    if kind == 'str':
        return {'$s': rng.choice(STRS)}
    if kind == 'list':
        return {'$l': [rng.randint(-2, 5) for _ in range(rng.choice([0, 0, 1, 3]))]}
    if kind == 'none':
        return {'$n': 1}
    if kind.startswith('qty:'):
        if plain:
            return rng.randint(-3, 9)
        return {'$q': [rng.choice([0, 1, -2, 5, 1000]), kind[4:]]}
    raise ValueError(kind)


def gen_row(rng, skel, plain):
    return {k: gen_row(rng, v, plain) if isinstance(v, dict) else gen_leaf(rng, v, plain)
            for k, v in skel.items()}


def leaf_paths(skel, prefix=()):
    out = []
    for k, v in skel.items():
        if isinstance(v, dict):
            out.extend(leaf_paths(v, prefix + (k,)))
        else:
            out.append(prefix + (k,))
    return out


def all_paths(skel, prefix=()):
    out = []
    for k, v in skel.items():
        out.append(prefix + (k,))
        if isinstance(v, dict):
            out.extend(all_paths(v, prefix + (k,)))
    return out


def generate(seed, tier, enlarged=False):
    rng = random.Random(seed * 15485863 + 18)
    n = 600 if tier == 'quick' else 12000
    if enlarged:
        n *= 3
    cases = [
        # corpus: the pinned-tree witness (falsy values dropped by the query)
        {'kind': 'query', 'data': [[0, {'a': 0, 'b': {'$b': False}, 'c': {'$s': ''}, 'd': {'$l': []}, 'e': 5}]],
         'q': [['a'], ['b'], ['c'], ['d'], ['e']]},
    ]
    for i in range(n):
        kind = ['embedded', 'pathts', 'query'][i % 3]
        skel = gen_skeleton(rng, rng.randint(1, 4))
        plain = kind == 'query'
        nrows = rng.randint(1, 12)
        data = []
        ragged = rng.random() < 0.2
        for t in range(nrows):
            row = gen_row(rng, skel, plain)
            if ragged and rng.random() < 0.4:
                ks = list(row.keys())
                if rng.random() < 0.5 and len(ks) > 1:
                    del row[rng.choice(ks)]
                else:
                    row[rng.choice(KEYS)] = rng.randint(0, 3)
            data.append([t, row])
        # distinct times with gaps; a quarter of the histories are not in increasing time order (two runs
        # sharing one emitter, the later window computed first)
        times = sorted(rng.sample(range(0, 3 * nrows + 1), nrows))
        if rng.random() < 0.25:
            rng.shuffle(times)
        for j, t in enumerate(times):
            data[j][0] = t
        c = {'kind': kind, 'data': data, 'rect': not ragged}
        if kind == 'query' and rng.random() < 0.4:
            c['twophase'] = True
        if kind == 'query':
            paths = all_paths(skel)
            q = []
            for _ in range(rng.randint(0, 4)):
                r = rng.random()
                if r < 0.7:
                    q.append(list(rng.choice(paths)))
                elif r < 0.85:
                    q.append([rng.choice(KEYS) for _ in range(rng.randint(1, 3))])
                else:
                    q.append(list(rng.choice(paths)) + [rng.choice(KEYS)])
            # a path below a str / list leaf is a substring / membership test in Python, not an
            # error: outside the model (strings and lists are atoms there)
            def below_seq(p):
                for _, row in data:
                    d = row
                    for i, k in enumerate(p):
                        if isinstance(d, dict) and not is_leaf_enc(d) and k in d:
                            d = d[k]
                        else:
                            break
                        if is_leaf_enc(d) and isinstance(d, dict) and ('$s' in d or '$l' in d) and i + 1 < len(p):
                            return True
                return False
            c['q'] = [p for p in q if not below_seq(p)]
        cases.append(c)
    return cases


# ------------------------------------------------------------------ python values

def to_py(v, units):
    if isinstance(v, dict):
        if set(v.keys()) == {'$b'}:
            return v['$b']
        if set(v.keys()) == {'$s'}:
            return v['$s']
        if set(v.keys()) == {'$l'}:
            return list(v['$l'])
        if set(v.keys()) == {'$n'}:
            return None
        if set(v.keys()) == {'$q'}:
            return v['$q'][0] * getattr(units, v['$q'][1])
        return {k: to_py(x, units) for k, x in v.items()}
    return v


def is_leaf_enc(v):
    return not isinstance(v, dict) or set(v.keys()) in ({'$b'}, {'$s'}, {'$l'}, {'$n'}, {'$q'})


def from_py(v):
    """python value -> JSON-able encoding (inverse of to_py for plain values)"""
    if isinstance(v, bool):
        return {'$b': v}
    if isinstance(v, int):
        return v
    if isinstance(v, str):
        return {'$s': v}
    if isinstance(v, list):
        return {'$l': v}
    if v is None:
        return {'$n': 1}
    if isinstance(v, dict):
        return {('%s|%s' % k if isinstance(k, tuple) else k): from_py(x) for k, x in v.items()}
    raise ValueError('unencodable %r' % (v,))


def enc_ets(d):
    if isinstance(d, dict):
        return {('%s|%s' % k if isinstance(k, tuple) else k): enc_ets(x) for k, x in d.items()}
    if isinstance(d, list):
        return {'$col': [from_py(x) for x in d]}
    raise ValueError('ets %r' % (d,))


def run_impl(c):
    from vivarium.core.emitter import timeseries_from_data, path_timeseries_from_data, RAMEmitter
    from vivarium.library.units import units
    data = {float(t): to_py(row, units) for t, row in c['data']}
    kind = c['kind']
    try:
        if kind == 'embedded':
            ts = timeseries_from_data(copy.deepcopy(data))
            # the embedded timeseries is the caller's: converting it to the path form must leave it as it is
            from vivarium.core.emitter import path_timeseries_from_embedded_timeseries
            kept = True
            try:
                before = copy.deepcopy(ts)
                path_timeseries_from_embedded_timeseries(ts)
                kept = ('time' in ts) and repr(before) == repr(ts)
            except Exception:
                pass                      # (ragged histories may be refused: not what is asked here)
            times = ts.pop('time') if 'time' in ts else None
            return {'ok': {'times': times, 'ts': enc_ets(ts)}, 'embedded_kept': kept}
        if kind == 'pathts':
            ts = path_timeseries_from_data(copy.deepcopy(data))
            times = ts.pop('time')
            return {'ok': {'times': times,
                           'cols': [[[('%s|%s' % k if isinstance(k, tuple) else k) for k in p],
                                     [from_py(x) for x in col]] for p, col in ts.items()]}}
    except Exception as e:
        return {'err': 'EOther', 'exc': repr(e)[:200]}
    if kind == 'query':
        em = RAMEmitter({})
        q = [tuple(p) for p in c['q']]
        if not q:
            return {'skip': 'empty query returns everything'}
        if c.get('twophase'):
            # every row arrives in two emits for its time (disjoint top-level keys), the same query being asked in
            # between: the later part must be in the later answer
            rest = {}
            for t, row in data.items():
                keys = sorted(row)
                first = {k: copy.deepcopy(row[k]) for k in keys[:max(1, len(keys) // 2)]}
                rest[t] = {k: copy.deepcopy(row[k]) for k in keys if k not in first}
                first['time'] = t
                em.emit({'table': 'history', 'data': first})
            try:
                em.get_data(q)
            except Exception as e:
                return {'err_all': repr(e)[:200]}
            for t, d in rest.items():
                d['time'] = t
                em.emit({'table': 'history', 'data': d})
        else:
            for t, row in data.items():
                d = copy.deepcopy(row)
                d['time'] = t
                em.emit({'table': 'history', 'data': d})
        out = []
        try:
            got = em.get_data(q)
        except Exception as e:
            return {'err_all': repr(e)[:200]}
        for t, row in got.items():
            out.append([t, {'ok': from_py(row)}])
        return {'rows': out}
    raise ValueError(kind)


# ------------------------------------------------------------------ oracle

def get_path(d, p):
    for k in p:
        if not isinstance(d, dict) or is_leaf_enc(d) or k not in d:
            return ('absent',)
        d = d[k]
    return ('v', d)


def oracle(c, ob, rng):
    msgs = []
    kind = c['kind']
    if kind == 'query' and 'rows' in ob:
        for (t, row), (t2, res) in zip(c['data'], ob['rows']):
            got = res.get('ok')
            for p in c['q']:
                want = get_path(row, p)
                have = get_path(got, p) if got is not None else ('absent',)
                # another queried path may be a prefix/extension of p: only check maximal agreement
                others = [q for q in c['q'] if q != p and (q[:len(p)] == p or p[:len(q)] == q)]
                if others:
                    continue
                if want != have:
                    msgs.append(('query %r at time %r returns %r, the emitted value is %r'
                                 % (p, t, have, want), 'query-drops-value'))
                    return msgs
    if kind == 'embedded' and ob.get('embedded_kept') is False:
        msgs.append(('converting an embedded timeseries to the path form changed the embedded timeseries itself '
                     '(its time vector is gone or a column differs)', 'input-mutated'))
    if kind in ('embedded', 'pathts') and c.get('rect') and 'ok' in ob:
        n = len(c['data'])
        if ob['ok']['times'] != [float(t) for t, _ in c['data']]:
            msgs.append(('time vector differs', 'ts-times'))
        if kind == 'embedded':
            # cell-by-cell reconstruction
            row0 = c['data'][0][1]
            for p in leaf_paths_enc(row0):
                col = find_col(ob['ok']['ts'], p, row0)
                want = [cell(get_path(r, p)[1]) for _, r in c['data']]
                if col != want:
                    msgs.append(('column %r is %r, raw data gives %r' % (p, col, want), 'ts-column'))
                    break
    if kind in ('embedded', 'pathts') and c.get('rect') and 'err' in ob:
        msgs.append(('rectangular history rejected: %s' % ob.get('exc'), 'ts-rejects-rect'))
    return msgs


def leaf_paths_enc(row, prefix=()):
    out = []
    for k, v in row.items():
        if is_leaf_enc(v):
            out.append(list(prefix + (k,)))
        else:
            out.extend(leaf_paths_enc(v, prefix + (k,)))
    return out


def cell(v):
    if isinstance(v, dict) and '$q' in v:
        return v['$q'][0]
    return v


def find_col(ts, p, row0):
    leaf = get_path(row0, p)[1]
    d = ts
    for k in p[:-1]:
        d = d.get(k, {})
    last = p[-1]
    if isinstance(leaf, dict) and '$q' in leaf:
        last = '%s|%s' % (last, leaf['$q'][1])
    col = d.get(last)
    if isinstance(col, dict) and '$col' in col:
        return col['$col']
    return col


# ------------------------------------------------------------------ rendering

class R:
    def __init__(self):
        self.names = common.Names(KEYS)
        self.units = common.Names(UNITS)
        self.strs = common.Names(STRS)

    def key(self, k):
        if '|' in k:
            base, unit = k.split('|', 1)
            return cN(1000 + 50 * self.names.get(base) + self.units.get(unit))
        n = self.names.get(k)
        assert n < 50
        return cN(n)

    def path(self, p):
        return clist([self.key(k) for k in p])

    def leaf(self, v):
        if isinstance(v, dict):
            if '$b' in v:
                return '(LB %s)' % cbool(v['$b'])
            if '$s' in v:
                return '(LS %s)' % cN(self.strs.get(v['$s']))
            if '$l' in v:
                return '(LL %s)' % clist([cZ(x) for x in v['$l']])
            if '$n' in v:
                return 'LNone'
            if '$q' in v:
                return '(LQ %s %s)' % (cZ(v['$q'][0]), cN(self.units.get(v['$q'][1])))
        if isinstance(v, int):
            return '(LZ %s)' % cZ(v)
        raise ValueError('leaf %r' % (v,))

    def row(self, d):
        if is_leaf_enc(d):
            return '(Lf %s)' % self.leaf(d)
        return '(Nd %s)' % clist([cpair(self.key(k), self.row(v)) for k, v in d.items()])

    def col(self, col):
        # a column: list of leaf encodings
        return clist([self.leaf(x) for x in col])

    def ets(self, d):
        if isinstance(d, dict) and set(d.keys()) == {'$col'}:
            return '(Lf %s)' % self.col(d['$col'])
        if isinstance(d, dict):
            return '(Nd %s)' % clist([cpair(self.key(k), self.ets(v)) for k, v in d.items()])
        raise ValueError('ets %r' % (d,))

    def data(self, data):
        return clist([cpair(cZ(int(t)), self.row(r)) for t, r in data])


def render(c, ob):
    r = R()
    kind = c['kind']
    if kind == 'embedded':
        if 'ok' in ob:
            e = '(Ok (%s, %s))' % (clist([cZ(int(t)) for t in ob['ok']['times']]), r.ets(ob['ok']['ts']))
        else:
            e = '(Err EOther)'
        return '(SEmbedded %s %s)' % (r.data(c['data']), e)
    if kind == 'pathts':
        if 'ok' in ob:
            cols = clist([cpair(r.path(p), r.col(col)) for p, col in ob['ok']['cols']])
            e = '(Ok (%s, %s))' % (clist([cZ(int(t)) for t in ob['ok']['times']]), cols)
        else:
            e = '(Err EOther)'
        return '(SPathTs %s %s)' % (r.data(c['data']), e)
    if kind == 'query':
        if 'skip' in ob:
            return '(SQuery [] [] [])'
        if 'err_all' in ob:
            return '(SQueryErr %s %s)' % (r.data(c['data']), clist([r.path(p) for p in c['q']]))
        rows = clist([cpair(cZ(int(t)), '(Ok %s)' % r.row(res['ok'])) for t, res in ob['rows']])
        return '(SQuery %s %s %s)' % (r.data(c['data']), clist([r.path(p) for p in c['q']]), rows)
    raise ValueError(kind)


def nontrivial(c, ob):
    return len(c['data']) >= 2 and len(leaf_paths_enc(c['data'][0][1])) >= 2


def stat_key(c, ob):
    tag = 'rect' if c.get('rect', True) else 'ragged'
    st = 'err' if ('err' in ob or 'err_all' in ob) else 'ok'
    return '%s/%s/%s' % (c['kind'], tag, st)


def run(cases, tier='quick', seed=0):
    return common.generic_run(__import__('harness.c18', fromlist=['x']), cases, seed)


def model_output(case, ob):
    t = render(case, ob)
    return {'model': common.coq_eval('C18', IMPORTS, 'model_out %s' % t),
            'agrees_with_pinned_model': common.coq_eval('C18', IMPORTS, 'check_case_pinned %s' % t)}
