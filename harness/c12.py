"""C12 — the emitted history is a faithful, ordered sequence of state snapshots (scheduler part;
the content of rows against flags/serializers is exercised by harness/c12 emit cases)."""
import random
from harness import common, sched

FAMILY = 'sched+emit'
RULE = ('as C01 with emit_step in {1, 2, 3, 0.5, 1.5}; every call of a user Emitter is recorded; rows are compared '
        'with the model rows (time, all accumulators). Non-trivial: >=2 invocations; distinct by term.')
ASSUMPTIONS = __import__('harness.c01', fromlist=['x']).ASSUMPTIONS
IMPORTS, CHECK_FN, BAD_TERM = sched.IMPORTS, sched.CHECK_FN, sched.BAD_TERM
PROPS = ('C12',)


def generate(seed, tier, enlarged=False):
    rng = random.Random(seed * 7 + 12)
    n = 300 if tier == 'quick' else 6000
    if enlarged:
        n *= 3
    cases = [
        # corpus: pinned-tree witness (emit_step 2, tick 5 -> rows at 5,5,10,10,10); K5 zero-interval update
        {'kind': 'sched', 'procs': [{'ts': ['const', 5.0], 'cond': ['true']}], 'calls': [[10.0, 'update']],
         'emit_step': 2, 't0': 0},
        {'kind': 'sched', 'procs': [{'ts': ['const', 1.0], 'cond': ['true']}], 'calls': [[1.0, 'update'], [0, 'update']],
         'emit_step': 1, 't0': 0},
    ]
    for i in range(n):
        cases.append(sched.gen_case(rng, max_procs=4 if tier == 'quick' else 8, scripted=False,
                                    emit_steps=(1, 2, 3, 0.5, 1.5)))
    return cases


def run(cases, tier='quick', seed=0):
    return sched.run_family(__import__('harness.c12', fromlist=['x']), cases, seed, PROPS)


model_output = sched.model_output
