"""C12 — the emitted history is a faithful, ordered sequence of state snapshots (scheduler part;
the content of rows against flags/serializers is exercised by harness/c12 emit cases)."""
import random
from harness import common, sched

FAMILY = 'sched+emit'
RULE = ('two streams.  rows: random Stores (depth<=4) with random emit flags, unset values and a custom serializer, '
        'optionally a store_schema-style config with branch-level _emit and set_emit_value calls: emit_data() compared with '
        'Model/Emit.v.  times: as C01 with emit_step in {1, 2, 3, 0.5, 1.5}; every call of a user Emitter is recorded; rows are compared '
        'with the model rows (time, all accumulators). Non-trivial: >=2 invocations; distinct by term.')
ASSUMPTIONS = __import__('harness.c01', fromlist=['x']).ASSUMPTIONS
IMPORTS, CHECK_FN, BAD_TERM = sched.IMPORTS, sched.CHECK_FN, sched.BAD_TERM
PROPS = ('C12',)


def generate(seed, tier, enlarged=False):
    rng = random.Random(seed * 7 + 12)
    n = 300 if tier == 'quick' else 6000
    if enlarged:
        n *= 3
    cases = [
        # corpus: pinned-tree witness (emit_step 2, tick 5 -> rows at 5,5,10,10,10); K5 zero-interval update
        {'kind': 'sched', 'procs': [{'ts': ['const', 5.0], 'cond': ['true']}], 'calls': [[10.0, 'update']],
         'emit_step': 2, 't0': 0},
        {'kind': 'sched', 'procs': [{'ts': ['const', 1.0], 'cond': ['true']}], 'calls': [[1.0, 'update'], [0, 'update']],
         'emit_step': 1, 't0': 0},
        # corpus: known finding K1 (rows out of order after a lagging re-poll)
        {'kind': 'sched', 'procs': [{'ts': ['script', [2.0, 0.5]], 'cond': ['true']}, {'ts': ['const', 1.0], 'cond': ['true']}],
         'calls': [[1.0, 'run'], [1.0, 'run'], [1.0, 'update']], 'emit_step': 1, 't0': 0},
    ]
    for i in range(n):
        cases.append(sched.gen_case(rng, max_procs=4 if tier == 'quick' else 8, scripted=False,
                                    emit_steps=(1, 2, 3, 0.5, 1.5)))
    from harness import emit
    for i in range(n):
        cases.append(emit.gen_case(rng))
    return cases


def run(cases, tier='quick', seed=0):
    """two streams with their own correspondence layers: scheduler traces and row contents"""
    from harness import emit
    sc = [(i, c) for i, c in enumerate(cases) if c['kind'] == 'sched']
    em = [(i, c) for i, c in enumerate(cases) if c['kind'] == 'emit']
    r1 = sched.run_family(__import__('harness.c12', fromlist=['x']), [c for _, c in sc], seed, PROPS)
    r2 = common.generic_run(emit, [c for _, c in em], seed, shard=200)
    obs = [None] * len(cases)
    out = {'observations': obs, 'oracle': [], 'corr_bad': [], 'corr_error': None, 'stats': {}, 'nontrivial': 0,
           'samples': r1['samples'][:2] + r2['samples'][:2]}
    for r, idx in ((r1, sc), (r2, em)):
        for j, (i, _) in enumerate(idx):
            obs[i] = r['observations'][j]
        out['oracle'] += [(idx[j][0], m, s) for j, m, s in r['oracle']]
        out['corr_bad'] += [idx[j][0] for j in r['corr_bad']]
        out['stats'].update(r['stats'])
        out['nontrivial'] += r['nontrivial']
        if r['corr_error']:
            out['corr_error'] = (out['corr_error'] or '') + r['corr_error']
    return out


def model_output(case, ob):
    if case['kind'] == 'emit':
        from harness import emit
        return common.coq_eval('EMIT', emit.IMPORTS, 'model_out %s' % emit.render(case, ob))[:3000]
    return sched.model_output(case, ob)
