"""C12 — the emitted history is a faithful, ordered sequence of state snapshots (scheduler part;
the content of rows against flags/serializers is exercised by harness/c12 emit cases)."""
import random
from harness import common, sched

FAMILY = 'sched+emit'
RULE = ('streams.  rows: random Stores (depth<=4) with random emit flags, unset values and a custom serializer, '
        'optionally a store_schema-style config with branch-level _emit and set_emit_value calls: emit_data() compared with '
        'Model/Emit.v.  times: as C01 with emit_step in {1, 2, 3, 0.5, 1.5}; every call of a user Emitter is recorded; rows are compared '
        'with the model rows (time, all accumulators). Non-trivial: >=2 invocations; distinct by term.')
ASSUMPTIONS = __import__('harness.c01', fromlist=['x']).ASSUMPTIONS
IMPORTS, CHECK_FN, BAD_TERM = sched.IMPORTS, sched.CHECK_FN, sched.BAD_TERM
PROPS = ('C12',)


def generate(seed, tier, enlarged=False):
    rng = random.Random(seed * 7 + 12)
    n = 300 if tier == 'quick' else 6000
    if enlarged:
        n *= 3
    cases = [
        # corpus: pinned-tree witness (emit_step 2, tick 5 -> rows at 5,5,10,10,10); K5 zero-interval update
        {'kind': 'sched', 'procs': [{'ts': ['const', 5.0], 'cond': ['true']}], 'calls': [[10.0, 'update']],
         'emit_step': 2, 't0': 0},
        {'kind': 'sched', 'procs': [{'ts': ['const', 1.0], 'cond': ['true']}], 'calls': [[1.0, 'update'], [0, 'update']],
         'emit_step': 1, 't0': 0},
        # corpus: known finding K1 (rows out of order after a lagging re-poll)
        {'kind': 'sched', 'procs': [{'ts': ['script', [2.0, 0.5]], 'cond': ['true']}, {'ts': ['const', 1.0], 'cond': ['true']}],
         'calls': [[1.0, 'run'], [1.0, 'run'], [1.0, 'update']], 'emit_step': 1, 't0': 0},
    ]
    for i in range(n):
        cases.append(sched.gen_case(rng, max_procs=4 if tier == 'quick' else 8, scripted=False,
                                    emit_steps=(1, 2, 3, 0.5, 1.5)))
    from harness import emit
    for i in range(n):
        cases.append(emit.gen_case(rng))
    # rows are snapshots: values kept as mutable objects, read back from the RAM emitter at different moments
    from harness import ramalias
    for i in range(n // 10):
        cases.append(ramalias.gen_case(rng))
    # who may change an emit flag (Model/EmitFlags.v)
    from harness import flags
    cases += flags.corpus()
    for i in range(n // 4):
        cases.append(flags.gen_case(rng))
    return cases


def run(cases, tier='quick', seed=0):
    """three streams: scheduler traces and row contents (each with its own correspondence layer), RAM snapshots"""
    from harness import emit, ramalias, flags

    class Ram:
        __name__ = 'harness.ramalias'
        IMPORTS, CHECK_FN, BAD_TERM = emit.IMPORTS, emit.CHECK_FN, emit.BAD_TERM
        run_impl, oracle = staticmethod(ramalias.run_impl), staticmethod(ramalias.oracle)
        nontrivial, stat_key = staticmethod(ramalias.nontrivial), staticmethod(ramalias.stat_key)
        render = staticmethod(lambda c, ob: None)
    me = __import__('harness.c12', fromlist=['x'])
    return common.merge_streams(cases, [
        (lambda c: c['kind'] == 'sched', lambda cs: sched.run_family(me, cs, seed, PROPS)),
        (lambda c: c['kind'] == 'emit', lambda cs: common.generic_run(emit, cs, seed, shard=200)),
        (lambda c: c['kind'] == 'ramalias', lambda cs: common.generic_run(Ram, cs, seed, shard=200)),
        (lambda c: c['kind'] == 'flags', lambda cs: common.generic_run(flags, cs, seed, shard=200))])


def model_output(case, ob):
    if case['kind'] == 'emit':
        from harness import emit
        return common.coq_eval('EMIT', emit.IMPORTS, 'model_out %s' % emit.render(case, ob))[:3000]
    if case['kind'] == 'flags':
        from harness import flags
        return common.coq_eval('FLAGS', flags.IMPORTS, 'model_out %s' % flags.render(case, ob))[:3000]
    return sched.model_output(case, ob)
