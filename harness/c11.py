"""C11 — division gives daughters what the dividers promise; daughters are independent."""
import contextlib
import copy
import io
import random

from harness import common, struct, divtree
from harness.common import cN, cZ, clist, cpair, cbool

FAMILY = 'divide'
RULE = ('fn: the registered divider functions on mother values (odd/even/zero/negative/>2^53 ints, dicts of 0-7 '
        'entries) with random.seed replayed for the remainder side and the observed binomial draw handed to the '
        'model; hist: structural histories rich in _divide (explicit daughters, inheriting daughters, explicit '
        'daughter initial states) compared with Model/Struct.v divide_value; indep: real Stores with mutable values '
        '(dicts under the default set divider, lists, dict_value variables), divided for 1-3 generations, one daughter '
        'then updated through every in-place updater and the sibling and the outside re-read. Non-trivial: see kinds.')
ASSUMPTIONS = [
    'random choices of the dividers are arguments of the model: random.choice is replayed from the seed, the binomial draw is observed',
    'float halves and quantities are exercised by the oracle only (conservation within 1 ulp), not by the model',
]
IMPORTS = ('From Viv Require Import Base.Assoc Base.Tree Model.Paths Model.Steps Model.Struct Model.StructC '
           'Model.Dividers Model.DivTree Corr.Structc Corr.C11c.')
CHECK_FN = 'Corr.C11c.check_case'
BAD_TERM = '(DSplitFn 0%Z true 1%Z 1%Z)'


def generate(seed, tier, enlarged=False):
    rng = random.Random(seed * 733 + 11)
    n = 400 if tier == 'quick' else 8000
    if enlarged:
        n *= 3
    cases = [
        {'kind': 'split', 'z': -3, 'seed': 1},                  # corpus: the pinned witnesses
        {'kind': 'split', 'z': 2 ** 53 + 3, 'seed': 2},
        {'kind': 'indep', 'mode': 'dict_set', 'gens': 1, 'seed': 3},
    ] + divtree.corpus()
    cases += [divtree.gen_case(rng) for _ in range(n // 3)]
    for i in range(n):
        r = i % 8
        if r < 3:
            z = rng.choice([0, 1, 2, 3, -1, -2, -3, -7, 10 ** 6 + 1, 2 ** 53 + rng.randint(1, 9), -(2 ** 60) - 1,
                            rng.randint(-100, 100)])
            cases.append({'kind': 'split', 'z': z, 'seed': rng.randint(0, 10 ** 6)})
        elif r == 3:
            cases.append({'kind': 'split_dict', 'd': [[rng.randint(0, 30), rng.randint(-5, 5)]
                                                      for _ in range(rng.randint(0, 7))]})
        elif r == 4:
            cases.append({'kind': 'binom', 'n': rng.choice([0, 1, 5, 10, 1000]), 'seed': rng.randint(0, 10 ** 6)})
        elif r in (5, 6):
            cases.append({'kind': 'hist', 'hist': struct.gen_history(
                rng, rng.randint(3, 8), allow_bad=False, only_kinds=['generate', 'divide', 'divide', 'add'])})
        else:
            cases.append({'kind': 'indep', 'mode': rng.choice(['dict_set', 'list_set', 'dict_value', 'float_split']),
                          'gens': rng.randint(1, 3), 'seed': rng.randint(0, 10 ** 6)})
    for c in cases:
        if c['kind'] == 'split_dict':
            seen, d = set(), []
            for k, v in c['d']:
                if k not in seen:
                    seen.add(k)
                    d.append([k, v])
            c['d'] = d
    return cases


def run_impl(c):
    from vivarium.core.registry import divider_registry
    kind = c['kind']
    if kind == 'split':
        random.seed(c['seed'])
        a, b = divider_registry.access('split')(c['z'])
        return {'ok': [int(a), int(b)]}
    if kind == 'split_dict':
        d1, d2 = divider_registry.access('split_dict')({k: v for k, v in c['d']})
        return {'ok': [[[k, v] for k, v in d1.items()], [[k, v] for k, v in d2.items()]]}
    if kind == 'binom':
        import numpy as np
        np.random.seed(c['seed'] % (2 ** 31))
        a, b = divider_registry.access('binomial')(c['n'])
        return {'ok': [int(a), int(b)]}
    if kind == 'hist':
        return struct.run_impl(c)
    if kind == 'btree':
        return divtree.run_impl(c)
    return run_indep(c)


def run_indep(c):
    """real division, then in-place updates to one daughter; is the sibling (or the outside) affected?"""
    from vivarium.core.store import Store
    from vivarium.core.process import Process
    rng = random.Random(c['seed'])
    mode = c['mode']

    if mode == 'dict_set':
        leaf = {'_default': {'k': {'a': 1}, 'm': [1, 2]}, '_updater': 'dict_value'}
    elif mode == 'list_set':
        leaf = {'_default': [1, 2, 3], '_updater': 'set'}
    elif mode == 'dict_value':
        leaf = {'_default': {'p': {'q': 1}}, '_updater': 'dict_value'}
    else:
        leaf = {'_default': rng.choice([1.0, 3.0, 0.5, 7.25]), '_updater': 'accumulate', '_divider': 'split'}
    n0 = rng.choice([5, 8, 11, -3])

    class Inner(Process):
        def ports_schema(self):
            return {'st': {'val': copy.deepcopy(leaf), 'n': {'_default': n0, '_divider': 'split'}}}

        def next_update(self, ts, states):
            return {}

    class Outside(Process):
        def ports_schema(self):
            return {'o': {'outside': {'_default': 7}}}

        def next_update(self, ts, states):
            return {}
    from vivarium.core.store import generate_state
    store = generate_state({'agents': {'m0': {'proc': Inner()}}, 'out': Outside()},
                           {'agents': {'m0': {'proc': {'st': ('st',)}}}, 'out': {'o': ()}}, {})
    VAL, NN = ('st', 'val'), ('st', 'n')
    problems = []
    mothers = ['m0']
    counter = 0
    for g in range(c['gens']):
        m = mothers.pop(0)
        before = copy.deepcopy(store.get_path(('agents', m) + VAL).get_value())
        nb = store.get_path(('agents', m) + NN).get_value()
        d1, d2 = 'd%d' % counter, 'd%d' % (counter + 1)
        counter += 2
        random.seed(rng.randint(0, 10 ** 6))
        with contextlib.redirect_stdout(io.StringIO()):
            store.apply_update({'agents': {'_divide': {'mother': m, 'daughters': [{'key': d1}, {'key': d2}]}}})
        s1, s2 = store.get_path(('agents', d1)), store.get_path(('agents', d2))
        v1, v2 = s1.get_path(VAL).get_value(), s2.get_path(VAL).get_value()
        n1, n2 = s1.get_path(NN).get_value(), s2.get_path(NN).get_value()
        if n1 + n2 != nb or abs(n1 - n2) > 1:
            problems.append(('split of %r gave %r and %r' % (nb, n1, n2), 'split-not-conserved'))
        if mode == 'float_split':
            if abs((v1 + v2) - before) > 1e-12:
                problems.append(('float split of %r gave %r and %r' % (before, v1, v2), 'split-not-conserved'))
        else:
            if v1 != before or v2 != before:
                problems.append(('set divider did not copy the value: %r / %r from %r' % (v1, v2, before), 'set-not-copied'))
            if v1 is v2 and isinstance(v1, (dict, list)):
                problems.append(('the two daughters hold the very same %s object' % type(v1).__name__, 'daughters-share-object'))
        p1, p2 = s1.get_path(('proc',)).value, s2.get_path(('proc',)).value
        if p1 is p2:
            problems.append(('the two daughters hold the same process instance', 'daughters-share-process'))
        # update one daughter in place; the sibling and the outside must not change
        sib_before = copy.deepcopy(v2)
        out_before = store.get_path(('outside',)).get_value()
        try:
            if mode in ('dict_set', 'dict_value'):
                key = next(iter(v1)) if v1 else None
                upd = {'_add': [{'key': 'zz', 'state': {'n': 1}}]}
                if key is not None and isinstance(v1[key], dict):
                    upd[key] = {'touched': 99}
                store.apply_update({'agents': {d1: {'st': {'val': upd}}}})
            elif mode == 'list_set':
                v1.append(42)         # what an in-place user updater would do
            else:
                store.apply_update({'agents': {d1: {'st': {'val': 1.5}}}})
        except Exception as e:
            problems.append(('updating a daughter raised %s' % type(e).__name__, 'daughter-update-raised'))
        if s2.get_path(VAL).get_value() != sib_before:
            problems.append(('an update of daughter %s changed its sibling: %r -> %r'
                             % (d1, sib_before, s2.get_path(VAL).get_value()), 'daughters-share-object'))
        if store.get_path(('outside',)).get_value() != out_before:
            problems.append(('an update of a daughter changed a variable outside the compartment', 'outside-changed'))
        mothers.extend([d1, d2])
        if problems:
            break
    return {'ok': 1, 'problems': problems}


def oracle(c, ob, rng):
    kind = c['kind']
    msgs = []
    if kind == 'split' and 'ok' in ob:
        a, b = ob['ok']
        if a + b != c['z'] or abs(a - b) > 1:
            msgs.append(('split of %d gives %d and %d (sum %d)' % (c['z'], a, b, a + b), 'split-not-conserved'))
    elif kind == 'split_dict' and 'ok' in ob:
        d1, d2 = ob['ok']
        if sorted(map(tuple, d1 + d2)) != sorted(map(tuple, c['d'])) or abs(len(d1) - len(d2)) > 1:
            msgs.append(('split_dict does not partition the entries evenly', 'split-dict-partition'))
    elif kind == 'binom' and 'ok' in ob:
        a, b = ob['ok']
        if a + b != c['n'] or not (0 <= a <= c['n']):
            msgs.append(('binomial division of %d gives %d and %d' % (c['n'], a, b), 'binomial-not-conserved'))
    elif kind == 'indep':
        msgs.extend(ob['problems'][:2])
    elif kind == 'btree':
        msgs.extend(divtree.oracle(c, ob, rng))
    elif kind == 'hist':
        # conservation of s.n through every division of the history (explicit initial states excepted)
        prev = None
        for (col, ops), o in zip([(e[0], e[1]) for e in c['hist']], ob['obs']):
            if 'err' in o:
                break
            for op in ops:
                if op[0] == 'divide' and prev is not None:
                    try:
                        mother = prev['tree'][2][col][2][op[1]][2]['s'][2]['n'][2]
                    except Exception:
                        continue
                    got = []
                    for dk, ck, init in op[2]:
                        if init:
                            got = None
                            break
                        try:
                            got.append(o['tree'][2][col][2][dk][2]['s'][2]['n'][2])
                        except Exception:
                            got = None
                            break
                    if got and (sum(got) != mother or abs(got[0] - got[1]) > 1):
                        msgs.append(('mother %r had s.n = %r, daughters got %r' % (op[1], mother, got), 'split-not-conserved'))
            prev = o
    return msgs


def render(c, ob):
    kind = c['kind']
    if kind == 'split':
        r = random.Random(c['seed'])
        first = r.choice([True, False])
        return '(DSplitFn %s %s %s %s)' % (cZ(c['z']), cbool(first), cZ(ob['ok'][0]), cZ(ob['ok'][1]))
    if kind == 'split_dict':
        f = lambda d: clist([cpair(cN(k), cZ(v)) for k, v in d])
        return '(DSplitDictFn %s %s %s)' % (f(c['d']), f(ob['ok'][0]), f(ob['ok'][1]))
    if kind == 'binom':
        return '(DBinomFn %s %s %s %s)' % (cZ(c['n']), cZ(ob['ok'][0]), cZ(ob['ok'][0]), cZ(ob['ok'][1]))
    if kind == 'hist':
        return '(DHist %s)' % struct.render(c, ob)
    if kind == 'btree':
        return divtree.render(c, ob)
    return '(DSplitFn 0%Z true 0%Z 0%Z)'


def nontrivial(c, ob):
    if c['kind'] == 'btree':
        return 'obs' in ob and any('d' in o and o['d'][0] != o['d'][1] for o in ob['obs'])
    return c['kind'] != 'hist' or len(ob.get('obs', [])) >= 3


def stat_key(c, ob):
    return c['kind'] + ('/' + c['mode'] if c['kind'] == 'indep' else '')


def run(cases, tier='quick', seed=0):
    return common.generic_run(__import__('harness.c11', fromlist=['x']), cases, seed, shard=60)


def model_output(case, ob):
    return common.coq_eval('C11', IMPORTS, 'Corr.C11c.model_out %s' % render(case, ob))[:3000]
