"""C08 — updates are combined with the current value by the declared updater.
Family `leaf`: registered updater functions and the value part of Store.apply_update against
Model/Updaters.v; reference oracle written from the docstrings."""
import copy
import random

from harness import common
from harness.common import cN, cZ, clist, cpair, copt

FAMILY = 'leaf'
RULE = ('fun: every registered updater (and two user functions) on random values of its domain and of '
        'wrong types (ints incl. huge/negative, lists, int arrays, nested dicts, quantities in mg/g/kg with '
        'integer magnitudes); apply: random Store trees (depth<=3) with 1-6 declared variables x batches of '
        '1-5 updates incl. _multi_update at leaf and branch level, per-update _updater/_value overrides, '
        'keys that are not children, and ill-typed updates (error stream). Non-trivial: at least one '
        'variable receives an update; distinct by rendered term.')
ASSUMPTIONS = [
    'values: Python ints, int lists, 1-d integer numpy arrays, nested dicts with int leaves, pint quantities with integer magnitudes in mg/g/kg and variables declared in the smallest unit (so float arithmetic is exact)',
    'every exception is one error value; float rounding, numpy broadcasting of mismatched shapes and _reduce are outside the model',
    'None inside a merged dict is rendered as the integer -999999',
]
IMPORTS = 'From Viv Require Import Base.Assoc Base.Tree Model.Paths Model.Updaters Corr.C17c Corr.C08c.'
CHECK_FN = 'check_case'
BAD_TERM = '(UFun Set_ (UZ 0%Z) (UZ 0%Z) (Some (UZ 1%Z)))'

KEYS = ['a', 'b', 'c', 'd', 'e']
UPDATERS = ['accumulate', 'set', 'null', 'merge', 'nonnegative_accumulate', 'dict_value', 'user_sub', 'user_max']
COQ_UPD = {'accumulate': 'Accumulate', 'set': 'Set_', 'null': 'Null', 'merge': 'Merge',
           'nonnegative_accumulate': 'NonnegAccumulate', 'dict_value': 'DictValue',
           'user_sub': 'UserSub', 'user_max': 'UserMax'}
UNITS = {'mg': 1, 'g': 1000, 'kg': 1000000}
NONE_Z = -999999


# ------------------------------------------------------------------ generation

def gen_int(rng):
    return rng.choice([0, 1, -1, 5, -7, 12, 2 ** 70, -2 ** 65, rng.randint(-50, 50)])


def gen_dict(rng, depth=2):
    n = rng.randint(0, 3)
    return {k: (gen_dict(rng, depth - 1) if depth > 0 and rng.random() < 0.35 else rng.randint(-9, 9))
            for k in rng.sample(KEYS, n)}


def gen_val(rng, kind):
    if kind == 'int':
        return gen_int(rng)
    if kind == 'list':
        return {'$list': [rng.randint(-3, 9) for _ in range(rng.randint(0, 3))]}
    if kind == 'arr':
        return {'$arr': [rng.randint(-9, 9) for _ in range(3)]}
    if kind == 'arr2':
        return {'$arr': [rng.randint(-9, 9) for _ in range(2)]}
    if kind == 'dict':
        return {'$dict': gen_dict(rng)}
    if kind == 'dictd':     # dict of dicts, for dict_value
        return {'$dict': {k: {k2: rng.randint(0, 5) for k2 in rng.sample(KEYS, rng.randint(0, 2))}
                          for k in rng.sample(KEYS, rng.randint(0, 3))}}
    if kind.startswith('qty'):
        return {'$q': [rng.choice([0, 1, -2, 5, 40]), rng.choice(list(UNITS)) if kind == 'qty' else kind[4:]]}
    raise ValueError(kind)


KIND_FOR = {
    'accumulate': ['int', 'int', 'list', 'arr', 'qty'],
    'set': ['int', 'list', 'dict', 'arr', 'qty'],
    'null': ['int', 'dict'],
    'merge': ['dict'],
    'nonnegative_accumulate': ['int', 'int', 'arr', 'qty'],
    'dict_value': ['dictd'],
    'user_sub': ['int'],
    'user_max': ['int'],
}


def gen_dv(rng, cur):
    ops = []
    keys = list(cur.keys())
    for _ in range(rng.randint(1, 3)):
        r = rng.random()
        if r < 0.35:
            ops.append(['add', [[rng.choice(KEYS), {k: rng.randint(0, 5) for k in rng.sample(KEYS, rng.randint(0, 2))}]
                                for _ in range(rng.randint(1, 2))]])
        elif r < 0.6:
            ops.append(['del', [rng.choice(keys) if keys and rng.random() < 0.8 else rng.choice(KEYS)]])
        else:
            k = rng.choice(keys) if keys and rng.random() < 0.85 else rng.choice(KEYS)
            ops.append(['key', k, {k2: rng.randint(0, 9) for k2 in rng.sample(KEYS, rng.randint(0, 2))}])
    # a Python dict has one '_add' and one '_delete' key at most, and distinct plain keys
    seen, out = set(), []
    for op in ops:
        tag = op[0] if op[0] != 'key' else 'key:' + op[1]
        if tag not in seen:
            seen.add(tag)
            out.append(op)
    return out


def gen_leaf_update(rng, leaf, allow_multi=True):
    upd = leaf['updater']
    kind = leaf['kind']
    r = rng.random()
    if allow_multi and r < 0.15:
        return {'$multi': [gen_leaf_update(rng, leaf, False) for _ in range(rng.randint(1, 3))]}
    if r < 0.3 and upd != 'dict_value':
        f = rng.choice(['accumulate', 'set', 'null', 'nonnegative_accumulate'] + (['user_sub'] if kind == 'int' else []))
        if f == 'nonnegative_accumulate' and kind in ('list', 'dict'):
            f = 'set'
        w = {'f': f}
        if rng.random() < 0.8:
            w['v'] = gen_val(rng, kind)
        return {'$with': w}
    if upd == 'dict_value':
        return {'$dv': gen_dv(rng, leaf['value']['$dict'])}
    if rng.random() < 0.06 and upd not in ('set', 'null'):
        # ill-typed updates that Python rejects too (numpy would broadcast array + list)
        bad = {'int': ['list', 'dict'], 'list': ['int', 'dict'], 'arr': ['dict'], 'dict': ['int'],
               'qty:mg': ['list']}.get(kind)
        if bad:
            return gen_val(rng, rng.choice(bad))
    if kind.startswith('qty'):
        return gen_val(rng, 'qty')
    return gen_val(rng, kind)


def gen_store(rng, depth, leaves, prefix=()):
    node = {}
    for k in rng.sample(KEYS, rng.randint(1, 3)):
        if depth > 1 and rng.random() < 0.08:
            node[k] = {'$br': {}}          # a store that holds no child at the moment (F27)
        elif depth > 1 and rng.random() < 0.4:
            node[k] = {'$br': gen_store(rng, depth - 1, leaves, prefix + (k,))}
        else:
            upd = rng.choice(UPDATERS)
            kind = rng.choice(KIND_FOR[upd])
            units = None
            if kind == 'qty':
                kind, units = 'qty:mg', 'mg'
            v = gen_val(rng, kind)
            leaf = {'updater': upd, 'kind': kind, 'units': units, 'default': gen_val(rng, kind), 'value': v}
            node[k] = {'$leaf': leaf}
            leaves.append((prefix + (k,), leaf))
    return node


def gen_branch_update(rng, store, top=True):
    if top and rng.random() < 0.12:
        return {'$multi': [gen_branch_update(rng, store, False) for _ in range(rng.randint(1, 3))]}
    out = {}
    for k, n in store.items():
        if rng.random() < 0.6:
            if '$br' in n:
                out[k] = gen_branch_update(rng, n['$br'], True)
            else:
                out[k] = gen_leaf_update(rng, n['$leaf'])
    if rng.random() < 0.2:
        out['zz'] = 3             # not a child: ignored
    return {'$branch': out}


def generate(seed, tier, enlarged=False):
    rng = random.Random(seed * 32452843 + 8)
    n = 700 if tier == 'quick' else 15000
    if enlarged:
        n *= 3
    cases = [
        # corpus: pinned-tree witness for merge
        {'kind': 'fun', 'f': 'merge', 'v': {'$dict': {'a': 1, 'b': 2}}, 'u': {'$dict': {'b': 3, 'c': 4}}},
        {'kind': 'fun', 'f': 'merge', 'v': {'$dict': {'a': {'a': 1}, 'b': 2}}, 'u': {'$dict': {'a': {'b': 5}}}},
    ]
    # corpus: successive merge updates that meet in a nested dict which an earlier update introduced
    # (the store then holds the first update's own sub-dict; a merge in place rewrites that update object)
    def mleaf(v):
        return {'$leaf': {'updater': 'merge', 'kind': 'dict', 'units': None, 'default': {'$dict': {}}, 'value': {'$dict': v}}}
    cases.append({'kind': 'apply', 'store': {'a': mleaf({})},
                  'ups': [{'$branch': {'a': {'$dict': {'c': {'d': 1}}}}}, {'$branch': {'a': {'$dict': {'c': {'e': 9}}}}}]})
    cases.append({'kind': 'apply', 'store': {'b': {'$br': {'a': mleaf({'e': 2})}}},
                  'ups': [{'$branch': {'b': {'$branch': {'a': {'$dict': {'c': {'d': {'a': 1}}}}}}}},
                          {'$branch': {'b': {'$multi': [{'$branch': {'a': {'$dict': {'c': {'d': {'b': 2}}}}}},
                                                        {'$branch': {'a': {'$dict': {'c': {'e': 3}}}}}]}}}]})
    # corpus: a batch (_multi_update) on a nonnegative_accumulate variable that dips below zero on the way
    cases.append({'kind': 'apply', 'store': {'a': {'$leaf': {'updater': 'nonnegative_accumulate', 'kind': 'int', 'units': None,
                                                             'default': 0, 'value': 4}}},
                  'ups': [{'$branch': {'a': {'$multi': [-10, 2, 3]}}}, {'$branch': {'a': {'$multi': [1, -9, 4]}}}]})
    # units normalisation when the value was installed (set_value / initial state) in another unit than the
    # declared one (oracle only: magnitudes chosen so that the float arithmetic is exact)
    for i in range(n // 30):
        cases.append({'kind': 'unitsinit', 'declared': rng.choice(['g', 'mg']), 'init_kg': rng.randint(1, 9),
                      'ups': [[rng.choice([125, 250, 500, 1000, 2000]), rng.choice(['declared', 'declared', 'kg'])]
                              for _ in range(rng.randint(1, 4))],
                      'updater': rng.choice(['accumulate', 'nonnegative_accumulate', 'set', 'set'])})
    # '_reduce' updates (a reduction over a subtree assigned through the updater in force: the one named by the
    # update's own '_updater' if there is one, else the declared one) - oracle only
    for i in range(max(4, n // 40)):
        cases.append({'kind': 'reduce', 'declared': rng.choice(['accumulate', 'set']),
                      'named': rng.choice([None, 'set', 'accumulate']), 'v0': rng.randint(0, 5),
                      'masses': [rng.randint(1, 9) for _ in range(rng.randint(1, 4))], 'rounds': rng.randint(2, 3)})
    for i in range(n):
        if i % 3 == 0:
            f = rng.choice(UPDATERS)
            if f == 'dict_value':
                v = gen_val(rng, 'dictd')
                cases.append({'kind': 'dvfun', 'v': v, 'u': gen_dv(rng, v['$dict'])})
                continue
            kind = rng.choice(KIND_FOR[f])
            k2 = kind
            if rng.random() < 0.15 and not f.startswith('user_'):
                # ill-typed pairs that Python rejects as well (numpy broadcasting and pint's
                # special treatment of 0 are outside the model)
                k2 = rng.choice({'int': ['list', 'dict'], 'list': ['int', 'dict'], 'arr': ['dict', 'arr2'],
                                 'dict': ['int', 'list'], 'qty': ['list', 'dict']}[kind])
            v, u = gen_val(rng, 'qty:mg' if kind == 'qty' else kind), gen_val(rng, k2)
            # numpy int64 overflow is outside the model: no huge scalars next to arrays
            if isinstance(v, dict) and '$arr' in v and isinstance(u, int) and abs(u) >= 2 ** 40:
                u = 3
            if isinstance(u, dict) and '$arr' in u and isinstance(v, int) and abs(v) >= 2 ** 40:
                v = -2
            cases.append({'kind': 'fun', 'f': f, 'v': v, 'u': u})
        else:
            leaves = []
            store = gen_store(rng, rng.randint(1, 3), leaves)
            ups = [gen_branch_update(rng, store) for _ in range(rng.randint(1, 5))]
            cases.append({'kind': 'apply', 'store': store, 'ups': ups})
    return cases


# ------------------------------------------------------------------ python side

def user_sub(v, u):
    return v - u


def user_max(v, u):
    return max(v, u)


def dec_val(v, np, units):
    if isinstance(v, dict):
        if '$list' in v:
            return list(v['$list'])
        if '$arr' in v:
            return np.array(v['$arr'], dtype=np.int64) if all(abs(x) < 2 ** 62 for x in v['$arr']) else np.array(v['$arr'], dtype=object)
        if '$dict' in v:
            return copy.deepcopy(v['$dict'])
        if '$q' in v:
            return v['$q'][0] * getattr(units, v['$q'][1])
        if '$none' in v:
            return None
    return v


def enc_val(x, np):
    from pint import Quantity
    if isinstance(x, Quantity):
        m = x.magnitude
        if float(m) != int(m):
            raise ValueError('non-integral magnitude %r' % (x,))
        u = {'milligram': 'mg', 'gram': 'g', 'kilogram': 'kg'}[str(x.units)]
        return {'$q': [int(m), u]}
    if isinstance(x, np.ndarray):
        return {'$arr': [int(y) for y in x.tolist()]}
    if isinstance(x, (bool,)):
        raise ValueError('bool')
    if isinstance(x, (int, np.integer)):
        return int(x)
    if isinstance(x, list):
        return {'$list': [int(y) for y in x]}
    if isinstance(x, dict):
        return {'$dict': enc_dict(x)}
    if x is None:
        return {'$none': 1}
    raise ValueError('unencodable %r' % (x,))


def enc_dict(d):
    out = {}
    for k, v in d.items():
        if isinstance(v, dict):
            out[k] = enc_dict(v)
        elif v is None:
            out[k] = NONE_Z
        else:
            out[k] = int(v)
    return out


def get_fun(name):
    from vivarium.core.registry import updater_registry
    if name == 'user_sub':
        return user_sub
    if name == 'user_max':
        return user_max
    return updater_registry.access(name)


def dec_dv(ops):
    u = {}
    for op in ops:
        if op[0] == 'add':
            u['_add'] = [{'key': k, 'state': copy.deepcopy(s)} for k, s in op[1]]
        elif op[0] == 'del':
            u['_delete'] = list(op[1])
        else:
            u[op[1]] = copy.deepcopy(op[2])
    return u


def dec_update(u, np, units):
    if isinstance(u, dict):
        if '$multi' in u:
            return {'_multi_update': [dec_update(x, np, units) for x in u['$multi']]}
        if '$branch' in u:
            return {k: dec_update(x, np, units) for k, x in u['$branch'].items()}
        if '$with' in u:
            w = u['$with']
            out = {'_updater': w['f'] if not w['f'].startswith('user_') else get_fun(w['f'])}
            if 'v' in w:
                out['_value'] = dec_val(w['v'], np, units)
            return out
        if '$dv' in u:
            return dec_dv(u['$dv'])
    return dec_val(u, np, units)


def dec_store(node, np, units):
    out = {}
    for k, n in node.items():
        if '$br' in n:
            out[k] = dec_store(n['$br'], np, units)
        else:
            lf = n['$leaf']
            cfg = {'_default': dec_val(lf['default'], np, units), '_value': dec_val(lf['value'], np, units),
                   '_updater': lf['updater'] if not lf['updater'].startswith('user_') else get_fun(lf['updater'])}
            if lf['units']:
                cfg['_units'] = getattr(units, lf['units'])
            out[k] = cfg
    return out


def dump(store, np):
    if store.inner or not store.leaf:          # (a store without children is still a branch)
        return {'$br': {k: dump(v, np) for k, v in store.inner.items()}}
    return {'$val': enc_val(store.value, np)}


def same(a, b, np):
    """structural equality that understands arrays and quantities"""
    if isinstance(a, dict) and isinstance(b, dict):
        return a.keys() == b.keys() and all(same(a[k], b[k], np) for k in a)
    if isinstance(a, list) and isinstance(b, list):
        return len(a) == len(b) and all(same(x, y, np) for x, y in zip(a, b))
    if isinstance(a, np.ndarray) or isinstance(b, np.ndarray):
        return isinstance(a, np.ndarray) and isinstance(b, np.ndarray) and np.array_equal(a, b)
    if callable(a) and callable(b):
        return a is b
    try:
        return bool(a == b) and type(a) == type(b)
    except Exception:
        return False


def run_impl(c):
    import numpy as np
    from vivarium.library.units import units
    from vivarium.core.store import Store
    if c['kind'] == 'fun':
        f = get_fun(c['f'])
        v, u = dec_val(c['v'], np, units), dec_val(c['u'], np, units)
        u0 = copy.deepcopy(u)
        try:
            r = f(v, u)
            return {'ok': enc_val(r, np), 'update_mutated': not same(u, u0, np)}
        except Exception as e:
            return {'err': type(e).__name__}
    if c['kind'] == 'dvfun':
        f = get_fun('dict_value')
        v, u = dec_val(c['v'], np, units), dec_dv(c['u'])
        u0 = copy.deepcopy(u)
        try:
            r = f(v, u)
            return {'ok': enc_val(r, np), 'update_mutated': u != u0}
        except Exception as e:
            return {'err': type(e).__name__}
    if c['kind'] == 'reduce':
        cfg = {'cells': {'k%d' % i: {'mass': {'_default': m, '_updater': 'accumulate'}} for i, m in enumerate(c['masses'])},
               'total': {'_default': c['v0'], '_updater': c['declared']}}
        store = Store(cfg)
        store.apply_defaults()

        def add_masses(value, path, node):
            return value + node.value if node.leaf and isinstance(node.value, int) else value
        seen = []
        for r in range(c['rounds']):
            upd = {'_reduce': {'from': ('..', 'cells'), 'initial': 0, 'reducer': add_masses}}
            if c['named']:
                upd['_updater'] = c['named']
            store.apply_update({'total': upd})
            seen.append(store.get_path(('total',)).value)
            store.apply_update({'cells': {'k0': {'mass': 1}}})
        return {'ok': 1, 'seen': seen}
    if c['kind'] == 'unitsinit':
        du = getattr(units, c['declared'])
        store = Store({'m': {'_default': 0 * du, '_units': du, '_updater': c['updater']}})
        store.apply_defaults()
        store.set_value({'m': c['init_kg'] * units.kg})            # as an initial state does: no conversion
        seen = []
        touched = []
        for mag, u in c['ups']:
            q = mag * (du if u == 'declared' else units.kg)
            was = (q.magnitude, str(q.units))
            store.apply_update({'m': q})
            v = store.get_path(('m',)).value
            seen.append([str(v.units), float(v.to('mg').magnitude)])
            # the update handed in is the caller's object: same magnitude, same units afterwards (== would not
            # tell: 2 kg == 2000 g)
            if (q.magnitude, str(q.units)) != was:
                touched.append('%r %s -> %r %s' % (was + (q.magnitude, str(q.units))))
        return {'ok': 1, 'seen': seen, 'touched': touched}
    store = Store(dec_store(c['store'], np, units))
    mutated = False
    try:
        handed = []
        for u in c['ups']:
            pu = dec_update(u, np, units)
            pu0 = copy.deepcopy(pu)
            handed.append((pu, pu0))
            store.apply_update(pu)
            # no update object handed in so far may have changed (a later update can reach an
            # earlier one through a value the store kept by reference)
            if not all(same(a, a0, np) for a, a0 in handed):
                mutated = True
        return {'ok': dump(store, np), 'update_mutated': mutated}
    except Exception as e:
        return {'err': type(e).__name__, 'msg': str(e)[:200]}


# ------------------------------------------------------------------ reference oracle (from the docstrings)

class RefErr(Exception):
    pass


def ref_add(v, u):
    if isinstance(v, int) and isinstance(u, int):
        return v + u
    if isinstance(v, dict) and isinstance(u, dict):
        if '$list' in v and '$list' in u:
            return {'$list': v['$list'] + u['$list']}
        if '$arr' in v and '$arr' in u and len(v['$arr']) == len(u['$arr']):
            return {'$arr': [x + y for x, y in zip(v['$arr'], u['$arr'])]}
        if '$q' in v and '$q' in u:
            sv, su = UNITS[v['$q'][1]], UNITS[u['$q'][1]]
            if su % sv:
                raise RefErr('inexact')
            return {'$q': [v['$q'][0] + u['$q'][0] * (su // sv), v['$q'][1]]}
    if isinstance(v, dict) and '$arr' in v and isinstance(u, int):
        return {'$arr': [x + u for x in v['$arr']]}
    if isinstance(u, dict) and '$arr' in u and isinstance(v, int):
        return {'$arr': [v + x for x in u['$arr']]}
    raise RefErr('type')


def ref_deep_merge(a, b):
    out = dict(a)
    for k, x in b.items():
        if k in out and isinstance(out[k], dict) and isinstance(x, dict):
            out[k] = ref_deep_merge(out[k], x)
        else:
            out[k] = x
    return out


def ref_fun(f, v, u):
    if f == 'accumulate':
        return ref_add(v, u)
    if f == 'set':
        return u
    if f == 'null':
        return v
    if f == 'nonnegative_accumulate':
        s = ref_add(v, u)
        if isinstance(s, int):
            return max(0, s)
        if '$arr' in s:
            return {'$arr': [max(0, x) for x in s['$arr']]}
        if '$q' in s:
            return {'$q': [max(0, s['$q'][0]), s['$q'][1]]}
        raise RefErr('type')
    if f == 'merge':
        if not (isinstance(v, dict) and '$dict' in v and isinstance(u, dict) and '$dict' in u):
            raise RefErr('type')
        return {'$dict': ref_deep_merge(v['$dict'], u['$dict'])}
    if f == 'user_sub':
        if isinstance(v, int) and isinstance(u, int):
            return v - u
        raise RefErr('type')
    if f == 'user_max':
        if isinstance(v, int) and isinstance(u, int):
            return max(v, u)
        raise RefErr('type')
    raise RefErr(f)


def ref_dv(v, ops):
    d = copy.deepcopy(v['$dict'])
    for op in ops:
        if op[0] == 'add':
            for k, s in op[1]:
                d[k] = copy.deepcopy(s)
        elif op[0] == 'del':
            for k in op[1]:
                if k not in d:
                    raise RefErr('KeyError')
                del d[k]
        else:
            if op[1] not in d or not isinstance(d[op[1]], dict):
                raise RefErr('invalid key')
            d[op[1]] = dict(d[op[1]])
            d[op[1]].update(op[2])
    return {'$dict': d}


def ref_units(lf, v):
    if not lf['units']:
        return v
    if not (isinstance(v, dict) and '$q' in v):
        raise RefErr('no quantity')
    s, d = UNITS[v['$q'][1]], UNITS[lf['units']]
    if s % d:
        raise RefErr('inexact')
    return {'$q': [v['$q'][0] * (s // d), lf['units']]}


def ref_leaf(lf, v, u):
    if isinstance(u, dict) and '$multi' in u:
        for x in u['$multi']:
            v = ref_leaf(lf, v, x)
        return v
    if isinstance(u, dict) and '$branch' in u:
        raise RefErr('branch update for a leaf')
    if isinstance(u, dict) and '$with' in u:
        w = u['$with']
        return ref_units(lf, ref_fun(w['f'], v, w['v'] if 'v' in w else lf['default']))
    if isinstance(u, dict) and '$dv' in u:
        if lf['updater'] != 'dict_value':
            raise RefErr('dv update to a non dict_value leaf')
        return ref_units(lf, ref_dv(v, u['$dv']))
    if lf['updater'] == 'dict_value':
        raise RefErr('plain update to dict_value leaf')
    return ref_units(lf, ref_fun(lf['updater'], v, u))


def ref_apply(node, u):
    """node: {'$br':...}-style children dict; returns new children dict with '$val' leaves"""
    if isinstance(u, dict) and '$multi' in u:
        for x in u['$multi']:
            node = ref_apply(node, x)
        return node
    if not (isinstance(u, dict) and '$branch' in u):
        raise RefErr('leaf update for a branch')
    out = dict(node)
    for k, x in u['$branch'].items():
        if k not in out:
            continue
        n = out[k]
        if '$br' in n:
            out[k] = {'$br': ref_apply(n['$br'], x)}
        else:
            lf = n['$leaf']
            out[k] = {'$leaf': dict(lf, value=ref_leaf(lf, lf['value'], x))}
    return out


def ref_dump(node):
    return {'$br': {k: (ref_dump(n['$br']) if '$br' in n else {'$val': n['$leaf']['value']})
                    for k, n in node.items()}}


def norm(v):
    """canonical form for comparison: quantities to base magnitude"""
    if isinstance(v, dict):
        if '$q' in v:
            return ('q', v['$q'][0] * UNITS[v['$q'][1]], v['$q'][1])
        return {k: norm(x) for k, x in v.items()}
    if isinstance(v, list):
        return [norm(x) for x in v]
    return v


def oracle_reduce(c, ob):
    masses = list(c['masses'])
    total = c['v0']
    for r, got in enumerate(ob.get('seen', [])):
        red = sum(masses)
        total = red if (c['named'] or c['declared']) == 'set' else total + red
        if got != total:
            return [('round %d: a _reduce update (sum %d)%s on a variable declared %s gives %r, expected %r'
                     % (r, red, ' carrying _updater: %s' % c['named'] if c['named'] else '', c['declared'], got, total),
                     'wrong-result:reduce')]
        masses[0] += 1
    return []


def oracle_unitsinit(c, ob):
    names = {'g': 'gram', 'mg': 'milligram'}
    per = {'g': 1000.0, 'mg': 1.0}
    total = c['init_kg'] * 1e6
    if ob.get('touched'):
        return [('the update object handed to a units variable (updater %s) was rewritten: %s' % (c['updater'], ob['touched'][0]),
                 'update-mutated')]
    for (mag, u), (unit, mg) in zip(c['ups'], ob.get('seen', [])):
        if c['updater'] == 'set':
            total = 0.0
        total += mag * (per[c['declared']] if u == 'declared' else 1e6)
        if unit != names[c['declared']]:
            return [('a variable declared in %s, installed as %d kilogram, holds a quantity in %s after an update in %s'
                     % (names[c['declared']], c['init_kg'], unit, 'its declared unit' if u == 'declared' else 'kilogram'),
                     'units-not-normalised')]
        if abs(mg - total) > 1e-6 * total:
            return [('the variable holds %r mg, its initial value and updates add up to %r mg' % (mg, total),
                     'wrong-result:units')]
    return []


def oracle(c, ob, rng):
    if c['kind'] == 'reduce':
        return oracle_reduce(c, ob) if 'ok' in ob else [('reduce stream raised: %s' % ob.get('err'), 'raises-in-domain:reduce')]
    if c['kind'] == 'unitsinit':
        return oracle_unitsinit(c, ob) if 'ok' in ob else [('units stream raised: %s' % ob.get('err'), 'raises-in-domain:units')]
    msgs = []
    try:
        if c['kind'] == 'fun':
            want = ('ok', ref_fun(c['f'], c['v'], c['u']))
        elif c['kind'] == 'dvfun':
            want = ('ok', ref_dv(c['v'], c['u']))
        else:
            node = c['store']
            for u in c['ups']:
                node = ref_apply(node, u)
            want = ('ok', ref_dump(node))
    except RefErr:
        want = ('err',)
    except Exception:
        want = ('err',)
    if want[0] == 'ok':
        if 'ok' not in ob:
            msgs.append(('implementation raised %s on an in-domain update' % ob.get('err'), 'raises-in-domain:' + c.get('f', c['kind'])))
        elif norm(ob['ok']) != norm(want[1]):
            msgs.append(('result %r differs from f(v,u) = %r' % (ob['ok'], want[1]),
                         'wrong-result:' + c.get('f', c['kind'])))
    if ob.get('update_mutated'):
        msgs.append(('the update object handed in was modified', 'update-mutated'))
    return msgs


# ------------------------------------------------------------------ rendering

class R:
    def __init__(self):
        self.names = common.Names(KEYS)

    def key(self, k):
        return cN(self.names.get(k))

    def tree(self, d):
        if isinstance(d, dict):
            return '(Nd %s)' % clist([cpair(self.key(k), self.tree(v)) for k, v in d.items()])
        return '(Lf %s)' % cZ(d)

    def val(self, v):
        if isinstance(v, dict):
            if '$list' in v:
                return '(UList %s)' % clist([cZ(x) for x in v['$list']])
            if '$arr' in v:
                return '(UArr %s)' % clist([cZ(x) for x in v['$arr']])
            if '$dict' in v:
                return '(UDict %s)' % self.tree(v['$dict'])
            if '$q' in v:
                return '(UQty %s %s)' % (cZ(v['$q'][0]), cZ(UNITS[v['$q'][1]]))
            if '$none' in v:
                return 'UNone'
            raise ValueError(v)
        return '(UZ %s)' % cZ(v)

    def alist(self, d):
        return clist([cpair(self.key(k), self.tree(v)) for k, v in d.items()])

    def dv(self, ops):
        out = []
        for op in ops:
            if op[0] == 'add':
                out.append('(DAdd %s)' % clist([cpair(self.key(k), self.tree(s)) for k, s in op[1]]))
            elif op[0] == 'del':
                out.append('(DDel %s)' % clist([self.key(k) for k in op[1]]))
            else:
                out.append('(DKey %s %s)' % (self.key(op[1]), self.alist(op[2])))
        return '(DV %s)' % clist(out)

    def upd(self, u):
        if isinstance(u, dict):
            if '$multi' in u:
                return '(UMulti %s)' % clist([self.upd(x) for x in u['$multi']])
            if '$branch' in u:
                return '(UBranch %s)' % clist([cpair(self.key(k), self.upd(x)) for k, x in u['$branch'].items()])
            if '$with' in u:
                w = u['$with']
                return '(UWith (Some %s) %s)' % (COQ_UPD[w['f']], copt(self.val(w['v']) if 'v' in w else None))
            if '$dv' in u:
                return '(UDv %s)' % self.dv(u['$dv'])
        return '(UVal %s)' % self.val(u)

    def store(self, node):
        items = []
        for k, n in node.items():
            if '$br' in n:
                items.append(cpair(self.key(k), self.store(n['$br'])))
            else:
                lf = n['$leaf']
                d = '{| d_updater := %s; d_units := %s; d_default := %s |}' % (
                    COQ_UPD[lf['updater']], copt(cZ(UNITS[lf['units']]) if lf['units'] else None),
                    self.val(lf['default']))
                items.append(cpair(self.key(k), '(SLeaf %s %s)' % (d, self.val(lf['value']))))
        return '(SBranch %s)' % clist(items)

    def dumped(self, d):
        if '$br' in d:
            return '(SBranch %s)' % clist([cpair(self.key(k), self.dumped(v)) for k, v in d['$br'].items()])
        return '(SLeaf {| d_updater := Null; d_units := None; d_default := UNone |} %s)' % self.val(d['$val'])


def render(c, ob):
    if c['kind'] in ('unitsinit', 'reduce'):
        return None           # oracle only
    r = R()
    if c['kind'] == 'fun':
        return '(UFun %s %s %s %s)' % (COQ_UPD[c['f']], r.val(c['v']), r.val(c['u']),
                                       copt(r.val(ob['ok']) if 'ok' in ob else None))
    if c['kind'] == 'dvfun':
        return '(UDvFun %s %s %s)' % (r.val(c['v']), r.dv(c['u']), copt(r.val(ob['ok']) if 'ok' in ob else None))
    return '(UApply %s %s %s)' % (r.store(c['store']), clist([r.upd(u) for u in c['ups']]),
                                  copt(r.dumped(ob['ok']) if 'ok' in ob else None))


def nontrivial(c, ob):
    return 'ok' in ob


def stat_key(c, ob):
    return '%s/%s/%s' % (c['kind'], c.get('f', '-'), 'ok' if 'ok' in ob else 'err')


def run(cases, tier='quick', seed=0):
    return common.generic_run(__import__('harness.c08', fromlist=['x']), cases, seed)


def model_output(case, ob):
    t = render(case, ob)
    return {'model': common.coq_eval('C08', IMPORTS, 'model_out %s' % t),
            'agrees_with_pinned_merge_model': common.coq_eval('C08', IMPORTS, 'check_case_pinned_merge %s' % t)}
