"""Structure family (C09, C10, C11): histories of structural updates applied through the real
Engine.apply_update, observed on the hierarchy (values, node and process-object identities) and on
the engine bookkeeping, compared with Model/Struct.v + Model/StructC.v."""
import contextlib
import io
import random

from harness import common
from harness.common import cN, cZ, clist, cpair, copt, cbool

IMPORTS = ('From Viv Require Import Base.Assoc Base.Tree Model.Paths Model.Steps Model.Struct Model.StructC '
           'Corr.Structc.')
CHECK_FN = 'check_case'
BAD_TERM = '(HHist vfixed [] [None])'

NAMES = {'s': 0, 'n': 1, 'd': 2, 'f': 3, 'g': 4, 'cnt': 5, 'drv': 6, 'fst': 7, 'fst2': 8,
         'A': 10, 'B': 11, 'holder': 12}


def key_id(k):
    if k in NAMES:
        return NAMES[k]
    if k.startswith('c') and k[1:].isdigit():
        return 20 + int(k[1:])
    raise ValueError('unknown key %r' % (k,))


_KIT = None
_HAS_UPD = []


def has_upd():
    """plain value updates next to structural keys are generated once Model/Struct.v has OpUpd"""
    if not _HAS_UPD:
        import os
        try:
            _HAS_UPD.append('OpUpd' in open(os.path.join(common.COQ, 'Model', 'Struct.v')).read())
        except OSError:
            _HAS_UPD.append(False)
    return _HAS_UPD[0]


def kit():
    global _KIT
    if _KIT:
        return _KIT
    from vivarium.core.process import Process, Step
    SUB = {'s': {'n': {'_default': 0, '_divider': 'split', '_emit': True}}}

    class Cnt(Process):
        def ports_schema(self):
            return {'s': {'n': {'_default': 0, '_divider': 'split', '_emit': True}}}

        def next_update(self, ts, states):
            CALLS.append(('P', id(self)))
            return {'s': {'n': 1}}

    class Drv(Step):
        def ports_schema(self):
            return {'s': {'n': {'_default': 0, '_divider': 'split'},
                          'd': {'_default': 0, '_updater': 'set', '_emit': True}}}

        def next_update(self, ts, states):
            CALLS.append(('D', id(self)))
            return {'s': {'d': states['s']['n'] * 2}}

    class Fst(Step):
        def ports_schema(self):
            return {'s': {'n': {'_default': 0, '_divider': 'split'},
                          'f': {'_default': 0, '_updater': 'set', '_emit': True}}}

        def next_update(self, ts, states):
            CALLS.append(('F', id(self)))
            return {'s': {'f': states['s']['n'] * 3}}

    class Fst2(Step):
        def ports_schema(self):
            return {'s': {'f': {'_default': 0, '_updater': 'set'},
                          'g': {'_default': 0, '_updater': 'set', '_emit': True}}}

        def next_update(self, ts, states):
            CALLS.append(('G', id(self)))
            return {'s': {'g': states['s']['f'] + 1}}

    class Holder(Process):
        def ports_schema(self):
            return {'A': {'*': SUB}, 'B': {'*': SUB}}

        def next_update(self, ts, states):
            return {}

    _KIT = dict(Cnt=Cnt, Drv=Drv, Fst=Fst, Fst2=Fst2, Holder=Holder, SUB=SUB)
    return _KIT


CALLS = []


def compartment(kind, ts=1):
    K = kit()
    if kind & 4:
        # an inert compartment: listed with empty processes / steps / flow / topology
        return {}, {}, {}, {}
    procs, topo = {}, {}
    if not kind & 8:
        # (bit 3: a compartment that holds only steps - generated only together with bit 0 or 1)
        procs['cnt'] = K['Cnt']({'timestep': ts})
        topo['cnt'] = {'s': ('s',)}
    steps, flow = {}, {}
    if kind & 1:
        procs['drv'] = K['Drv']()
        topo['drv'] = {'s': ('s',)}
    if kind & 2:
        steps['fst'] = K['Fst']()
        flow['fst'] = []
        topo['fst'] = {'s': ('s',)}
        steps['fst2'] = K['Fst2']()
        flow['fst2'] = [('fst',)]
        topo['fst2'] = {'s': ('s',)}
    return procs, steps, flow, topo


def make_engine():
    from vivarium.core.engine import Engine
    K = kit()
    with contextlib.redirect_stdout(io.StringIO()):
        return Engine(processes={'holder': K['Holder']()}, topology={'holder': {'A': ('A',), 'B': ('B',)}},
                      display_info=False)


# ------------------------------------------------------------------ generation of histories

def gen_history(rng, nupd, allow_bad=True, only_kinds=None):
    colonies = {'A': {}, 'B': {}}       # key -> kind (None: plain _add child)
    counter = [0]
    touched = set()
    hist = []

    def fresh():
        counter[0] += 1
        return 'c%02d' % counter[0]

    def one_op(col, kinds, before):
        other = 'B' if col == 'A' else 'A'
        kind = rng.choice(kinds)
        kids = list(colonies[col].keys())
        if not allow_bad:
            # well-formed stream: an update never refers to something it creates or removes itself
            kids = [k for k in kids if k in before and k not in touched]
        if kind != 'upd' and (kind == 'generate' or (not kids and kind in ('delete', 'divide', 'move'))):
            k = fresh()
            ck = rng.randint(0, 3)
            if ck and rng.random() < 0.2:
                ck |= 8           # steps only
            colonies[col][k] = ck
            init = {'s': {'n': rng.randint(0, 9)}} if rng.random() < 0.7 else {}
            if init and rng.random() < 0.5:
                # the other variables of the compartment get values too (they are copied to daughters: a daughter's
                # explicit initial state that names only s.n must leave them alone)
                if ck & 1:
                    init['s']['d'] = rng.randint(1, 9)
                if ck & 2:
                    init['s']['f'] = rng.randint(1, 9)
                    init['s']['g'] = rng.randint(1, 9)
            return ['generate', k, ck, init]
        if kind == 'upd':
            # a plain value update of a child, next to the structural keys of the same update: it is applied after
            # _add/_move/_generate/_divide and before _delete, and skipped when the key is no child at that point
            pool = list(colonies[col].keys()) + [k for k in before if k not in colonies[col]]
            k = rng.choice(pool) if pool and rng.random() < 0.92 else 'c98'
            return ['upd', k, rng.randint(1, 9)]
        if kind == 'add':
            old = [k for k in kids if k in before]      # _add runs first: only keys that existed before the update
            if allow_bad and old and rng.random() < 0.1:
                return ['add', rng.choice(old), {'s': {'n': 1}}]           # duplicate key: rejected
            k = fresh()
            colonies[col][k] = None
            return ['add', k, {'s': {'n': rng.randint(0, 9)}} if rng.random() < 0.8 else {}]
        k = rng.choice(kids)
        touched.add(k)
        if kind == 'delete':
            if allow_bad and rng.random() < 0.12:
                return ['delete_path', [k]]
            if allow_bad and rng.random() < 0.08:
                return ['delete', 'c99']                                    # missing key
            del colonies[col][k]
            return ['delete', k]
        if kind == 'move':
            if k in colonies[other]:
                return ['generate', fresh(), 0, {}]
            colonies[other][k] = colonies[col].pop(k)
            return ['move', k, other]
        if kind == 'divide':
            mk = colonies[col].pop(k)
            ds = []
            inherit = rng.random() < 0.35
            for _ in range(2):
                dk = fresh()
                if inherit:
                    colonies[col][dk] = 0 if mk is not None else None
                    ds.append([dk, None, {'s': {'n': rng.randint(20, 29)}} if rng.random() < 0.3 else {}])
                else:
                    ck = 4 if rng.random() < 0.15 else rng.randint(0, 3)
                    if ck in (1, 2, 3) and rng.random() < 0.2:
                        ck |= 8
                    colonies[col][dk] = ck
                    ds.append([dk, ck, {'s': {'n': rng.randint(20, 29)}} if rng.random() < 0.3 else {}])
            return ['divide', k, ds, rng.randint(0, 10 ** 6)]
        raise ValueError(kind)

    kinds = only_kinds or ['generate', 'generate', 'add', 'delete', 'divide', 'move'] + (['upd'] if has_upd() else [])
    for i in range(nupd):
        col = rng.choice(['A', 'B'])
        if i >= 2 and only_kinds is None and rng.random() < 0.15:
            # one cached directive object addressed to both colonies (entry 3 = index of the update whose
            # Python object is handed in again): an _add of a new key, or a _delete of a key both hold
            other = 'B' if col == 'A' else 'A'
            both = [k for k in colonies['A'] if k in colonies['B'] and colonies['A'][k] is None
                    and colonies['B'][k] is None]
            if both and rng.random() < 0.5:
                k = rng.choice(both)
                del colonies['A'][k], colonies['B'][k]
                ops = [['delete', k]]
            else:
                k = fresh()
                colonies['A'][k] = colonies['B'][k] = None
                ops = [['add', k, {'s': {'n': rng.randint(0, 9)}}]]
            hist.append([col, ops])
            hist.append([other, ops, len(hist) - 1])
            continue
        nops = 1 if rng.random() < 0.75 else rng.randint(2, 3)
        ops, used = [], set()
        touched.clear()
        before = set(colonies[col].keys())
        for _ in range(nops):
            ks = kinds if i >= 2 else ['generate']
            if 'divide' in used:
                # '_divide' holds a single entry (decided before one_op updates its bookkeeping)
                ks = [k for k in ks if k != 'divide'] or ['generate']
            op = one_op(col, ks, before)
            tag = op[0] if op[0] != 'delete_path' else 'delete'
            if tag == 'upd':
                tag = 'upd:' + op[1]
                if tag in used:
                    continue          # one entry per key in a dict
            used.add(tag)
            ops.append(op)
        hist.append([col, ops])
    return hist


# ------------------------------------------------------------------ implementation side

def py_update(col, ops):
    upd = {}
    seed = None
    for op in ops:
        if op[0] == 'add':
            upd.setdefault('_add', []).append({'key': op[1], 'state': op[2]})
        elif op[0] == 'delete':
            upd.setdefault('_delete', []).append(op[1])
        elif op[0] == 'delete_path':
            upd.setdefault('_delete', []).append(tuple(op[1]))
        elif op[0] == 'generate':
            p, s, f, t = compartment(op[2])
            upd.setdefault('_generate', []).append({'key': op[1], 'processes': p, 'steps': s, 'flow': f,
                                                    'topology': t, 'initial_state': op[3]})
        elif op[0] == 'upd':
            upd[op[1]] = {'s': {'n': op[2]}}
        elif op[0] == 'move':
            upd.setdefault('_move', []).append({'source': (op[1],), 'target': (op[2],)})
        elif op[0] == 'divide':
            ds = []
            for dk, ck, init in op[2]:
                if ck is None:
                    d = {'key': dk}
                    if init:
                        d['initial_state'] = init
                else:
                    p, s, f, t = compartment(ck)
                    d = {'key': dk, 'processes': p, 'steps': s, 'flow': f, 'topology': t, 'initial_state': init}
                ds.append(d)
            upd['_divide'] = {'mother': op[1], 'daughters': ds}
            seed = op[3]
    return {col: upd}, seed


LINKS = []


def dump_tree(store, keep, path=()):
    from vivarium.core.process import Process
    keep.append(store)
    if tuple(store.path_for()) != tuple(path):
        LINKS.append([list(path), list(store.path_for())])
    if isinstance(store.value, Process):
        keep.append(store.value)
        return ['proc', id(store), id(store.value), bool(store.value.is_step())]
    if store.inner or not store.leaf:
        return ['dir', id(store), {k: dump_tree(v, keep, path + (k,)) for k, v in store.inner.items()}]
    return ['var', id(store), store.value]


def index_ids(d, path=(), nodes=None, objs=None):
    nodes = {} if nodes is None else nodes
    objs = {} if objs is None else objs
    nodes.setdefault(d[1], list(path))
    if d[0] == 'proc':
        objs.setdefault(d[2], list(path))
    elif d[0] == 'dir':
        for k, v in d[2].items():
            index_ids(v, path + (k,), nodes, objs)
    return nodes, objs


def annotate(d, nodes, objs):
    if d[0] == 'var':
        return ['var', nodes.get(d[1]), d[2]]
    if d[0] == 'proc':
        return ['proc', nodes.get(d[1]), objs.get(d[2]), d[3]]
    return ['dir', nodes.get(d[1]), {k: annotate(v, nodes, objs) for k, v in d[2].items()}]


def flat_leaves(d, pre=()):
    out = []
    for k, v in (d or {}).items():
        if isinstance(v, dict):
            out.extend(flat_leaves(v, pre + (k,)))
        else:
            out.append((pre + (k,), v))
    return out


def observe_book(eng):
    g = eng._step_graph
    return {
        'procs': [list(p) for p in eng.process_paths.keys()],
        'steps': [list(p) for p in eng._step_paths.keys()],
        'seq': [list(p) for p in g._sequential_steps],
        'gnodes': [list(p) for p in g._graph.nodes],
        'gedges': [[list(a), list(b)] for a, b in g._graph.edges],
        'pubp': [list(p) for p, _ in flat_leaves(eng.processes)],
        'pubs': [list(p) for p, _ in flat_leaves(eng.steps)],
        'pubt': sorted({tuple(p[:-1]) for p, v in flat_leaves(eng.topology)}),
        'pubf': [[list(p), [list(d) for d in v]] for p, v in flat_leaves(eng.flow) if isinstance(v, list)],
    }


def run_history(hist):
    """returns (observations, engine, keepalive)"""
    eng = make_engine()
    keep = []
    holder = eng.state.get_path(('holder',))
    prev = dump_tree(eng.state, keep)
    obs = []
    handed = []
    for entry in hist:
        col, ops = entry[0], entry[1]
        upd, seed = py_update(col, ops)
        if len(entry) > 2:
            # the very directive object of an earlier update, addressed to another colony
            upd = {col: list(handed[entry[2]].values())[0]}
        handed.append(upd)
        if seed is not None:
            random.seed(seed)
        # Engine.front across the update: every registered process gets an entry tagged with the path it has now;
        # afterwards the entry of a process object must be where the object is (Model/Fronts.v)
        tags = {}
        eng.front = {}
        for n, ppath in enumerate(eng.process_paths):
            tags[1000 + n] = list(ppath)
            eng.front[ppath] = {'time': 1000 + n, 'update': {}}
        try:
            with contextlib.redirect_stdout(io.StringIO()):
                expire = eng.apply_update(upd, holder)
                if expire:
                    eng.state.build_topology_views()
        except Exception as e:
            obs.append({'err': type(e).__name__ + ':' + str(e)[:150]})
            break
        del LINKS[:]
        cur = dump_tree(eng.state, keep)
        nodes, objs = index_ids(prev)
        book = observe_book(eng)
        book['front'] = [[list(fp), tags.get(e.get('time'))] for fp, e in eng.front.items()]
        obs.append({'tree': annotate(cur, nodes, objs), 'book': book, 'links': list(LINKS)})
        prev = cur
    return obs, eng, keep


def run_impl(c):
    obs, eng, keep = run_history(c['hist'])
    try:
        eng.end()
    except Exception:
        pass
    return {'obs': obs}


# ------------------------------------------------------------------ rendering

def r_path(p):
    return clist([cN(key_id(k)) for k in p])


def r_state(d):
    if isinstance(d, dict):
        return '(Nd %s)' % clist([cpair(cN(key_id(k)), r_state(v)) for k, v in d.items()])
    return '(Lf %s)' % cZ(d)


def split_choices(seed):
    r = random.Random(seed)
    return [r.choice([True, False]) for _ in range(6)]


def r_op(op):
    if op[0] == 'add':
        return '(OpAdd N %s %s)' % (cN(key_id(op[1])), r_state(op[2]))
    if op[0] == 'delete':
        return '(OpDelete N %s)' % cN(key_id(op[1]))
    if op[0] == 'delete_path':
        return '(OpDeletePath N %s)' % r_path(op[1])
    if op[0] == 'generate':
        return '(OpGenerate N %s %s %s)' % (cN(key_id(op[1])), cN(op[2]), r_state(op[3]))
    if op[0] == 'upd':
        return '(OpUpd N %s %s)' % (cN(key_id(op[1])), r_state({'s': {'n': op[2]}}))
    if op[0] == 'move':
        return '(OpMove N %s %s)' % (cN(key_id(op[1])), r_path([op[2]]))
    if op[0] == 'divide':
        ds = clist(['(%s, %s, %s)' % (cN(key_id(dk)), copt(cN(ck) if ck is not None else None), r_state(init))
                    for dk, ck, init in op[2]])
        return '(OpDivide N %s %s %s)' % (cN(key_id(op[1])), ds, clist([cbool(b) for b in split_choices(op[3])]))
    raise ValueError(op)


def r_anode(a):
    if a[0] == 'var':
        return '(AVar %s %s)' % (copt(r_path(a[1]) if a[1] is not None else None), cZ(a[2]))
    if a[0] == 'proc':
        return '(AProc %s %s %s)' % (copt(r_path(a[1]) if a[1] is not None else None),
                                     copt(r_path(a[2]) if a[2] is not None else None), cbool(a[3]))
    return '(ADir %s %s)' % (copt(r_path(a[1]) if a[1] is not None else None),
                             clist([cpair(cN(key_id(k)), r_anode(v)) for k, v in a[2].items()]))


def r_seg(s):
    return 'Up' if s == '..' else '(Dn %s)' % cN(key_id(s))


def r_book(b):
    return ('{| o_procs := %s; o_steps := %s; o_seq := %s; o_gnodes := %s; o_gedges := %s; '
            'o_pubp := %s; o_pubs := %s; o_pubt := %s; o_pubf := %s; o_front := %s |}') % (
        clist([r_path(p) for p in b['procs']]), clist([r_path(p) for p in b['steps']]),
        clist([r_path(p) for p in b['seq']]), clist([r_path(p) for p in b['gnodes']]),
        clist([cpair(r_path(a), r_path(x)) for a, x in b['gedges']]),
        clist([r_path(p) for p in b['pubp']]), clist([r_path(p) for p in b['pubs']]),
        clist([r_path(p) for p in b['pubt']]),
        clist([cpair(r_path(p), clist([clist([r_seg(s) for s in d]) for d in deps])) for p, deps in b['pubf']]),
        clist([cpair(r_path(p), r_path(t) if t is not None else clist([cN(999)])) for p, t in b.get('front', [])]))


def render(c, ob, variant='vfixed'):
    hist = clist([cpair(r_path([e[0]]), clist([r_op(o) for o in e[1]])) for e in c['hist'][:len(ob['obs'])]])
    exp = clist(['None' if 'err' in o else '(Some (%s, %s))' % (r_anode(o['tree']), r_book(o['book']))
                 for o in ob['obs']])
    return '(HHist %s %s %s)' % (variant, hist, exp)


def stat_key(c, ob):
    kinds = sorted({op[0] for e in c['hist'] for op in e[1]})
    return 'updates=%d/%s' % (len(c['hist']), 'err' if any('err' in o for o in ob['obs']) else 'ok')


def nontrivial(c, ob):
    return len(ob['obs']) >= 3


def model_output(case, ob):
    t = render(case, ob)
    return {'agree(tree,book) per update': common.coq_eval('STRUCT', IMPORTS, 'diagnose %s' % t)[:600],
            'model': common.coq_eval('STRUCT', IMPORTS, 'model_out %s' % t)[:6000]}


def oracle_upd(c, ob):
    """C01 (never lost): a plain value update carried by the same update as structural keys reaches the child it
    names - s.n grows by exactly the given amount - when that child exists after the structural keys of the update
    (existing before and untouched, or added / generated by the same update) and is not deleted by it"""
    def leaf(tree, path):
        d = tree
        for k in path:
            if d[0] != 'dir' or k not in d[2]:
                return None
            d = d[2][k]
        return d[2] if d[0] == 'var' else None
    prev = None
    for entry, o in zip(c['hist'], ob['obs']):
        if 'err' in o:
            break
        col, ops = entry[0], entry[1]
        for op in ops:
            if op[0] != 'upd':
                continue
            k, z = op[1], op[2]
            others = [x for x in ops if x is not op and x[0] != 'upd' and
                      (x[1] == k or (x[0] == 'divide' and k in [d[0] for d in x[2]]))]
            now = leaf(o['tree'], (col, k, 's', 'n'))
            if not others:
                before = leaf(prev, (col, k, 's', 'n')) if prev is not None else None
                if before is not None and now is not None and now != before + z:
                    return [('update %r: %s/%s/s/n went from %r to %r, the update adds %r' % (ops, col, k, before, now, z),
                             'value-update-lost')]
            elif len(others) == 1 and others[0][0] in ('add', 'generate'):
                st = others[0][2] if others[0][0] == 'add' else others[0][3]
                n0 = (st.get('s') or {}).get('n', 0) if isinstance(st, dict) else 0
                if now is not None and now != n0 + z:
                    return [('update %r: the child %s is created with s.n = %r and updated by %r in the same update, '
                             'it holds %r' % (ops, k, n0, z, now), 'value-update-lost')]
        prev = o['tree']
    return []
