"""C04 — processes started together see one committed snapshot; listing order is moot."""
import random
from harness import common, sched

FAMILY = 'sched (metamorphic pairs)'
RULE = ('as C01 (accumulating updaters only, so all updates commute); every composite is run twice, the second time '
        'with independently shuffled insertion orders of the processes dict, the topology dict, the ports of every '
        'process and the ports of every topology entry; the emitted trajectories and the fronts after every call '
        'must be identical, and the first run must match the model. Steps of one dependency layer: the engine stream of C05 '
        '(random flows; steps that read what other steps of their layer write) with the same-snapshot oracle; the live '
        'stream of C07 (structural updates applied at the instant at which processes and steps are started: what '
        'they are handed must be the committed hierarchy). '
        'Non-trivial: >=2 processes and >=2 invocations.')
ASSUMPTIONS = __import__('harness.c01', fromlist=['x']).ASSUMPTIONS + [
    'timesteps and conditions are functions of the viewed state (not of poll counts), updaters commute',
]
IMPORTS, CHECK_FN, BAD_TERM = sched.IMPORTS, sched.CHECK_FN, sched.BAD_TERM
PROPS = ('C04',)


def generate(seed, tier, enlarged=False):
    rng = random.Random(seed * 7 + 4)
    n = 300 if tier == 'quick' else 5000
    if enlarged:
        n *= 3
    cases = []
    for i in range(n):
        c = sched.gen_case(rng, max_procs=5 if tier == 'quick' else 8, scripted=False)
        k = len(c['procs'])
        perm = list(range(k))
        rng.shuffle(perm)
        c['perm'] = perm
        cases.append(c)
    # steps of one dependency layer: the engine stream of C05 (random flows, steps reading what other steps of
    # their layer write), judged here by its same-snapshot oracle
    from harness import c05
    cases += [c for c in c05.generate(seed, tier, enlarged) if c['kind'] == 'engine']
    # the state a process or step is given when structural updates happen at the same instant: live stream of C07
    from harness import live
    cases += [live.gen_case(rng) for _ in range(n // 6)]
    cases += live.corpus()
    # port listing order: several scalar ports of one process wired to ONE variable (at the root of the hierarchy,
    # below it, or reached through '..' from a nested process), listed in every order - oracle only
    for i in range(max(6, n // 40)):
        k = rng.randint(2, 3)
        cases.append({'kind': 'ports', 'amounts': [rng.randint(1, 9) for _ in range(k)],
                      'where': rng.choice(['root', 'root', 'deep', 'nested']), 'ticks': rng.randint(1, 3)})
    return cases


def canon_rows(ob):
    rows = []
    for g in ob['groups']:
        for e in g:
            if e[0] == 'emit':
                rows.append((e[1], e[2], tuple(sorted(e[3].items()))))
            elif e[0] == 'after':
                rows.append(('after', e[1], tuple(sorted((p, t, r) for p, t, r in e[2]))))
    return rows


class Shim:
    pass


def run(cases, tier='quick', seed=0):
    from harness import c05

    class Layer:
        __name__ = 'harness.c05'
        IMPORTS, CHECK_FN, BAD_TERM = c05.IMPORTS, c05.CHECK_FN, c05.BAD_TERM
        run_impl, render = staticmethod(c05.run_impl), staticmethod(c05.render)
        nontrivial, stat_key = staticmethod(c05.nontrivial), staticmethod(c05.stat_key)

        @staticmethod
        def oracle(c, ob, rng):
            return [(m, sg) for m, sg in c05.oracle(c, ob, rng) if sg == 'layer-snapshot']
    from harness import live

    class Live:
        __name__ = 'harness.live'
        IMPORTS, CHECK_FN, BAD_TERM = live.IMPORTS, live.CHECK_FN, live.BAD_TERM
        run_impl = staticmethod(live.run_impl)
        # handed-out states are the committed hierarchy; every update due at an instant is committed whatever the
        # listing order (also when another update of the batch deletes its process)
        oracle = staticmethod(lambda c, ob, rng: live.oracle(c, ob, rng) + live.oracle_inflight(c, ob, rng, report_moved=False) +
                              live.oracle_rels(c, ob, rng))
        nontrivial, stat_key = staticmethod(live.nontrivial), staticmethod(live.stat_key)
        render = staticmethod(live.render)     # the rebuild points of _send_updates / run_steps vs Model/Views.v
    class Ports:
        __name__ = 'harness.c04ports'
        IMPORTS, CHECK_FN, BAD_TERM = live.IMPORTS, live.CHECK_FN, live.BAD_TERM
        run_impl, oracle = staticmethod(run_ports), staticmethod(oracle_ports)
        nontrivial = staticmethod(lambda c, ob: True)
        stat_key = staticmethod(lambda c, ob: 'ports/' + c['where'])
        render = staticmethod(lambda c, ob: None)
    return common.merge_streams(cases, [
        (lambda c: c['kind'] == 'ports', lambda cs: common.generic_run(Ports, cs, seed, shard=100)),
        (lambda c: c['kind'] == 'sched', lambda cs: run_sched(cs, tier, seed)),
        (lambda c: c['kind'] == 'engine', lambda cs: common.generic_run(Layer, cs, seed, shard=200)),
        (lambda c: c['kind'] == 'live', lambda cs: common.generic_run(Live, cs, seed, shard=20))])


def run_ports(c):
    import contextlib
    import io
    import itertools
    from vivarium.core.engine import Engine
    from vivarium.core.process import Process
    names = ['p%d' % i for i in range(len(c['amounts']))]
    amounts = dict(zip(names, c['amounts']))

    class Teller(Process):
        defaults = {'order': names}

        def ports_schema(self):
            # every port IS a variable (a scalar port)
            return {n: {'_default': 0, '_emit': True} for n in self.parameters['order']}

        def next_update(self, ts, states):
            return {n: amounts[n] for n in self.parameters['order']}
    target = {'root': ('pool',), 'deep': ('bank', 'pool'), 'nested': ('..', '..', 'pool')}[c['where']]
    out = {}
    for order in itertools.permutations(names):
        t = {n: target for n in order}
        if c['where'] == 'nested':
            procs, topo = {'cell': {'inner': {'teller': Teller({'order': list(order)})}}}, {'cell': {'inner': {'teller': t}}}
        else:
            procs, topo = {'teller': Teller({'order': list(order)})}, {'teller': t}
        try:
            with contextlib.redirect_stdout(io.StringIO()):
                eng = Engine(processes=procs, topology=topo, emitter='timeseries', display_info=False)
                eng.update(c['ticks'])
                v = eng.state.get_value()
            out['/'.join(order)] = v['bank']['pool'] if c['where'] == 'deep' else v['pool']
        except Exception as e:
            out['/'.join(order)] = 'raised %s: %s' % (type(e).__name__, str(e)[:100])
    return {'finals': out}


def oracle_ports(c, ob, rng):
    want = sum(c['amounts']) * c['ticks']
    bad = {k: v for k, v in ob['finals'].items() if v != want}
    if bad:
        return [('scalar ports wired to one variable (%s): after %d tick(s) of updates %r the variable must hold %d '
                 'whatever the order in which the ports are listed; got %r' % (c['where'], c['ticks'], c['amounts'], want, bad),
                 'order-dependent-trajectory')]
    return []


def run_sched(cases, tier='quick', seed=0):
    mod = __import__('harness.c04', fromlist=['x'])
    twins = {}

    def run_impl(c):
        ob = sched.run_impl(c)
        c2 = dict(c)
        c2['order'] = c['perm']
        c2['flip'] = True
        twins[id(c)] = sched.run_impl(c2)
        return ob

    def oracle(c, ob, rng):
        msgs = []
        tw = twins.get(id(c))
        if ob['status'] == 'ok' and tw is not None:
            if tw['status'] != 'ok':
                msgs.append(('the permuted listing %r fails: %s' % (c['perm'], tw['status']), 'permuted-run-fails'))
            elif canon_rows(tw) != canon_rows(ob):
                a, b = canon_rows(ob), canon_rows(tw)
                k = next((i for i in range(min(len(a), len(b))) if a[i] != b[i]), min(len(a), len(b)))
                msgs.append(('listing order %r changes the trajectory: record %d is %r vs %r'
                             % (c['perm'], k, a[k] if k < len(a) else None, b[k] if k < len(b) else None),
                             'order-dependent-trajectory'))
        if ob['status'] == 'ok':
            # the invocations of one pass (no application in between) share one view of the committed state
            for g in ob['groups']:
                run_ = []
                for e in g + [['apply']]:
                    if e[0] == 'invoke':
                        run_.append(e)
                    elif e[0] == 'apply':
                        if len({(x[5]) for x in run_}) > 1:
                            msgs.append(('processes invoked in one pass at %r see different shared state: %r'
                                         % (run_[0][3], [(x[1], x[5]) for x in run_]), 'snapshot-differs'))
                        run_ = []
        return msgs[:2]

    class M:
        __name__ = 'harness.c04'
        IMPORTS, CHECK_FN, BAD_TERM = sched.IMPORTS, sched.CHECK_FN, sched.BAD_TERM
        render = staticmethod(sched.render)
        nontrivial = staticmethod(lambda c, ob: sched.nontrivial(c, ob) and len(c['procs']) >= 2)
        stat_key = staticmethod(sched.stat_key)
    M.run_impl = staticmethod(run_impl)
    M.oracle = staticmethod(oracle)
    return common.generic_run(M, cases, seed, shard=60)


def model_output(case, ob):
    if case['kind'] == 'engine':
        from harness import c05
        return c05.model_output(case, ob)
    return sched.model_output(case, ob)
