"""C17 — path algebra.  Family `path`: dict-path helpers of vivarium.library.topology /
dict_utils / process.assoc_in / store.hierarchy_depth and Store navigation (get_path,
path_to, path_for, _establish_path) against Model/Paths.v."""
import copy
import random

from harness import common
from harness.common import cN, cZ, clist, cpair, copt

FAMILY = 'path'
RULE = ('random nested dicts over a 2-4 key alphabet (depth<=5, int leaves, empty dicts allowed) x '
        'random key paths of length 0-7 (biased to existing keys), paths with ".." at any position, '
        'paths through leaves (error stream); Store navigation on real Store trees of the same shapes. '
        'A case is non-trivial when the operation touches an existing node or raises; distinct by its '
        'rendered Coq term.')
ASSUMPTIONS = [
    'dict keys are strings interned to N; leaves are Python ints (model leaves Z)',
    'Store nodes are plain stores (no process nodes on the walked paths); _establish_path never descends below a value leaf',
    'update_in is called with pure functions (constant / deep_merge of a deep copy)',
]
TRUSTED_EXTRA = []

KEYS = ['a', 'b', 'c', 'd']
IMPORTS = 'From Viv Require Import Base.Assoc Base.Tree Model.Paths Corr.C17c.'


# ------------------------------------------------------------------ generation

def gen_tree(rng, depth, keys, allow_leaf_top=False, p_empty=0.1):
    if depth == 0 or (allow_leaf_top and rng.random() < 0.35):
        return rng.randint(-5, 9)
    if rng.random() < p_empty:
        return {}
    n = rng.randint(1, len(keys))
    ks = rng.sample(keys, n)
    return {k: gen_tree(rng, depth - 1, keys, True, p_empty) for k in ks}


def existing_paths(d, prefix=()):
    out = [prefix]
    if isinstance(d, dict):
        for k, v in d.items():
            out.extend(existing_paths(v, prefix + (k,)))
    return out


def gen_path(rng, d, keys, maxlen=7):
    r = rng.random()
    if r < 0.45:
        p = list(rng.choice(existing_paths(d)))
        if rng.random() < 0.5:
            p += [rng.choice(keys) for _ in range(rng.randint(0, 2))]
        return p[:maxlen]
    return [rng.choice(keys) for _ in range(rng.randint(0, maxlen))]


def gen_segs(rng, base_paths, keys, maxlen=8):
    n = rng.randint(0, maxlen)
    out = []
    for _ in range(n):
        out.append('..' if rng.random() < 0.4 else rng.choice(keys))
    return out


def generate(seed, tier, enlarged=False):
    rng = random.Random(seed * 7919 + 17)
    n = 1500 if tier == 'quick' else 30000
    if enlarged:
        n *= 3
    kinds = ['norm', 'get_in', 'delete_in', 'assoc_path', 'update_in', 'paths_to_dict',
             'dict_to_paths', 'hier_depth', 'assoc_in', 'deep_merge', 'walk', 'path_to',
             'establish', 'path_for']
    cases = []
    for i in range(n):
        keys = KEYS[:rng.randint(2, 4)]
        kind = kinds[i % len(kinds)]
        depth = rng.randint(1, 5)
        d = gen_tree(rng, depth, keys)
        c = {'kind': kind}
        if kind == 'norm':
            c['p'] = gen_segs(rng, None, keys, 10)
        elif kind in ('get_in', 'delete_in'):
            c['d'] = d
            c['p'] = gen_path(rng, d, keys)
        elif kind in ('assoc_path', 'assoc_in'):
            c['d'] = d
            c['p'] = gen_path(rng, d, keys)
            c['v'] = gen_tree(rng, rng.randint(0, 2), keys, True)
        elif kind == 'update_in':
            c['d'] = d
            c['p'] = gen_path(rng, d, keys, 5)
            c['f'] = rng.choice(['const', 'merge'])
            c['t'] = gen_tree(rng, rng.randint(0, 2), keys, c['f'] == 'const')
            if c['f'] == 'merge' and not isinstance(c['t'], dict):
                c['t'] = {}
            cur = node_of(d, c['p'])
            if c['f'] == 'merge' and cur is not None and not isinstance(cur, dict):
                c['f'] = 'const'    # deep_merge onto an int leaf is outside update_in's contract
        elif kind == 'paths_to_dict':
            if rng.random() < 0.6:
                # leaves of a tree, possibly shuffled
                pl = [[list(p), v] for p, v in leaf_paths(d)]
                if rng.random() < 0.5:
                    rng.shuffle(pl)
            else:
                pl = [[gen_path(rng, d, keys, 4), gen_tree(rng, rng.randint(0, 1), keys, True)]
                      for _ in range(rng.randint(0, 5))]
            c['pl'] = pl
        elif kind in ('dict_to_paths', 'hier_depth'):
            c['d'] = d
            c['root'] = [rng.choice(keys) for _ in range(rng.randint(0, 2))]
        elif kind == 'deep_merge':
            c['d'] = d
            c['m'] = gen_tree(rng, rng.randint(1, 4), keys)
        elif kind in ('walk', 'path_to', 'establish', 'path_for'):
            # store trees: leaves hold ints; top is a dict
            c['d'] = d
            nodes = existing_paths(d)
            c['a'] = list(rng.choice(nodes))
            c['b'] = list(rng.choice(nodes))
            if rng.random() < 0.5:
                # a relative path that mostly stays inside the tree
                r = []
                cur = list(c['a'])
                for _ in range(rng.randint(0, 7)):
                    if cur and rng.random() < 0.45:
                        r.append('..')
                        cur.pop()
                    else:
                        sub = node_of(d, cur)
                        if isinstance(sub, dict) and sub and rng.random() < 0.85:
                            k = rng.choice(list(sub.keys()))
                        else:
                            k = rng.choice(keys)
                        r.append(k)
                        cur.append(k)
                c['r'] = r
            else:
                c['r'] = gen_segs(rng, None, keys, 7)
            if kind == 'establish':
                c['r'] = clip_below_leaf(d, c['a'], c['r'])
        cases.append(c)
    # path_for / path_to on hierarchies that are re-arranged while they are being asked: structural histories
    # (as C09, with moves of compartments and of nested cells); after every update every node is asked for its path
    from harness import struct, nestmove
    for _ in range(n // 40):
        cases.append({'kind': 'hist', 'hist': struct.gen_history(rng, rng.randint(3, 8), allow_bad=False,
                                                                 only_kinds=['generate', 'generate', 'add', 'move', 'move', 'delete'])})
        cases.append(nestmove.gen_case(rng))
    return cases


def leaf_paths(d, prefix=()):
    if isinstance(d, dict):
        out = []
        for k, v in d.items():
            out.extend(leaf_paths(v, prefix + (k,)))
        return out
    return [(prefix, d)]


def node_of(d, path):
    for k in path:
        if not isinstance(d, dict) or k not in d:
            return None
        d = d[k]
    return d


def clip_below_leaf(d, a, r):
    """cut the relative path before it would create a node below a value leaf or climb above the root
    (the latter is kept: it is the ENoOuter error case)"""
    cur = list(a)
    out = []
    shadow = copy.deepcopy(d)
    for s in r:
        if s == '..':
            if not cur:
                out.append(s)
                return out
            cur.pop()
            out.append(s)
        else:
            node = node_of(shadow, cur)
            if not isinstance(node, dict):
                return out
            if s not in node:
                node[s] = {}
            elif not isinstance(node[s], dict):
                # stepping onto an existing leaf is fine, but nothing below it
                cur.append(s)
                out.append(s)
                return out
            cur.append(s)
            out.append(s)
    return out


# ------------------------------------------------------------------ implementation side

def exc_enum(e):
    s = str(e)
    if isinstance(e, TypeError):
        return 'ETypeThroughLeaf'
    if 'is not a valid path' in s:
        return 'EInvalidPath'
    if 'outer does not exist' in s:
        return 'ENoOuter'
    if isinstance(e, (AttributeError,)):
        return 'ETypeThroughLeaf'
    return 'EOther:' + type(e).__name__


def to_store_config(d):
    if isinstance(d, dict):
        return {k: to_store_config(v) for k, v in d.items()}
    return {'_default': d, '_value': d}


def dump_store(s):
    if s.inner:
        return {k: dump_store(v) for k, v in s.inner.items()}
    if s.leaf:
        return s.value
    return {}


def attempt(f):
    try:
        return {'ok': f()}
    except Exception as e:  # noqa
        return {'err': exc_enum(e)}


SENT = object()


def run_impl(c):
    from vivarium.library import topology as T
    from vivarium.library.dict_utils import deep_merge
    from vivarium.core.process import assoc_in
    from vivarium.core.store import Store, hierarchy_depth
    kind = c['kind']
    if kind == 'norm':
        return {'ok': list(T.normalize_path(tuple(c['p'])))}
    if kind == 'get_in':
        def f():
            r = T.get_in(copy.deepcopy(c['d']), tuple(c['p']), SENT)
            return {'default': True} if r is SENT else {'value': r}
        return attempt(f)
    if kind == 'delete_in':
        def f():
            d = copy.deepcopy(c['d'])
            T.delete_in(d, tuple(c['p']))
            return d
        return attempt(f)
    if kind == 'assoc_path':
        def f():
            d = copy.deepcopy(c['d'])
            r = T.assoc_path(d, tuple(c['p']), copy.deepcopy(c['v']))
            assert r is d
            return d
        return attempt(f)
    if kind == 'assoc_in':
        def f():
            d = copy.deepcopy(c['d'])
            r = assoc_in(d, tuple(c['p']), copy.deepcopy(c['v']))
            if d != c['d']:
                raise AssertionError('assoc_in mutated its argument')
            return r
        return attempt(f)
    if kind == 'update_in':
        d = copy.deepcopy(c['d'])
        t = c['t']
        if c['f'] == 'const':
            fn = lambda cur: copy.deepcopy(t)  # noqa
        else:
            fn = lambda cur: deep_merge(copy.deepcopy(cur), copy.deepcopy(t))  # noqa
        res = attempt(lambda: T.update_in(d, tuple(c['p']), fn))
        # the argument as mutated by setdefault (only meaningful when no exception)
        return {'res': res, 'arg': {'ok': d} if 'ok' in res else {'err': res['err']}}
    if kind == 'paths_to_dict':
        return attempt(lambda: T.paths_to_dict(
            [(tuple(p), copy.deepcopy(v)) for p, v in c['pl']]))
    if kind == 'dict_to_paths':
        return {'ok': [[list(p), v] for p, v in T.dict_to_paths(tuple(c['root']), c['d'])]}
    if kind == 'hier_depth':
        return {'ok': [[list(p), v] for p, v in hierarchy_depth(c['d']).items()]}
    if kind == 'deep_merge':
        return {'ok': deep_merge(copy.deepcopy(c['d']), copy.deepcopy(c['m']))}
    # ---- store navigation
    root = Store(to_store_config(c['d']))
    a = root.get_path(tuple(c['a']))
    if kind == 'walk':
        def f():
            n = a.get_path(tuple(c['r']))
            return list(n.path_for())
        return attempt(f)
    if kind == 'path_to':
        b = root.get_path(tuple(c['b']))
        rel = a.path_to(b)
        reached = a.get_path(rel)
        return {'ok': list(rel), 'reaches': reached is b}
    if kind == 'path_for':
        pf = a.path_for()
        return {'ok': list(pf), 'reaches': root.get_path(pf) is a, 'top': a.top() is root}
    if kind == 'establish':
        def f():
            n = a._establish_path(tuple(c['r']), {})
            return [dump_store(root), list(n.path_for())]
        return attempt(f)
    raise ValueError(kind)


# ------------------------------------------------------------------ oracle (laws on the implementation)

def diverging(rng, p, keys):
    """a path that differs from p at some index"""
    if not p:
        return None
    i = rng.randrange(len(p))
    others = [k for k in keys + ['zz'] if k != p[i]]
    return p[:i] + [rng.choice(others)] + [rng.choice(keys) for _ in range(rng.randint(0, 2))]


def oracle(c, ob, rng):
    from vivarium.library import topology as T
    msgs = []
    kind = c['kind']
    keys = KEYS

    def gi(d, p):
        try:
            r = T.get_in(d, tuple(p), SENT)
            return ('default',) if r is SENT else ('v', r)
        except TypeError:
            return ('err',)

    if kind == 'norm':
        n1 = list(T.normalize_path(tuple(ob['ok'])))
        if n1 != ob['ok']:
            msgs.append(('normalize_path not idempotent on %r' % (c['p'],), 'normalize-idem'))
    elif kind in ('assoc_path', 'assoc_in') and 'ok' in ob:
        d2 = ob['ok']
        if c['p']:
            if gi(d2, c['p']) != ('v', c['v']):
                msgs.append(('get_in after %s does not read back the value' % kind, kind + '-readback'))
        for _ in range(3):
            q = diverging(rng, c['p'], keys)
            if q is not None and gi(d2, q) != gi(c['d'], q):
                msgs.append(('%s changed an unrelated path %r' % (kind, q), kind + '-frame'))
    elif kind == 'delete_in' and 'ok' in ob:
        d2 = ob['ok']
        if c['p'] and gi(d2, c['p']) not in (('default',),):
            msgs.append(('delete_in left the entry in place', 'delete-removes'))
        for _ in range(3):
            q = diverging(rng, c['p'], keys)
            if q is not None and gi(d2, q) != gi(c['d'], q):
                msgs.append(('delete_in changed an unrelated path %r' % (q,), 'delete-frame'))
        if gi(c['d'], c['p']) == ('default',) and d2 != c['d']:
            msgs.append(('delete_in through a missing key changed the dict', 'delete-noop'))
    elif kind == 'update_in' and 'ok' in ob['res']:
        d2 = ob['res']['ok']
        for _ in range(3):
            q = diverging(rng, c['p'], keys)
            if q is not None and gi(d2, q) != gi(c['d'], q):
                msgs.append(('update_in changed an unrelated path %r' % (q,), 'update_in-frame'))
    elif kind == 'dict_to_paths':
        d = c['d']
        if isinstance(d, dict) and not has_empty_inner(d):
            back = T.paths_to_dict([(tuple(p[len(c['root']):]), v) for p, v in ob['ok']])
            if back != d or list(back.keys()) != list(d.keys()):
                msgs.append(('paths_to_dict(dict_to_paths(d)) != d', 'paths-inverse'))
    elif kind == 'walk' and 'ok' in ob:
        lex = list(T.normalize_path(tuple(c['a']) + tuple(c['r'])))
        if lex != ob['ok']:
            msgs.append(('walking %r from %r reaches %r but the lexical normal form is %r'
                         % (c['r'], c['a'], ob['ok'], lex), 'walk-lexical'))
    elif kind == 'path_to':
        if not ob['reaches']:
            msgs.append(('a.get_path(a.path_to(b)) is not b', 'path_to-reaches'))
    elif kind == 'path_for':
        if not ob['reaches'] or ob['ok'] != c['a']:
            msgs.append(('root.get_path(n.path_for()) is not n', 'path_for-reaches'))
    return msgs


def has_empty_inner(d):
    for v in d.values():
        if isinstance(v, dict):
            if not v or has_empty_inner(v):
                return True
    return False


# ------------------------------------------------------------------ rendering to Coq

class R:
    def __init__(self):
        self.names = common.Names(KEYS)

    def key(self, k):
        return cN(self.names.get(k))

    def path(self, p):
        return clist([self.key(k) for k in p])

    def segs(self, p):
        return clist(['Up' if s == '..' else '(Dn %s)' % self.key(s) for s in p])

    def tree(self, d):
        if isinstance(d, dict):
            return '(Nd %s)' % clist([cpair(self.key(k), self.tree(v)) for k, v in d.items()])
        if isinstance(d, bool) or not isinstance(d, int):
            raise ValueError('unrenderable leaf %r' % (d,))
        return '(Lf %s)' % cZ(d)

    def res(self, ob, f):
        if 'ok' in ob:
            return '(Ok %s)' % f(ob['ok'])
        e = ob['err']
        if e.startswith('EOther'):
            e = 'EOther'
        return '(Err %s)' % e


def render(c, ob):
    r = R()
    k = c['kind']
    if k == 'norm':
        return '(CNorm %s %s)' % (r.segs(c['p']), r.segs(ob['ok']))
    if k == 'get_in':
        return '(CGetIn %s %s %s)' % (r.tree(c['d']), r.path(c['p']), r.res(
            ob, lambda o: 'None' if 'default' in o else '(Some %s)' % r.tree(o['value'])))
    if k == 'delete_in':
        return '(CDeleteIn %s %s %s)' % (r.tree(c['d']), r.path(c['p']), r.res(ob, r.tree))
    if k == 'assoc_path':
        return '(CAssocPath %s %s %s %s)' % (r.tree(c['d']), r.path(c['p']), r.tree(c['v']), r.res(ob, r.tree))
    if k == 'assoc_in':
        return '(CAssocIn %s %s %s %s)' % (r.tree(c['d']), r.path(c['p']), r.tree(c['v']), r.res(ob, r.tree))
    if k == 'update_in':
        f = '(%s %s)' % ('UConst' if c['f'] == 'const' else 'UMerge', r.tree(c['t']))
        return '(CUpdateIn %s %s %s %s %s)' % (r.tree(c['d']), r.path(c['p']), f,
                                               r.res(ob['res'], r.tree), r.res(ob['arg'], r.tree))
    if k == 'paths_to_dict':
        pl = clist([cpair(r.path(p), r.tree(v)) for p, v in c['pl']])
        return '(CPathsToDict %s %s)' % (pl, r.res(ob, r.tree))
    if k == 'dict_to_paths':
        e = clist([cpair(r.path(p), cZ(v)) for p, v in ob['ok']])
        return '(CDictToPaths %s %s %s)' % (r.path(c['root']), r.tree(c['d']), e)
    if k == 'hier_depth':
        e = clist([cpair(r.path(p), cZ(v)) for p, v in ob['ok']])
        return '(CHierDepth %s %s)' % (r.tree(c['d']), e)
    if k == 'deep_merge':
        return '(CDeepMerge %s %s %s)' % (r.tree(c['d']), r.tree(c['m']), r.tree(ob['ok']))
    if k == 'walk':
        return '(CWalk %s %s %s %s)' % (r.tree(c['d']), r.path(c['a']), r.segs(c['r']), r.res(ob, r.path))
    if k == 'path_to':
        return '(CPathTo %s %s %s)' % (r.path(c['a']), r.path(c['b']), r.segs(ob['ok']))
    if k == 'path_for':
        # path_for is compared through the oracle and CWalk with an empty relative path
        return '(CWalk %s %s [] (Ok %s))' % (r.tree(c['d']), r.path(c['a']), r.path(ob['ok']))
    if k == 'establish':
        return '(CEstablish %s %s %s %s)' % (
            r.tree(c['d']), r.path(c['a']), r.segs(c['r']),
            r.res(ob, lambda o: cpair(r.tree(o[0]), r.path(o[1]))))
    raise ValueError(k)


def nontrivial(c, ob):
    k = c['kind']
    if k in ('get_in', 'delete_in', 'assoc_path', 'assoc_in', 'update_in'):
        return len(c['p']) > 0
    if k in ('walk', 'establish'):
        return len(c['r']) > 0
    return True


CHECK_FN = 'check_case'
BAD_TERM = '(CNorm [Up] [])'


def stat_key(c, ob):
    err = 'err' in ob or ('res' in ob and 'err' in ob['res'])
    return c['kind'] + ('/error' if err else '/ok')


def run(cases, tier='quick', seed=0):
    from harness import struct, nestmove
    me = __import__('harness.c17', fromlist=['x'])

    def links_oracle(c, ob, rng):
        for i, o in enumerate(ob.get('obs', ob.get('steps', []))):
            if o.get('links'):
                ln = o['links'][0]
                return [('after structural update %d the node at %r answers path_for() = %r: following it from the '
                         'root does not reach the node' % (i, ln[0], ln[1]), 'upward-link')]
        return []

    class Hist:
        __name__ = 'harness.struct'
        IMPORTS, CHECK_FN, BAD_TERM = struct.IMPORTS, struct.CHECK_FN, struct.BAD_TERM
        run_impl, render, oracle = staticmethod(struct.run_impl), staticmethod(struct.render), staticmethod(links_oracle)
        nontrivial, stat_key = staticmethod(struct.nontrivial), staticmethod(struct.stat_key)

    class Nest:
        __name__ = 'harness.nestmove'
        IMPORTS, CHECK_FN, BAD_TERM = struct.IMPORTS, struct.CHECK_FN, struct.BAD_TERM
        run_impl, render, oracle = staticmethod(nestmove.run_impl), staticmethod(nestmove.render), staticmethod(links_oracle)
        nontrivial, stat_key = staticmethod(nestmove.nontrivial), staticmethod(nestmove.stat_key)
    return common.merge_streams(cases, [
        (lambda c: c['kind'] not in ('hist', 'nestmove'), lambda cs: common.generic_run(me, cs, seed)),
        (lambda c: c['kind'] == 'hist', lambda cs: common.generic_run(Hist, cs, seed, shard=40)),
        (lambda c: c['kind'] == 'nestmove', lambda cs: common.generic_run(Nest, cs, seed, shard=40))])


def model_output(case, ob):
    if case['kind'] == 'hist':
        from harness import struct
        return struct.model_output(case, ob)
    if case['kind'] == 'nestmove':
        from harness import nestmove
        return nestmove.model_output(case, ob)
    return common.coq_eval('C17', IMPORTS, 'model_out %s' % render(case, ob))
