"""C19 — timeline events fire exactly once, on time, in any listing order.
Family `tl`: TimelineProcess.initialize_timeline / next_update against Model/Timeline.v, and
the whole thing inside an Engine (oracle computed from the listing alone)."""
import copy
import io
import contextlib
import math
import json
import random

from harness import common
from harness.common import cN, cZ, clist, cpair

FAMILY = 'tl'
RULE = ('timelines of 0-10 events in random listing order over 1-4 variables, times on a 0.5 grid '
        'with duplicates and clusters between two ticks; kinds: init (timeline after ports_schema), '
        'run (successive next_update calls at increasing clocks), engine (real Engine run with an '
        'accumulating witness process; expected trajectory computed from the listing alone). '
        'Non-trivial: at least two events; distinct by rendered term.')
ASSUMPTIONS = [
    'event times, clocks and timesteps lie on a 0.25 grid below 2^10 (float arithmetic exact); mapped to integer ticks x4',
    'event values are ints; variables are (port, name) or (port, sub, name) paths, interned',
]
IMPORTS = 'From Viv Require Import Base.Assoc Model.Timeline Corr.C19c.'
CHECK_FN = 'check_case'
BAD_TERM = '(TInit [] [(0%Z, [])])'
SCALE = 4

VARS = [('p', 'x'), ('p', 'y'), ('q', 'x'), ('q', 'sub', 'z')]


def gen_timeline(rng, nmax=10):
    n = rng.randint(0, nmax)
    style = rng.random()
    evs = []
    for _ in range(n):
        if style < 0.3:
            t = rng.choice([0, 1, 2, 3, 5, 8])
        elif style < 0.6:
            t = rng.randint(0, 24) / 2.0
        else:
            t = rng.choice([0.0, 0.5, 1.25, 2.0, 2.5, 2.75, 3.0, 7.0, 7.25])
        nv = rng.randint(1, 2)
        cd = {}
        for v in rng.sample(VARS, nv):
            cd[v] = rng.randint(-9, 99)
        evs.append([t, [[list(k), v] for k, v in cd.items()]])
    # the same change listed again at other times (see py_timeline)
    for _ in range(rng.choice([0, 0, 1, 2])):
        if evs:
            src = rng.choice(evs)
            evs.append([rng.choice([e[0] for e in evs] + [rng.randint(0, 12)]), [list(x) for x in src[1]]])
    order = rng.random()
    if order < 0.3:
        evs.sort(key=lambda e: e[0])
    elif order < 0.45:
        evs.sort(key=lambda e: -e[0])
    return evs


def generate(seed, tier, enlarged=False):
    rng = random.Random(seed * 104729 + 19)
    n = 500 if tier == 'quick' else 10000
    if enlarged:
        n *= 3
    cases = [
        # corpus: the pinned-tree witnesses
        {'kind': 'init', 'evs': [[0, [[['p', 'x'], 1]]], [10, [[['p', 'x'], 2]]], [5, [[['p', 'x'], 3]]]]},
        {'kind': 'run', 'evs': [[1, [[['p', 'x'], 1]]], [2, [[['p', 'y'], 2]]], [3, [[['q', 'x'], 3]]]],
         'ts': 1.0, 'clocks': [5.0, 6.0]},
        {'kind': 'engine', 'evs': [[5, [[['p', 'x'], 7]]], [0, [[['p', 'y'], 3]]]], 'ts': 1, 'total': 8},
        {'kind': 'engine', 'evs': [[4, [[['p', 'x'], 50]]]], 'ts': 2, 'total': 8, 'segs': [3, 3, 2]},
        {'kind': 'engine', 'evs': [[2, [[['p', 'x'], 50]]], [5, [[['p', 'y'], 9]]]], 'ts': 1, 'total': 7, 'rerun': True},
    ]
    for i in range(n):
        r = i % 10
        evs = gen_timeline(rng)
        if r < 3:
            cases.append({'kind': 'init', 'evs': evs})
        elif r < 7:
            ts = rng.choice([0.5, 1.0, 2.0, 3.0, 0.25])
            k = rng.randint(1, 12)
            start = rng.choice([0.0, 0.0, 1.0])
            if rng.random() < 0.7:
                clocks = [start + j * ts for j in range(k)]
            else:
                c, clocks = start, []
                for _ in range(k):
                    clocks.append(c)
                    c += rng.choice([0.25, 0.5, 1.0, 2.0, 4.0])
            cases.append({'kind': 'run', 'evs': evs, 'ts': ts, 'clocks': clocks})
        else:
            evs = [e for e in evs if all(len(p) == 2 for p, _ in e[1])]
            evs = [[float(int(t)) if rng.random() < 0.5 else t, cd] for t, cd in evs]
            cases.append({'kind': 'engine', 'evs': evs, 'ts': rng.choice([1, 2, 3]),
                          'total': rng.randint(1, 16)})
            if rng.random() < 0.5:
                # the run split into several update() calls: ticks cut short by the end of a segment
                segs, left = [], cases[-1]['total']
                while left > 0:
                    segs.append(rng.randint(1, min(left, 5)))
                    left -= segs[-1]
                cases[-1]['segs'] = segs
            if rng.random() < 0.3:
                cases[-1]['rerun'] = True
    return cases


# ------------------------------------------------------------------ implementation

def py_timeline(evs):
    """events whose change dicts have the same content are given the very same dict object (a user naming a dict,
    e.g. `pulse_on`, and listing it at several times)"""
    seen, out = {}, []
    for t, cd in evs:
        key = json.dumps(cd, sort_keys=True)
        if key not in seen:
            seen[key] = {tuple(p): v for p, v in cd}
        out.append((t, seen[key]))
    return out


def flatten_update(u, prefix=()):
    out = {}
    for k, v in u.items():
        if isinstance(v, dict) and '_value' in v and '_updater' in v:
            out[prefix + (k,)] = v['_value']
        elif isinstance(v, dict):
            out.update(flatten_update(v, prefix + (k,)))
    return out


def run_impl(c):
    from vivarium.processes.timeline import TimelineProcess
    if c['kind'] == 'init':
        p = TimelineProcess({'timeline': py_timeline(c['evs'])})
        p.ports_schema()
        return {'timeline': [[t, [[list(k), v] for k, v in d.items()]] for t, d in p.timeline],
                'ports': sorted(p.ports_schema().keys())}
    if c['kind'] == 'run':
        p = TimelineProcess({'timeline': py_timeline(c['evs']), 'time_step': c['ts']})
        p.ports_schema()
        fired = []
        for clk in c['clocks']:
            u = p.next_update(c['ts'], {'global': {'time': clk}})
            g = u.pop('global')
            assert g == {'time': c['ts']}, g
            fired.append([[list(k), v] for k, v in flatten_update(u).items()])
        return {'fired': fired, 'rest': [t for t, _ in p.timeline]}
    if c['kind'] == 'engine':
        return run_engine(c)
    raise ValueError(c['kind'])


def run_engine(c):
    from vivarium.core.engine import Engine
    from vivarium.core.process import Process
    from vivarium.processes.timeline import TimelineProcess
    from vivarium.core.composition import add_timeline

    class Witness(Process):
        """declares the driven variables and adds 1 to each of them every second"""
        defaults = {'time_step': 1.0}

        def ports_schema(self):
            return {
                'p': {'x': {'_default': 0, '_emit': True}, 'y': {'_default': 0, '_emit': True}},
                'q': {'x': {'_default': 0, '_emit': True}}}

        def next_update(self, timestep, states):
            return {'p': {'x': 1, 'y': 1}, 'q': {'x': 1}}

    processes = {'witness': Witness()}
    topology = {'witness': {'p': ('p',), 'q': ('q',)}}
    add_timeline(processes, topology, {
        'timeline': py_timeline(c['evs']), 'time_step': float(c['ts'])})
    out = {}
    # (`rerun`: the same process objects - the same TimelineProcess - take part in a second, fresh simulation)
    for name in (['rows', 'rows_again'] if c.get('rerun') else ['rows']):
        with contextlib.redirect_stdout(io.StringIO()):
            eng = Engine(processes=processes, topology=topology, emitter='timeseries',
                         display_info=False, progress_bar=False)
            for seg in c.get('segs') or [c['total']]:
                eng.update(seg)
            data = eng.emitter.get_data()
        rows = {}
        for t, row in data.items():
            rows[str(float(t))] = {'p.x': row['p']['x'], 'p.y': row['p']['y'], 'q.x': row['q']['x']}
        out[name] = rows
    return out


# ------------------------------------------------------------------ oracle

def expected_rows(c):
    """trajectory of the three witnessed variables computed from the listing alone"""
    ts, total = c['ts'], c['total']
    # the ticks of the timeline process: update() forces the last interval of every segment to end with the segment,
    # and the next tick starts there
    ticks, t, end = [], 0, 0
    for seg in c.get('segs') or [total]:
        end += seg
        while t < end:
            ticks.append((t, min(t + ts, end)))
            t = ticks[-1][1]
    # firing tick of every event: the first tick that starts at or after its time; applied when that tick ends
    sets = []   # (apply_time, event_time, listing_index, var, value)
    for idx, (t, cd) in enumerate(c['evs']):
        hit = [tk for tk in ticks if tk[0] >= t]
        if hit:
            for p, v in cd:
                sets.append((hit[0][1], t, idx, '.'.join(p), v))
    rows = {}
    for T in range(0, total + 1):
        row = {}
        for var in ('p.x', 'p.y', 'q.x'):
            hits = [s for s in sets if s[3] == var and s[0] <= T]
            if hits:
                at, _, _, _, v = max(hits, key=lambda s: (s[0], s[1], s[2]))
                row[var] = v + (T - at)      # witness keeps adding 1 per second afterwards
            else:
                row[var] = T
        rows[str(float(T))] = row
    return rows


def oracle(c, ob, rng):
    msgs = []
    if 'err' in ob:
        return [('implementation raised: %s' % ob.get('crash', ob['err']), 'crash-' + c['kind'])]
    if c['kind'] == 'engine':
        exp = expected_rows(c)
        # with forced completion the witness may be cut; total is integral so rows are at 0..total
        for which in ('rows', 'rows_again'):
            got = ob.get(which)
            if got is None:
                continue
            for t, row in exp.items():
                if t not in got:
                    continue     # a row is only emitted when something was applied at that time
                if got[t] != row:
                    msgs.append(('%sat time %s the driven variables are %r, expected %r from the listing'
                                 % ('second simulation with the same TimelineProcess: ' if which == 'rows_again' else '',
                                    t, got[t], row), 'engine-trajectory'))
                    break
    elif c['kind'] == 'init':
        tl = ob['timeline']
        times = [t for t, _ in tl]
        if times != sorted(set(times)):
            msgs.append(('initialised timeline is not sorted with distinct times: %r' % times, 'init-unsorted'))
        listed = sorted(set(t for t, _ in c['evs']))
        if sorted(set(times)) != listed:
            msgs.append(('initialised timeline has times %r, listed %r' % (times, listed), 'init-lost-event'))
        else:
            for t, cd in tl:
                want = {}
                for t2, cd2 in c['evs']:
                    if t2 == t:
                        for p, v in cd2:
                            want[tuple(p)] = v
                if {tuple(p): v for p, v in cd} != want:
                    msgs.append(('event at %r is %r, expected merged %r' % (t, cd, want), 'init-merge'))
                    break
    elif c['kind'] == 'run':
        # every listed event fires at the first clock >= its time, exactly once
        clocks = c['clocks']
        want = [dict() for _ in clocks]
        order = sorted(range(len(c['evs'])), key=lambda i: (c['evs'][i][0], i))
        for i in order:
            t, cd = c['evs'][i]
            ks = [k for k, clk in enumerate(clocks) if clk >= t]
            if ks:
                for p, v in cd:
                    want[ks[0]][tuple(p)] = v
        got = [{tuple(p): v for p, v in f} for f in ob['fired']]
        if got != want:
            k = next(i for i in range(len(want)) if got[i] != want[i])
            msgs.append(('tick %d (clock %r) fired %r, expected %r' % (k, clocks[k], got[k], want[k]),
                         'run-fired'))
    return msgs


# ------------------------------------------------------------------ rendering

class R:
    def __init__(self):
        self.names = common.Names()

    def var(self, p):
        return cN(self.names.get('.'.join(p)))

    def asg(self, cd):
        return clist([cpair(self.var(p), cZ(v)) for p, v in cd])

    def tz(self, t):
        x = t * SCALE
        assert float(x).is_integer(), t
        return cZ(int(x))

    def events(self, evs):
        return clist([cpair(self.tz(t), self.asg(cd)) for t, cd in evs])


def render(c, ob):
    if 'err' in ob:
        raise ValueError('impl error')
    r = R()
    if c['kind'] == 'init':
        return '(TInit %s %s)' % (r.events(c['evs']), r.events(ob['timeline']))
    if c['kind'] == 'run':
        return '(TRun %s %s %s %s)' % (
            r.events(c['evs']), clist([r.tz(x) for x in c['clocks']]),
            clist([r.asg(f) for f in ob['fired']]), clist([r.tz(t) for t in ob['rest']]))
    if c['kind'] == 'engine':
        # the engine run is reduced to the model-level statement: the timeline process is
        # invoked at clocks 0, ts, 2ts, ... while (k+1)*ts <= total
        ts, total = c['ts'], c['total']
        clocks = [k * ts for k in range(0, int(total // ts))]
        evs = c['evs']
        # reconstruct what fired per tick from the emitted rows is the oracle's job; here the
        # model is only asked for the initialised timeline (kept comparable through `init`)
        return '(TInit %s (init_timeline %s))' % (r.events(evs), r.events(evs))
    raise ValueError(c['kind'])


def nontrivial(c, ob):
    return len(c['evs']) >= 2


def stat_key(c, ob):
    return '%s/%d-events' % (c['kind'], min(len(c['evs']), 5) if len(c['evs']) < 5 else 5)


def run(cases, tier='quick', seed=0):
    return common.generic_run(__import__('harness.c19', fromlist=['x']), cases, seed)


def model_output(case, ob):
    t = render(case, ob)
    return {'model': common.coq_eval('C19', IMPORTS, 'model_out %s' % t),
            'agrees_with_pinned_model': common.coq_eval('C19', IMPORTS, 'check_case_pinned %s' % t)}
