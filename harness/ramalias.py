"""RAM-emitter snapshot stream (C12): values that live on as mutable Python objects (a list published through a
`set` updater by a process that keeps appending to it; a list updated in place by a custom updater) must appear in
the row of time t as they were at time t, whenever the data are read back.  Oracle only."""
import contextlib
import io

_KIT = None


def kit():
    global _KIT
    if _KIT:
        return _KIT
    from vivarium.core.process import Process

    def append_in_place(current, new):
        current.append(new)
        return current

    class Journal(Process):
        defaults = {'time_step': 1.0}

        def __init__(self, parameters=None):
            super().__init__(parameters)
            self.journal = []

        def ports_schema(self):
            return {'journal': {'_default': [], '_updater': 'set', '_emit': True},
                    'tally': {'_default': [], '_updater': append_in_place, '_emit': True},
                    'count': {'_default': 0, '_emit': True}}

        def next_update(self, timestep, states):
            self.journal.append(states['count'])
            return {'journal': self.journal, 'tally': states['count'] * 10, 'count': 1}
    _KIT = Journal
    return _KIT


def gen_case(rng):
    n = rng.randint(2, 6)
    return {'kind': 'ramalias', 'chunks': [rng.randint(1, 3) for _ in range(rng.randint(1, 3))],
            'read_between': rng.random() < 0.5, 'ts': rng.choice([1.0, 1.0, 0.5])}


def run_impl(c):
    from vivarium.core.engine import Engine
    Journal = kit()
    reads = []
    with contextlib.redirect_stdout(io.StringIO()):
        eng = Engine(processes={'j': Journal({'time_step': c['ts']})},
                     topology={'j': {'journal': ('journal_store',), 'tally': ('tally',), 'count': ('count',)}},
                     emitter='timeseries', display_info=False)
        for chunk in c['chunks']:
            eng.update(chunk)
            if c['read_between']:
                reads.append({str(t): r for t, r in eng.emitter.get_data().items()})
        reads.append({str(t): r for t, r in eng.emitter.get_data().items()})
        eng.end()
    return {'reads': reads}


def oracle(c, ob, rng):
    for data in ob['reads']:
        for ts, row in data.items():
            k = int(round(float(ts) / c['ts']))          # number of updates applied by that time
            want_j, want_t = list(range(k)), [i * 10 for i in range(k)]
            if row.get('journal_store') != want_j or row.get('tally') != want_t or row.get('count') != k:
                return [('the row of time %s holds journal %r, tally %r, count %r; at that time the hierarchy held %r, '
                         '%r, %d' % (ts, row.get('journal_store'), row.get('tally'), row.get('count'), want_j, want_t, k),
                         'row-not-a-snapshot')]
    return []


def nontrivial(c, ob):
    return len(ob['reads'][-1]) >= 3


def stat_key(c, ob):
    return 'ramalias/read_between=%s' % c['read_between']
