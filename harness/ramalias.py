"""RAM-emitter snapshot stream (C12): values that live on as mutable Python objects (a list published through a
`set` updater by a process that keeps appending to it; a list updated in place by a custom updater) must appear in
the row of time t as they were at time t, whenever the data are read back.  Oracle only."""
import contextlib
import io

_KIT = None


def kit():
    global _KIT
    if _KIT:
        return _KIT
    from vivarium.core.process import Process

    def append_in_place(current, new):
        current.append(new)
        return current

    class Journal(Process):
        defaults = {'time_step': 1.0}

        def __init__(self, parameters=None):
            super().__init__(parameters)
            self.journal = []

        def ports_schema(self):
            return {'journal': {'_default': [], '_updater': 'set', '_emit': True},
                    'tally': {'_default': [], '_updater': append_in_place, '_emit': True},
                    'count': {'_default': 0, '_emit': True}}

        def next_update(self, timestep, states):
            self.journal.append(states['count'])
            return {'journal': self.journal, 'tally': states['count'] * 10, 'count': 1}
    _KIT = Journal
    return _KIT


def gen_case(rng):
    if rng.random() < 0.35:
        # several engines writing into one table (shared_ram) under embed paths with a common prefix, advanced in turns
        return {'kind': 'ramalias', 'shared': True, 'n': rng.randint(2, 3), 'rounds': rng.randint(1, 3),
                'ts': rng.choice([1.0, 0.5]), 'deep': rng.random() < 0.5}
    return {'kind': 'ramalias', 'chunks': [rng.randint(1, 3) for _ in range(rng.randint(1, 3))],
            'read_between': rng.random() < 0.5, 'ts': rng.choice([1.0, 1.0, 0.5])}


def run_shared(c):
    from vivarium.core.engine import Engine
    from vivarium.core.emitter import SharedRamEmitter
    Journal = kit()
    SharedRamEmitter.saved_data.clear()
    engines = []
    with contextlib.redirect_stdout(io.StringIO()):
        for i in range(c['n']):
            embed = ('agents', str(i)) if c['deep'] else ('e%d' % i,)
            engines.append(Engine(
                processes={'j': Journal({'time_step': c['ts']})},
                topology={'j': {'journal': ('journal_store',), 'tally': ('tally',), 'count': ('count',)}},
                emitter={'type': 'shared_ram', 'embed_path': embed}, display_info=False))
        err = None
        try:
            for _ in range(c['rounds']):
                for eng in engines:
                    eng.update(1.0)
        except Exception as e:
            err = '%s: %s' % (type(e).__name__, str(e)[:200])
        data = {str(t): r for t, r in engines[0].emitter.get_data().items()}
        import copy
        data = copy.deepcopy(data)
        for eng in engines:
            eng.end()
        SharedRamEmitter.saved_data.clear()
    return {'shared': data, 'err': err}


def oracle_shared(c, ob):
    if ob['err']:
        return [('engines sharing one history table: %s' % ob['err'], 'shared-table-raised')]
    for ts, row in ob['shared'].items():
        k = int(round(float(ts) / c['ts']))
        for i in range(c['n']):
            sub = row.get('agents', {}).get(str(i)) if c['deep'] else row.get('e%d' % i)
            want = {'journal_store': list(range(k)), 'tally': [x * 10 for x in range(k)], 'count': k}
            if sub != want:
                return [('shared table, time %s: engine %d wrote %r, the table holds %r' % (ts, i, want, sub),
                         'shared-row-lost')]
    return []


def run_impl(c):
    if c.get('shared'):
        return run_shared(c)
    from vivarium.core.engine import Engine
    Journal = kit()
    reads = []
    with contextlib.redirect_stdout(io.StringIO()):
        eng = Engine(processes={'j': Journal({'time_step': c['ts']})},
                     topology={'j': {'journal': ('journal_store',), 'tally': ('tally',), 'count': ('count',)}},
                     emitter='timeseries', display_info=False)
        for chunk in c['chunks']:
            eng.update(chunk)
            if c['read_between']:
                reads.append({str(t): r for t, r in eng.emitter.get_data().items()})
        reads.append({str(t): r for t, r in eng.emitter.get_data().items()})
        eng.end()
    return {'reads': reads}


def oracle(c, ob, rng):
    if c.get('shared'):
        return oracle_shared(c, ob)
    for data in ob['reads']:
        for ts, row in data.items():
            k = int(round(float(ts) / c['ts']))          # number of updates applied by that time
            want_j, want_t = list(range(k)), [i * 10 for i in range(k)]
            if row.get('journal_store') != want_j or row.get('tally') != want_t or row.get('count') != k:
                return [('the row of time %s holds journal %r, tally %r, count %r; at that time the hierarchy held %r, '
                         '%r, %d' % (ts, row.get('journal_store'), row.get('tally'), row.get('count'), want_j, want_t, k),
                         'row-not-a-snapshot')]
    return []


def nontrivial(c, ob):
    if c.get('shared'):
        return len(ob['shared']) >= 2
    return len(ob['reads'][-1]) >= 3


def stat_key(c, ob):
    if c.get('shared'):
        return 'ramalias/shared/deep=%s' % c['deep']
    return 'ramalias/read_between=%s' % c['read_between']
