"""C01 — every process update is applied exactly once, at the end of its interval."""
import random
from harness import common, sched

FAMILY = 'sched'
RULE = ('composites of 0-4 (thorough 0-8) scripted processes: timestep constant or a function of the viewed '
        'state, condition true/false/state-dependent; 1-4 run_for(interval, force)/update(interval) calls with '
        'intervals incl. 0 and ones the timesteps do not divide; dyadic times (1/16 grid). Observed: every '
        'next_update call (timestep, global time, front time, view), every application of an update (logging '
        'updater), every emitted row, fronts after each call. Live stream: structural histories issued inside a running '
        'engine (non-forced run) while sensors with timesteps 1-3 add to a counter outside their compartment: the '
        'counter must equal the number of sensor updates that fell due while their process was registered (updates in '
        'flight of deleted processes are dropped, every other one applied once). Struct stream: structural histories '
        '(as C09) whose updates also carry plain value updates of children: each must arrive (s.n grows by the given '
        'amount), whatever structural keys accompany it. '
        'Non-trivial: >=2 invocations; distinct by term.')
ASSUMPTIONS = [
    'timesteps and intervals are multiples of 1/16 s below 2^10 so that every float operation of run_for is exact',
    'user process code is deterministic and does not mutate the states it is handed',
    'events inside one (time, phase) group are compared as multisets',
]
IMPORTS, CHECK_FN, BAD_TERM = sched.IMPORTS, sched.CHECK_FN, sched.BAD_TERM
PROPS = ('C01',)


def generate(seed, tier, enlarged=False):
    rng = random.Random(seed * 7 + 1)
    n = 300 if tier == 'quick' else 6000
    if enlarged:
        n *= 3
    cases = []
    for i in range(n):
        cases.append(sched.gen_case(rng, max_procs=4 if tier == 'quick' else 8, scripted=False,
                                    emit_steps=(1, 1, 1, 2, 1.5)))
    # updates in flight when their process is deleted: the live stream (structural histories inside a running
    # engine; sensors with timesteps 1-3 adding to a counter outside their compartment)
    from harness import live, struct
    cases += [live.gen_case(rng) for _ in range(n // 6)]
    # corpus: known finding K10 as C01 sees it (the update in flight of a moved compartment's sensor is silently lost)
    cases.append({'kind': 'live', 'hist': [['B', [['generate', 'c01', 9, {'s': {'n': 1}}]]], ['A', [['generate', 'c02', 2, {}], ['generate', 'c03', 0, {}], ['generate', 'c04', 3, {'s': {'n': 2, 'd': 3, 'f': 1, 'g': 5}}]]], ['B', [['add', 'c05', {'s': {'n': 6}}], ['divide', 'c01', [['c06', 1, {}], ['c07', 3, {}]], 520513], ['add', 'c08', {'s': {'n': 2}}]]], ['A', [['add', 'c09', {'s': {'n': 6}}]]], ['B', [['move', 'c05', 'A'], ['move', 'c07', 'A']]]], 'director': 'process', 'refresh': [0], 'extra': 2, 'slow': True, 'entry': 'parts', 'more': {'i3': {'s': {'n': 6}}, 'i1': {'s': {'n': 6}}, 'i2': {'s': {'n': 6}}}})
    # value updates carried by the same update as structural keys (never lost): structural histories as C09
    cases += [{'kind': 'hist', 'hist': struct.gen_history(rng, rng.randint(3, 8))} for _ in range(n // 6)]
    # "a process whose update condition is false contributes nothing" for STEPS (gated by `_condition` or by an
    # overridden update_condition) and for PARALLEL processes with an overridden update_condition (oracle only)
    for i in range(max(6, n // 30)):
        cases.append({'kind': 'condstep', 'script': [rng.random() < 0.5 for _ in range(rng.randint(3, 7))],
                      'own': rng.random() < 0.5, 'init': rng.random() < 0.5})
    for i in range(2 if tier == 'quick' else 12):
        cap = rng.randint(1, 3)
        cases.append({'kind': 'parcond', 'cap': cap, 'total': cap + rng.randint(2, 3)})
    return cases


def run_cond(c):
    import contextlib
    import io
    import multiprocessing
    from vivarium.core.engine import Engine
    from harness.par_kit import GateDriver, GatedStep, Refill
    if c['kind'] == 'condstep':
        params = {'own': c['own']}
        if not c['own']:
            params['_condition'] = ('gate', 'open')
        with contextlib.redirect_stdout(io.StringIO()):
            eng = Engine(processes={'driver': GateDriver({'script': c['script']})}, steps={'gated': GatedStep(params)},
                         flow={'gated': []}, topology={'driver': {'gate': ('gate',)},
                                                        'gated': {'gate': ('gate',), 'out': ('out',)}},
                         initial_state={'gate': {'open': c['init']}}, emitter='timeseries', display_info=False)
            eng.update(len(c['script']))
            data = eng.emitter.get_data()
        return {'rows': {str(float(t)): row['out']['n'] for t, row in data.items()}}
    out = {}
    for mode in ('serial', 'parallel'):
        params = {'cap': c['cap']}
        if mode == 'parallel':
            params['_parallel'] = True
        try:
            with contextlib.redirect_stdout(io.StringIO()):
                eng = Engine(processes={'refill': Refill(params)}, topology={'refill': {'tank': ('tank',)}},
                             emitter='timeseries', display_info=False)
                eng.update(c['total'])
                data = eng.emitter.get_data()
                eng.end()
            out[mode] = {str(float(t)): [row['tank']['level'], row['tank']['calls']] for t, row in data.items()}
        except Exception as e:
            out[mode] = {'err': '%s: %s' % (type(e).__name__, str(e)[:150])}
        for ch in multiprocessing.active_children():
            ch.terminate()
    return out


def oracle_cond(c, ob, rng):
    if c['kind'] == 'condstep':
        # the step phase at time 0 sees the initial gate, the one at time t >= 1 the value the driver set in [t-1, t]
        n, want = 0, {}
        for t in range(len(c['script']) + 1):
            gate = c['init'] if t == 0 else c['script'][t - 1]
            n += 1 if gate else 0
            want[str(float(t))] = n
        if ob['rows'] != want:
            return [('a step gated by %s contributed while its condition was false (or not while it was true): counter '
                     'by time %r, expected %r' % ('its own update_condition' if c['own'] else '_condition', ob['rows'], want),
                     'condition-ignored')]
        return []
    for mode in ('serial', 'parallel'):
        if 'err' in ob[mode]:
            return [('the %s run raised %s' % (mode, ob[mode]['err']), 'parallel-raised')]
        for t, (level, calls) in ob[mode].items():
            k = min(int(float(t)), c['cap'])
            if [level, calls] != [k, k]:
                return [('%s run: a process whose update_condition is `level < %d` has level %r after %r calls at time %s'
                         % (mode, c['cap'], level, calls, t), 'condition-ignored')]
    return []


def run(cases, tier='quick', seed=0):
    from harness import live
    me = __import__('harness.c01', fromlist=['x'])

    class Live:
        __name__ = 'harness.live'
        IMPORTS, CHECK_FN, BAD_TERM = live.IMPORTS, live.CHECK_FN, live.BAD_TERM
        run_impl, render = staticmethod(live.run_impl), staticmethod(live.render)
        oracle = staticmethod(live.oracle_inflight)
        nontrivial, stat_key = staticmethod(live.nontrivial), staticmethod(live.stat_key)
    from harness import struct

    class Hist:
        __name__ = 'harness.struct'
        IMPORTS, CHECK_FN, BAD_TERM = struct.IMPORTS, struct.CHECK_FN, struct.BAD_TERM
        run_impl, render = staticmethod(struct.run_impl), staticmethod(struct.render)
        oracle = staticmethod(lambda c, ob, rng: struct.oracle_upd(c, ob))
        nontrivial, stat_key = staticmethod(struct.nontrivial), staticmethod(struct.stat_key)
    class Cond:
        __name__ = 'harness.c01cond'
        IMPORTS, CHECK_FN, BAD_TERM = live.IMPORTS, live.CHECK_FN, live.BAD_TERM
        run_impl, oracle = staticmethod(run_cond), staticmethod(oracle_cond)
        nontrivial = staticmethod(lambda c, ob: True)
        stat_key = staticmethod(lambda c, ob: c['kind'])
        render = staticmethod(lambda c, ob: None)
    return common.merge_streams(cases, [
        (lambda c: c['kind'] in ('condstep', 'parcond'), lambda cs: common.generic_run(Cond, cs, seed, shard=40)),
        (lambda c: c['kind'] == 'sched', lambda cs: sched.run_family(me, cs, seed, PROPS)),
        (lambda c: c['kind'] == 'live', lambda cs: common.generic_run(Live, cs, seed, shard=20)),
        (lambda c: c['kind'] == 'hist', lambda cs: common.generic_run(Hist, cs, seed, shard=40))])


def model_output(case, ob):
    if case['kind'] == 'live':
        from harness import live
        return common.coq_eval('LIVE', live.IMPORTS, 'model_out_all %s' % live.render(case, ob))[:4000]
    if case['kind'] == 'hist':
        from harness import struct
        return struct.model_output(case, ob)
    return sched.model_output(case, ob)
