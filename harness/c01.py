"""C01 — every process update is applied exactly once, at the end of its interval."""
import random
from harness import common, sched

FAMILY = 'sched'
RULE = ('composites of 0-4 (thorough 0-8) scripted processes: timestep constant or a function of the viewed '
        'state, condition true/false/state-dependent; 1-4 run_for(interval, force)/update(interval) calls with '
        'intervals incl. 0 and ones the timesteps do not divide; dyadic times (1/16 grid). Observed: every '
        'next_update call (timestep, global time, front time, view), every application of an update (logging '
        'updater), every emitted row, fronts after each call. Non-trivial: >=2 invocations; distinct by term.')
ASSUMPTIONS = [
    'timesteps and intervals are multiples of 1/16 s below 2^10 so that every float operation of run_for is exact',
    'user process code is deterministic and does not mutate the states it is handed',
    'events inside one (time, phase) group are compared as multisets',
]
IMPORTS, CHECK_FN, BAD_TERM = sched.IMPORTS, sched.CHECK_FN, sched.BAD_TERM
PROPS = ('C01',)


def generate(seed, tier, enlarged=False):
    rng = random.Random(seed * 7 + 1)
    n = 300 if tier == 'quick' else 6000
    if enlarged:
        n *= 3
    cases = []
    for i in range(n):
        cases.append(sched.gen_case(rng, max_procs=4 if tier == 'quick' else 8, scripted=False))
    return cases


def run(cases, tier='quick', seed=0):
    return sched.run_family(__import__('harness.c01', fromlist=['x']), cases, seed, PROPS)


model_output = sched.model_output
