"""Scheduler family (C01, C02, C03, C04, C12): scripted processes driven through the real
Engine; the trace is compared with Model/Sched.v instantiated by Model/SchedC.v."""
import contextlib
import io
import random
import signal

from harness import common
from harness.common import cN, cZ, clist, cpair, copt, cbool

IMPORTS = 'From Viv Require Import Model.Sched Model.SchedC Corr.Schedc.'
CHECK_FN = 'check_case'
BAD_TERM = '(SRun vfixed [] [] 0%Z None [] None)'
TICK = 16          # ticks per simulated second on the dyadic stream

TS_CHOICES = [0.25, 0.5, 0.75, 1.0, 1.0, 1.25, 1.5, 2.0, 3.0, 0.125]
INTERVALS = [0, 0.5, 1.0, 1.0, 2.0, 2.5, 3.0, 5.0, 10.0, 0.75]


# ------------------------------------------------------------------ generation

def gen_ts(rng, scripted):
    r = rng.random()
    if r < 0.55 or (not scripted and r < 0.65):
        return ['const', rng.choice(TS_CHOICES)]
    if r < 0.85 or not scripted:
        return ['state', [rng.choice(TS_CHOICES) for _ in range(rng.randint(2, 4))]]
    return ['script', [rng.choice(TS_CHOICES) for _ in range(rng.randint(2, 5))]]


def gen_cond(rng, scripted):
    r = rng.random()
    if r < 0.55:
        return ['true']
    if r < 0.65:
        return ['false']
    if r < 0.9 or not scripted:
        return ['state', [rng.random() < 0.6 for _ in range(rng.randint(2, 4))]]
    return ['script', [rng.random() < 0.6 for _ in range(rng.randint(2, 5))]]


def gen_case(rng, max_procs=4, scripted=False, emit_steps=(1,), max_calls=4, update_only=False):
    n = rng.randint(0 if rng.random() < 0.05 else 1, max_procs)
    procs = [{'ts': gen_ts(rng, scripted), 'cond': gen_cond(rng, scripted)} for _ in range(n)]
    calls = []
    for _ in range(rng.randint(1, max_calls)):
        iv = rng.choice(INTERVALS)
        kind = rng.choice(['run', 'run', 'force', 'update']) if not update_only else 'update'
        calls.append([iv, kind])
    if rng.random() < 0.6 and calls[-1][1] == 'run':
        calls[-1][1] = 'update'
    return {'kind': 'sched', 'procs': procs, 'calls': calls, 'emit_step': rng.choice(emit_steps),
            't0': rng.choice([0, 0, 0, 2.5])}


# ------------------------------------------------------------------ implementation side

class Hang(Exception):
    pass


def _alarm(signum, frame):
    raise Hang()


CTX = {'engine': None, 'log': None}


def make_classes():
    from vivarium.core.process import Process
    from vivarium.core.emitter import Emitter
    from vivarium.core.registry import emitter_registry

    class Scripted(Process):
        defaults = {'pid': 0, 'ts': ['const', 1.0], 'cond': ['true'], 'time_step': 1.0, 'flip': False}

        def __init__(self, parameters=None):
            super().__init__(parameters)
            self.npolls = 0
            self.nconds = 0
            pid = self.parameters['pid']

            def logging_updater(current, update, pid=pid):
                eng = CTX['engine']
                CTX['log'].append(['apply', pid, eng.front[('p%d' % pid,)]['time'], eng.global_time])
                return current + update
            self._upd = logging_updater
            # the constant parts of the update are cached objects handed out again on every call (as
            # processes with static updates do); 'twin' is a second port wired to the same store as 'shared'
            # (both carry a nested dict under the same key: the engine has to merge them without writing into either)
            self._cached_shared = {'count': 1, 'sub': {'c3': 1}}
            self._cached_twin = {'count2': 1, 'sub': {'c4': 1}}

        def ports_schema(self):
            sch = {
                'shared': {'count': {'_default': 0, '_emit': True}, 'sub': {'c3': {'_default': 0, '_emit': False}}},
                'twin': {'count2': {'_default': 0, '_emit': False}, 'sub': {'c4': {'_default': 0, '_emit': False}}},
                'own': {'elapsed': {'_default': 0.0, '_emit': True, '_updater': self._upd}}}
            if self.parameters.get('flip'):
                sch = dict(reversed(list(sch.items())))      # same ports, other listing order
            return sch

        def calculate_timestep(self, states):
            mode, arg = self.parameters['ts'][0], self.parameters['ts'][1]
            if mode == 'const':
                ts = arg
            elif mode == 'state':
                ts = arg[states['shared']['count'] % len(arg)]
            else:
                ts = arg[self.npolls % len(arg)]
            self.npolls += 1
            return ts

        def update_condition(self, timestep, states):
            c = self.parameters['cond']
            if c[0] == 'true':
                r = True
            elif c[0] == 'false':
                r = False
            elif c[0] == 'state':
                r = c[1][states['shared']['count'] % len(c[1])]
            else:
                r = c[1][self.nconds % len(c[1])]
            self.nconds += 1
            return r

        def next_update(self, timestep, states):
            eng = CTX['engine']
            pid = self.parameters['pid']
            CTX['log'].append(['invoke', pid, timestep, eng.global_time,
                               eng.front[('p%d' % pid,)]['time'],
                               states['shared']['count'], states['own']['elapsed']])
            return {'shared': self._cached_shared, 'twin': self._cached_twin, 'own': {'elapsed': timestep}}

    class RecEmitter(Emitter):
        def emit(self, data):
            if data['table'] == 'history':
                d = data['data']
                CTX['log'].append(['emit', d['time'], d['shared']['count'],
                                   {k: v['elapsed'] for k, v in d.items() if k.startswith('own')}])

    emitter_registry.register('verif_rec', RecEmitter)
    from vivarium.core.process import Step

    class NullStep(Step):
        def ports_schema(self):
            return {'shared': {'count': {'_default': 0, '_emit': True}}}

        def next_update(self, timestep, states):
            return {}

    return Scripted, NullStep


_SCRIPTED = None


def run_impl(c, timeout=3):
    global _SCRIPTED
    from vivarium.core.engine import Engine, EmptyDefer
    if _SCRIPTED is None:
        _SCRIPTED = make_classes()
    Scripted, NullStep = _SCRIPTED
    n = len(c['procs'])
    order = c.get('order') or list(range(n))          # insertion order of the processes / topology dicts
    flip = bool(c.get('flip'))
    processes = {'p%d' % i: Scripted({'pid': i, 'ts': c['procs'][i]['ts'], 'cond': c['procs'][i]['cond'], 'flip': flip})
                 for i in order}
    topo_order = list(reversed(order)) if flip else order
    topology = {}
    for i in topo_order:
        ports = {'shared': ('shared',), 'twin': ('shared',), 'own': ('own%d' % i,)}
        topology['p%d' % i] = dict(reversed(list(ports.items()))) if flip else ports
    groups = []
    CTX['log'] = []
    old = signal.signal(signal.SIGALRM, _alarm)
    signal.setitimer(signal.ITIMER_REAL, timeout)
    status = 'ok'
    try:
        with contextlib.redirect_stdout(io.StringIO()):
            kw = dict(emitter={'type': 'verif_rec'}, display_info=False, progress_bar=False,
                      emit_step=c['emit_step'], initial_global_time=c['t0'])
            if c.get('precision') is not None:
                kw['global_time_precision'] = c['precision']
            if n:
                eng = Engine(processes=processes, topology=topology, **kw)
            else:
                # an engine without any process (only reachable otherwise by deleting them all)
                eng = Engine(processes={}, steps={'s': NullStep()}, flow={'s': []},
                             topology={'s': {'shared': ('shared',)}}, **kw)
            CTX['engine'] = eng
            groups.append(CTX['log'])
            for iv, kind in c['calls']:
                CTX['log'] = []
                try:
                    if kind == 'update':
                        eng.update(iv)
                    else:
                        eng.run_for(iv, force_complete=(kind == 'force'))
                except AssertionError as e:
                    CTX['log'].append(['check_complete_failed', str(e)[:120]])
                fr = []
                for path, adv in eng.front.items():
                    u = adv['update']
                    real = isinstance(u, tuple) and not isinstance(u[0], EmptyDefer)
                    fr.append([int(path[0][1:]), adv['time'], real])
                CTX['log'].append(['after', eng.global_time, fr])
                groups.append(CTX['log'])
            if n:
                sh = eng.state.get_value()['shared']
                groups[-1].append(['final', sh['count'], [sh['count2'], sh['sub']['c3'], sh['sub']['c4']],
                                   all(p._cached_shared == {'count': 1, 'sub': {'c3': 1}} and
                                       p._cached_twin == {'count2': 1, 'sub': {'c4': 1}}
                                       for p in processes.values())])
    except Hang:
        status = 'hang'
    except Exception as e:
        status = 'crash:' + type(e).__name__ + ':' + str(e)[:150]
    finally:
        signal.setitimer(signal.ITIMER_REAL, 0)
        signal.signal(signal.SIGALRM, old)
        CTX['engine'] = None
    return {'status': status, 'groups': groups}


def gen_decimal_case(rng):
    """decimal-grid stream: global_time_precision p, timesteps and intervals on the 10^-p grid"""
    p = rng.choice([1, 1, 2])
    g = 10 ** p
    c = gen_case(rng, max_procs=4, scripted=False)
    for pr in c['procs']:
        if pr['ts'][0] == 'const':
            pr['ts'][1] = rng.randint(1, 25) / g
        else:
            pr['ts'][1] = [rng.randint(1, 25) / g for _ in pr['ts'][1]]
    c['calls'] = [[rng.randint(0, 40) / g, k] for _, k in c['calls']]
    c['t0'] = 0
    c['precision'] = p
    return c


# ------------------------------------------------------------------ rendering

SCALE = {'decimal': None}


def tk(t):
    p = SCALE['decimal']
    if p is not None:
        k = round(t * 10 ** p)
        if t != round(k / 10 ** p, p):
            raise ValueError('time %r is off the 10^-%d grid' % (t, p))
        return k
    x = t * TICK
    if float(x) != int(x):
        raise ValueError('time %r is off the tick grid' % (t,))
    return int(x)


def tkd(t):
    """A duration or a sum of durations (the timestep handed to a process, the elapsed time a process has
    accumulated): with a decimal grid these are float differences/sums of grid times, so they are taken to the
    nearest grid point; a value further than 1e-6 from the grid is still an error."""
    p = SCALE['decimal']
    if p is None:
        return tk(t)
    k = round(t * 10 ** p)
    if abs(t - k / 10 ** p) > 1e-6:
        raise ValueError('duration %r is off the 10^-%d grid' % (t, p))
    return k


def r_spec(p):
    ts, cd = p['ts'], p['cond']
    if ts[0] == 'const':
        t = '(TsConst %s)' % cZ(tk(ts[1]))
    elif ts[0] == 'state':
        t = '(TsState %s)' % clist([cZ(tk(x)) for x in ts[1]])
    else:
        t = '(TsScript %s)' % clist([cZ(tk(x)) for x in ts[1]])
    if cd[0] == 'true':
        k = 'CTrue'
    elif cd[0] == 'false':
        k = 'CFalse'
    elif cd[0] == 'state':
        k = '(CState %s)' % clist([cbool(b) for b in cd[1]])
    else:
        k = '(CScript %s)' % clist([cbool(b) for b in cd[1]])
    return '{| p_ts := %s; p_cond := %s |}' % (t, k)


def r_event(e):
    if e[0] == 'invoke':
        _, pid, ts, now, start, sh, own = e
        return '(CInvoke %s %s %s %s %s %s)' % (cN(pid), cZ(tkd(ts)), cZ(tk(now)), cZ(tk(start)), cZ(sh), cZ(tkd(own)))
    if e[0] == 'apply':
        _, pid, fin, now = e
        return '(CApply %s %s %s)' % (cN(pid), cZ(tk(fin)), cZ(tk(now)))
    if e[0] == 'emit':
        _, now, sh, owns = e
        return '(CEmit %s %s %s)' % (cZ(tk(now)), cZ(sh), clist(
            [cpair(cN(int(k[3:])), cZ(tkd(v))) for k, v in owns.items()]))
    if e[0] == 'after':
        _, now, fr = e
        return '(CAfter %s %s)' % (cZ(tk(now)), clist(
            [cpair(cN(p), cpair(cZ(tk(t)), cbool(real))) for p, t, real in fr]))
    raise ValueError('unrenderable event %r' % (e,))


def render(c, ob, variant='vfixed'):
    SCALE['decimal'] = c.get('precision')
    try:
        return _render(c, ob, variant)
    finally:
        SCALE['decimal'] = None


def _render(c, ob, variant='vfixed'):
    n = len(c['procs'])
    specs = clist([cpair(cN(i), r_spec(p)) for i, p in enumerate(c['procs'])])
    ps = clist([cN(i) for i in range(n)])
    ee = 'None' if c['emit_step'] == 1 else '(Some %s)' % cZ(tk(c['emit_step']))
    calls = clist([cpair(cZ(tk(iv)), cbool(kind in ('force', 'update'))) for iv, kind in c['calls']])
    if ob['status'] == 'hang':
        exp = 'None'
    elif ob['status'] != 'ok':
        raise ValueError(ob['status'])
    else:
        for g in ob['groups']:
            for e in g:
                if e[0] == 'check_complete_failed':
                    raise ValueError('check_complete failed')
        exp = '(Some %s)' % clist([clist([r_event(e) for e in g if e[0] != 'final']) for g in ob['groups']])
    return '(SRun %s %s %s %s %s %s %s)' % (variant, specs, ps, cZ(tk(c['t0'])), ee, calls, exp)


def stat_key(c, ob):
    return 'procs=%d/calls=%d/%s' % (len(c['procs']), len(c['calls']), ob['status'].split(':')[0])


def nontrivial(c, ob):
    return ob['status'] == 'ok' and sum(1 for g in ob['groups'] for e in g if e[0] == 'invoke') >= 2


# ------------------------------------------------------------------ shared oracle pieces

def events(ob, kind):
    return [e for g in ob['groups'] for e in g if e[0] == kind]


def oracle_all(c, ob):
    """Implementation-side statements of C01, C02, C03, C12 on one trace.
    Returns [(property, message, signature)]."""
    out = []
    if ob['status'] == 'hang':
        return [('C03', 'run_for/update did not return within the watchdog', 'hang')]
    if ob['status'] != 'ok':
        return [('C03', 'engine raised: ' + ob['status'], 'crash')]
    gtime = c['t0']
    seen_times = [c['t0']]
    # per process: intervals
    last_fin = {}
    pending = {}          # pid -> list of (fin, ts)
    applied_ts = {}       # pid -> sum of handed timesteps whose update was applied
    count_applied = 0
    emits = []
    clock = c['t0']
    for gi, g in enumerate(ob['groups']):
        if gi > 0:
            iv, kind = c['calls'][gi - 1]
            start_of_call = gtime
            end = start_of_call + iv
            if c.get('precision') is not None:
                end = round(end, c['precision'])
        for e in g:
            if e[0] == 'check_complete_failed':
                out.append(('C02', 'after update() a process is not at the global time: ' + e[1], 'check-complete'))
                continue
            if e[0] == 'final':
                _, cnt, cnt2, intact = e
                if not intact:
                    out.append(('C01', 'the update objects a process returned were modified by the engine '
                                '(they are handed out again at the next call)', 'update-object-mutated'))
                if any(x != cnt for x in cnt2):
                    out.append(('C01', 'two ports of one process wired to the same store, each adding 1 per invocation to '
                                'its own variables: the first counts %d, the others %r' % (cnt, cnt2), 'applied-twice'))
                continue
            now = e[3] if e[0] in ('invoke', 'apply') else e[1]
            # ---- C03: the clock never decreases and never passes the end of the call
            if now < clock:
                lag = any(ev[0] == 'invoke' and ev[4] + ev[2] <= ev[3] for ev in g)
                out.append(('C03', 'global time steps back from %r to %r' % (clock, now),
                            'invoke-behind-clock' if lag else 'clock-backwards'))
            clock = max(clock, now)
            if gi > 0 and now > end:
                out.append(('C03', 'global time %r passes the end %r of the call' % (now, end), 'clock-overshoot'))
            if e[0] == 'invoke':
                _, pid, ts, now, start, sh, own = e
                fin_expected = None
                # ---- C02: intervals are contiguous
                if pid in last_fin and start < last_fin[pid]:
                    out.append(('C02', 'process %d: interval starting %r overlaps the previous one ending %r'
                                % (pid, start, last_fin[pid]), 'interval-overlap'))
                pending.setdefault(pid, []).append([start, ts, now])
                if start + ts <= now and ts > 0:
                    out.append(('C03', 'process %d invoked at %r for the interval [%r, %r] that lies behind the clock'
                                % (pid, now, start, start + ts), 'invoke-behind-clock'))
            elif e[0] == 'apply':
                _, pid, fin, now = e
                # ---- C01: applied exactly once, at the end of its interval
                if not pending.get(pid):
                    out.append(('C01', 'process %d: an update is applied without a pending invocation' % pid,
                                'apply-without-invoke'))
                    continue
                start, ts, inv_now = pending[pid].pop(0)
                if pending[pid]:
                    out.append(('C01', 'process %d was invoked again while an update was pending' % pid,
                                'reinvoke-while-pending'))
                if fin != now:
                    out.append(('C01', 'process %d: update for the interval ending %r applied at %r' % (pid, fin, now),
                                'apply-off-time'))
                # ---- C02: the timestep handed equals the interval covered
                if abs((fin - start) - ts) > 1e-12:
                    out.append(('C02', 'process %d was handed timestep %r for the interval [%r, %r]'
                                % (pid, ts, start, fin), 'timestep-not-interval'))
                last_fin[pid] = fin
                applied_ts[pid] = applied_ts.get(pid, 0) + ts
                count_applied += 1
            elif e[0] == 'emit':
                _, now, sh, owns = e
                emits.append(now)
                # ---- C01 observable form: accumulators = sum of the applied updates
                if sh != count_applied:
                    out.append(('C01', 'at %r the shared accumulator is %r but %d updates were applied'
                                % (now, sh, count_applied), 'accumulator-mismatch'))
                for k, v in owns.items():
                    pid = int(k[3:])
                    if abs(v - applied_ts.get(pid, 0)) > 1e-12:
                        out.append(('C01', 'at %r process %d accumulated %r, applied timesteps sum to %r'
                                    % (now, pid, v, applied_ts.get(pid, 0)), 'accumulator-mismatch'))
            elif e[0] == 'after':
                _, now, fr = e
                if gi > 0 and now != end:
                    out.append(('C03', 'after the call global time is %r, expected %r' % (now, end), 'not-landed'))
                gtime = now
                for pid, t, real in fr:
                    if real and t <= now:
                        out.append(('C01', 'process %d still holds an update due at %r after the call returned at %r'
                                    % (pid, t, now), 'left-pending'))
                if gi > 0 and c['calls'][gi - 1][1] == 'update':
                    for pid, t, real in fr:
                        if t != now or real:
                            out.append(('C02', 'after update() process %d is at %r (global time %r)' % (pid, t, now),
                                        'check-complete'))
    # a process invoked for an interval that lies behind the clock (known finding K1) is the root
    # cause of the overlaps / out-of-order rows that follow it in the same trace
    lagged = any(sig == 'invoke-behind-clock' for _, _, sig in out)
    if lagged:
        derived = {'interval-overlap', 'clock-backwards', 'reinvoke-while-pending', 'left-pending'}
        out = [(p, m, 'invoke-behind-clock' if sig in derived else sig) for p, m, sig in out]
    # ---- C12: time keys strictly increasing
    for a, b in zip(emits, emits[1:]):
        if b <= a:
            zero = any(iv == 0 and kind in ('force', 'update') for iv, kind in c['calls'])
            sig = 'zero-interval-forced' if (b == a and zero) else ('duplicate-row' if b == a else 'rows-out-of-order')
            if lagged and sig != 'zero-interval-forced':
                sig = 'invoke-behind-clock'
            out.append(('C12', 'history rows at times %r then %r' % (a, b), sig))
            break
    return out


def run_family(mod, cases, seed=0, props=('C01',)):
    """generic_run with this family's run_impl/render; the oracle keeps the messages of `props`."""
    class Shim:
        __name__ = mod.__name__
        IMPORTS = globals()['IMPORTS']
        CHECK_FN = globals()['CHECK_FN']
        BAD_TERM = globals()['BAD_TERM']
        run_impl = staticmethod(run_impl)
        render = staticmethod(render)
        nontrivial = staticmethod(nontrivial)
        stat_key = staticmethod(stat_key)

        @staticmethod
        def oracle(c, ob, rng):
            seen, out = set(), []
            for prop, msg, sig in oracle_all(c, ob):
                if prop in props and sig not in seen:
                    seen.add(sig)
                    out.append((msg, sig))
            return out
    return common.generic_run(Shim, cases, seed, shard=60)


def model_output(case, ob):
    t = render(case, ob)
    return {'model': common.coq_eval('SCHED', IMPORTS, 'model_trace %s' % t)[:6000],
            'agrees_with_pinned_model': common.coq_eval('SCHED', IMPORTS, 'check_case_pinned %s' % t)}
