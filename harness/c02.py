"""C02 — the timestep handed to a process equals the simulated interval it covers."""
import random
from harness import common, sched

FAMILY = 'sched'
RULE = ('as C01, biased to forced completion: every call sequence ends with update() or run_for(force_complete), '
        'timesteps that do not divide the run length, a Clock-like own accumulator compared with global time. '
        'Non-trivial: >=2 invocations; distinct by term.')
ASSUMPTIONS = __import__('harness.c01', fromlist=['x']).ASSUMPTIONS
IMPORTS, CHECK_FN, BAD_TERM = sched.IMPORTS, sched.CHECK_FN, sched.BAD_TERM
PROPS = ('C02',)


def generate(seed, tier, enlarged=False):
    rng = random.Random(seed * 7 + 2)
    n = 300 if tier == 'quick' else 6000
    if enlarged:
        n *= 3
    cases = [
        # corpus: pinned-tree witness (Clock with time_step 3, update(10))
        {'kind': 'sched', 'procs': [{'ts': ['const', 3.0], 'cond': ['true']}], 'calls': [[10.0, 'update']],
         'emit_step': 1, 't0': 0},
        # corpus: known finding K1 (a lagging process is re-polled and invoked for an interval behind the clock)
        {'kind': 'sched', 'procs': [{'ts': ['state', [1.25, 0.5]], 'cond': ['state', [False, True]]}, {'ts': ['state', [0.25, 3.0]], 'cond': ['true']}], 'calls': [[5.0, 'update'], [1.0, 'force'], [2.5, 'run'], [0, 'update']], 'emit_step': 1, 't0': 0},
    ]
    for i in range(n):
        # a third of the cases use processes whose timestep / condition depends on how often they were asked
        # (calculate_timestep and update_condition are then not idempotent)
        c = sched.gen_case(rng, max_procs=4 if tier == 'quick' else 8, scripted=(i % 3 == 2))
        if c['calls'][-1][1] == 'run':
            c['calls'][-1][1] = rng.choice(['update', 'force'])
        cases.append(c)
    return cases


def run(cases, tier='quick', seed=0):
    return sched.run_family(__import__('harness.c02', fromlist=['x']), cases, seed, PROPS)


model_output = sched.model_output
