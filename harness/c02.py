"""C02 — the timestep handed to a process equals the simulated interval it covers."""
import random
from harness import common, sched

FAMILY = 'sched'
RULE = ('as C01, biased to forced completion: every call sequence ends with update() or run_for(force_complete), '
        'timesteps that do not divide the run length, a Clock-like own accumulator compared with global time. '
        'Non-trivial: >=2 invocations; distinct by term.')
ASSUMPTIONS = __import__('harness.c01', fromlist=['x']).ASSUMPTIONS
IMPORTS, CHECK_FN, BAD_TERM = sched.IMPORTS, sched.CHECK_FN, sched.BAD_TERM
PROPS = ('C02',)


def generate(seed, tier, enlarged=False):
    rng = random.Random(seed * 7 + 2)
    n = 300 if tier == 'quick' else 6000
    if enlarged:
        n *= 3
    cases = [
        # corpus: pinned-tree witness (Clock with time_step 3, update(10))
        {'kind': 'sched', 'procs': [{'ts': ['const', 3.0], 'cond': ['true']}], 'calls': [[10.0, 'update']],
         'emit_step': 1, 't0': 0},
        # corpus: known finding K1 (a lagging process is re-polled and invoked for an interval behind the clock)
        {'kind': 'sched', 'procs': [{'ts': ['state', [1.25, 0.5]], 'cond': ['state', [False, True]]}, {'ts': ['state', [0.25, 3.0]], 'cond': ['true']}], 'calls': [[5.0, 'update'], [1.0, 'force'], [2.5, 'run'], [0, 'update']], 'emit_step': 1, 't0': 0},
    ]
    for i in range(n):
        # a third of the cases use processes whose timestep / condition depends on how often they were asked
        # (calculate_timestep and update_condition are then not idempotent)
        c = sched.gen_case(rng, max_procs=4 if tier == 'quick' else 8, scripted=(i % 3 == 2))
        if c['calls'][-1][1] == 'run':
            c['calls'][-1][1] = rng.choice(['update', 'force'])
        cases.append(c)
    # decimal grid (global_time_precision): timesteps like 0.1 whose running float sums are inexact; the timestep
    # handed is still the length of the interval on the grid
    cases.append({'kind': 'sched', 'procs': [{'ts': ['const', 0.1], 'cond': ['true']}], 'calls': [[1.0, 'update']],
                  'emit_step': 1, 't0': 0, 'precision': 1})
    for i in range(n // 4):
        c = sched.gen_decimal_case(rng)
        if c['calls'][-1][1] == 'run':
            c['calls'][-1][1] = rng.choice(['update', 'force'])
        cases.append(c)
    # processes that enter and leave a RUNNING engine (generated, divided, deleted, regenerated under the same
    # key, with timesteps 1-3): first invoked when created, intervals contiguous
    from harness import live
    cases += [dict(live.gen_case(rng), slow=True) for _ in range(n // 6)] + live.corpus_intervals()
    return cases


def run(cases, tier='quick', seed=0):
    from harness import live
    me = __import__('harness.c02', fromlist=['x'])

    class Live:
        __name__ = 'harness.live'
        IMPORTS, CHECK_FN, BAD_TERM = live.IMPORTS, live.CHECK_FN, live.BAD_TERM
        run_impl, render = staticmethod(live.run_impl), staticmethod(live.render)
        oracle = staticmethod(live.oracle_intervals)
        nontrivial, stat_key = staticmethod(live.nontrivial), staticmethod(live.stat_key)
    return common.merge_streams(cases, [
        (lambda c: c['kind'] == 'sched', lambda cs: sched.run_family(me, cs, seed, PROPS)),
        (lambda c: c['kind'] == 'live', lambda cs: common.generic_run(Live, cs, seed, shard=20))])


def model_output(case, ob):
    if case['kind'] == 'live':
        from harness import live
        return common.coq_eval('LIVE', live.IMPORTS, 'model_out_all %s' % live.render(case, ob))[:4000]
    return sched.model_output(case, ob)
