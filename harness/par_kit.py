"""Module-level process classes for the parallel-execution checks (they must be importable in
the forkserver workers)."""
from vivarium.core.process import Process, Step


class Acc(Process):
    defaults = {'pid': 0, 'time_step': 1.0}

    def ports_schema(self):
        return {'shared': {'count': {'_default': 0, '_emit': True}},
                'own': {'elapsed': {'_default': 0.0, '_emit': True}}}

    def next_update(self, timestep, states):
        return {'shared': {'count': 1 + self.parameters['pid']}, 'own': {'elapsed': timestep}}


class Doubler(Step):
    def ports_schema(self):
        return {'shared': {'count': {'_default': 0}, 'twice': {'_default': 0, '_updater': 'set', '_emit': True}}}

    def next_update(self, timestep, states):
        return {'shared': {'twice': 2 * states['shared']['count']}}


class Killer(Process):
    """deletes a compartment at a scripted tick"""
    defaults = {'at': 2, 'key': 'c0', 'time_step': 1.0}

    def __init__(self, parameters=None):
        super().__init__(parameters)
        self.k = 0

    def ports_schema(self):
        return {'agents': {'*': {'own': {'elapsed': {'_default': 0.0}}}}}

    def next_update(self, timestep, states):
        self.k += 1
        if self.k == self.parameters['at']:
            return {'agents': {'_delete': [self.parameters['key']]}}
        return {}


class Setter(Process):
    """sets the shared counter to twice what it sees (does not commute with the accumulating processes)"""
    defaults = {'pid': 0, 'time_step': 1.0}

    def ports_schema(self):
        return {'shared': {'count': {'_default': 0, '_emit': True}},
                'own': {'elapsed': {'_default': 0.0, '_emit': True}}}

    def next_update(self, timestep, states):
        return {'shared': {'count': {'_value': 2 * states['shared']['count'] + 1, '_updater': 'set'}},
                'own': {'elapsed': timestep}}


_MANY = []


def many_functions(n=6000):
    """n distinct functions (distinct code objects: one profile entry each)"""
    if not _MANY:
        src = '\n'.join('def f%d(x):\n    return x + %d' % (i, i) for i in range(n))
        env = {}
        exec(compile(src, '<verif-many>', 'exec'), env)
        _MANY.extend(env['f%d' % i] for i in range(n))
    return _MANY


class Busy(Acc):
    """as Acc, but every call runs thousands of distinct functions, so that a profiled worker has a large
    profile to hand back when it is ended"""
    def next_update(self, timestep, states):
        x = 0
        for f in many_functions():
            x = f(x)
        return super().next_update(timestep, states)


class Adaptive(Process):
    """changes its own timestep by writing parameters['timestep'] (calculate_timestep is NOT overridden: the
    inherited one reads the parameter)"""
    defaults = {'pid': 0, 'timestep': 2.0}

    def ports_schema(self):
        return {'shared': {'count': {'_default': 0, '_emit': True}},
                'own': {'elapsed': {'_default': 0.0, '_emit': True}}}

    def next_update(self, timestep, states):
        if states['own']['elapsed'] >= 2.0:
            self.parameters['timestep'] = 0.5
        return {'shared': {'count': 1}, 'own': {'elapsed': timestep}}


def _child_job():
    return None


class Spawner(Acc):
    """as Acc, but every call uses OS-level parallelism of its own (a child process started and joined inside
    next_update, as a process wrapping a nested parallel simulation or a worker pool does)"""
    def next_update(self, timestep, states):
        import multiprocessing
        child = multiprocessing.get_context('fork').Process(target=_child_job)
        child.start()
        child.join()
        u = super().next_update(timestep, states)
        u['shared']['count'] += 0 if child.exitcode == 0 else 1000
        return u


class Grower(Process):
    """generates a compartment at a scripted tick: a process and a step in it, each marked parallel or not"""
    defaults = {'at': 2, 'key': 'n0', 'time_step': 1.0, 'proc_par': True, 'step_par': True, 'divide': False}

    def __init__(self, parameters=None):
        super().__init__(parameters)
        self.k = 0

    def ports_schema(self):
        return {'agents': {'*': {'own': {'elapsed': {'_default': 0.0}}}}}

    def compartment(self, proc_par):
        pp = {'pid': 0, 'time_step': 1.0}
        if proc_par:
            pp['_parallel'] = True
        sp = {'_parallel': True} if self.parameters['step_par'] else {}
        return {
            'processes': {'acc': Acc(pp)},
            'steps': {'d': Doubler(sp)},
            'flow': {'d': []},
            'topology': {'acc': {'shared': ('..', '..', 'shared'), 'own': ('own',)},
                         'd': {'shared': ('..', '..', 'shared')}}}

    def next_update(self, timestep, states):
        self.k += 1
        key = self.parameters['key']
        if self.k == self.parameters['at']:
            # (a mother that will be divided holds a SERIAL process: a process with an update in flight that is
            # divided away is the known finding K2/K3, exercised by its own cases; its parallel step is idle then)
            comp = self.compartment(self.parameters['proc_par'] and not self.parameters['divide'])
            return {'agents': {'_generate': [dict(comp, key=key, initial_state={})]}}
        if self.parameters['divide'] and self.k == self.parameters['at'] + 1:
            return {'agents': {'_divide': {'mother': key, 'daughters': [
                dict(self.compartment(self.parameters['proc_par']), key=key + 'a'),
                dict(self.compartment(self.parameters['proc_par']), key=key + 'b')]}}}
        return {}


class Mover(Process):
    """moves a compartment from colony A to colony B at a scripted tick"""
    defaults = {'at': 2, 'key': 'c0', 'time_step': 1.0}

    def __init__(self, parameters=None):
        super().__init__(parameters)
        self.k = 0

    def ports_schema(self):
        return {'A': {'*': {'own': {'elapsed': {'_default': 0.0}}}}, 'B': {'*': {'own': {'elapsed': {'_default': 0.0}}}}}

    def next_update(self, timestep, states):
        self.k += 1
        if self.k == self.parameters['at']:
            return {'A': {'_move': [{'source': self.parameters['key'], 'target': 'B'}]}}
        return {}


class Refill(Process):
    """adds 1 to `level` per step, but only while level < cap: the condition is an OVERRIDDEN update_condition (not
    the `_condition` parameter)"""
    defaults = {'cap': 3, 'time_step': 1.0}

    def ports_schema(self):
        return {'tank': {'level': {'_default': 0, '_emit': True}, 'calls': {'_default': 0, '_emit': True}}}

    def update_condition(self, timestep, states):
        return states['tank']['level'] < self.parameters['cap']

    def next_update(self, timestep, states):
        return {'tank': {'level': 1, 'calls': 1}}


class GateDriver(Process):
    """sets gate.open to the next value of a script at every tick"""
    defaults = {'script': [], 'time_step': 1.0}

    def __init__(self, parameters=None):
        super().__init__(parameters)
        self.k = 0

    def ports_schema(self):
        return {'gate': {'open': {'_default': False, '_updater': 'set'}}}

    def next_update(self, timestep, states):
        sc = self.parameters['script']
        v = sc[self.k] if self.k < len(sc) else False
        self.k += 1
        return {'gate': {'open': v}}


class GatedStep(Step):
    """adds 1 to out.n whenever it runs; gated by `_condition` (a path into its ports) or, with `own`, by an
    overridden update_condition"""
    defaults = {'own': False}

    def ports_schema(self):
        return {'gate': {'open': {'_default': False}}, 'out': {'n': {'_default': 0, '_emit': True}}}

    def update_condition(self, timestep, states):
        if self.parameters['own']:
            return bool(states['gate']['open'])
        return super().update_condition(timestep, states)

    def next_update(self, timestep, states):
        return {'out': {'n': 1}}
