#!/bin/sh
# Build the Coq development from clean (full .vo build; no quick modes).
set -e
cd "$(dirname "$0")/coq"
rm -f Makefile Makefile.conf .Makefile.d
find . -name '*.vo' -o -name '*.vok' -o -name '*.vos' -o -name '*.glob' -o -name '.*.aux' | xargs rm -f
coq_makefile -f _CoqProject -o Makefile
timeout 3000 make -j"$(nproc)"
mkdir -p ../build ../replays ../evidence
echo setup-ok
