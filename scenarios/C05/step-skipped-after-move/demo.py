"""C05 / f3: a step that exists when a step phase begins and is not deleted is
skipped in that phase when an earlier step of the same phase MOVES the
compartment it lives in (_move, as issued by the library's own Engulf and
Burst steps).  Engine.run_steps computes the execution layers (lists of step
PATHS) once, at the start of the phase; the move re-registers the step under
its new path and removes the old path, so `self._step_paths.get(old_path)`
finds nothing and the step is passed over as if "deleted by a previous step".

Expected (property C05): every step that exists when the phase begins runs
exactly once in the phase and sees this batch's process updates.  Here each
agent has a process Grow (x += 1) and a step Double (y := 2 * x); so y == 2 * x
must hold for every agent in every emitted row, wherever the agent lives.
"""
import sys
from vivarium.core.engine import Engine
from vivarium.core.process import Process, Step
from vivarium.processes.engulf import Engulf

RUNS = []   # (global x seen, agent name) for every Double invocation


class Grow(Process):
    """x += 1 per second; the hunter asks for its prey when x reaches 2."""
    defaults = {'prey': None}

    def ports_schema(self):
        return {
            'x': {'_default': 0, '_emit': True},
            'trigger': {'_default': [], '_updater': 'set'},
        }

    def next_update(self, timestep, states):
        update = {'x': 1}
        if self.parameters['prey'] and states['x'] == 1:
            update['trigger'] = [self.parameters['prey']]
        return update


class Double(Step):
    """y := 2 * x"""
    defaults = {'agent': ''}

    def ports_schema(self):
        return {
            'x': {'_default': 0},
            'y': {'_default': 0, '_updater': 'set', '_emit': True},
        }

    def next_update(self, timestep, states):
        RUNS.append((states['x'], self.parameters['agent'], timestep))
        return {'y': 2 * states['x']}


def agent(name, prey=None):
    processes = {'grow': Grow({'prey': prey})}
    steps = {
        # the library's Engulf step, declared without a flow entry as in
        # vivarium/processes/engulf.py::ToyAgent (a legacy deriver)
        'engulf': Engulf({'agent_id': name}),
        'double': Double({'agent': name}),
    }
    flow = {'double': []}
    topology = {
        'grow': {'x': ('x',), 'trigger': ('engulf-trigger',)},
        'engulf': {
            'trigger': ('engulf-trigger',),
            'inner': ('agents',),
            'outer': ('..', '..', 'agents')},
        'double': {'x': ('x',), 'y': ('y',)},
    }
    return processes, steps, flow, topology


def find_agents(row, found=None):
    found = {} if found is None else found
    for name, state in (row.get('agents') or {}).items():
        found[name] = state
        find_agents(state, found)
    return found


def main():
    processes, steps, flow, topology = {}, {}, {}, {}
    for name, prey in (('hunter', 'prey'), ('prey', None)):
        p, s, f, t = agent(name, prey)
        processes[name], steps[name], flow[name], topology[name] = p, s, f, t
    engine = Engine(
        processes={'agents': processes},
        steps={'agents': steps},
        flow={'agents': flow},
        topology={'agents': topology},
        initial_state={'agents': {
            'hunter': {'agents': {}}, 'prey': {'agents': {}}}},
        display_info=False)
    engine.update(4)

    problems = []
    data = engine.emitter.get_data()
    moved = False
    for time, row in sorted(data.items()):
        agents = find_agents(row)
        if 'prey' in (row['agents'].get('hunter', {}).get('agents') or {}):
            moved = True
        for name, state in sorted(agents.items()):
            if state['y'] != 2 * state['x']:
                problems.append(
                    f't={time}: agent {name!r} emitted x={state["x"]}, '
                    f'y={state["y"]}: its step Double did not run after '
                    "this batch's process updates (expected y == 2 * x)")
    if not moved:
        problems.append('the prey was never engulfed: demo is broken')
    # every Double must have run exactly once in each of the 5 phases
    # (construction + 4 batches); x identifies the phase
    for name in ('hunter', 'prey'):
        for x in range(5):
            count = sum(
                1 for seen, who, _ in RUNS if who == name and seen == x)
            if count != 1:
                problems.append(
                    f"phase with x={x}: step Double of agent {name!r} ran "
                    f'{count} times, expected exactly once')
    if any(timestep != 0 for _, _, timestep in RUNS):
        problems.append('a step got a non-zero timestep')
    for problem in problems:
        print(problem)
    if problems:
        print('VIOLATION of C05: a live step was skipped in a step phase')
        sys.exit(1)
    print('ok: every step ran exactly once per phase')
    sys.exit(0)


if __name__ == '__main__':
    main()
