"""C05 - flow-less steps (derivers) must run one at a time IN DECLARATION ORDER
in every step phase.

An agent composite declares two legacy derivers (steps without flow entry):

    steps = {'mass':   MassDeriver,              # declared first
             'sub': {'volume': VolumeDeriver}}   # declared second

'volume' reads the 'mass' variable that 'mass' derives from 'count'.  The
agent divides with a '_divide' update whose daughters carry the SAME composite
('processes', 'steps', 'topology', 'flow'), exactly as the library's
MetaDivision does.

Expected: mother and daughters are instances of one composite, so in every
phase each agent's 'mass' runs before its 'volume' and after every batch
volume == 2 * mass == 2 * 10 * count in every agent.
Observed on the unchanged tree: the mother (built by Engine.__init__) runs
mass -> volume, the daughters (built by Store.divide / Engine.apply_update)
run volume -> mass for the rest of the simulation, so the daughters' volume
is computed from the mass of the previous batch.
"""
import sys

from vivarium.core.engine import Engine
from vivarium.core.process import Process, Step

ORDER = []


class Grow(Process):
    def ports_schema(self):
        return {'st': {'count': {
            '_default': 1, '_emit': True, '_divider': 'set'}}}

    def next_update(self, timestep, states):
        return {'st': {'count': 1}}


class MassDeriver(Step):
    def ports_schema(self):
        return {'st': {
            'count': {'_default': 1},
            'mass': {'_default': 0, '_updater': 'set', '_emit': True,
                     '_divider': 'set'}}}

    def next_update(self, timestep, states):
        ORDER.append((self.parameters['agent'], 'mass'))
        return {'st': {'mass': 10 * states['st']['count']}}


class VolumeDeriver(Step):
    def ports_schema(self):
        return {'st': {
            'mass': {'_default': 0},
            'volume': {'_default': 0, '_updater': 'set', '_emit': True,
                       '_divider': 'set'}}}

    def next_update(self, timestep, states):
        ORDER.append((self.parameters['agent'], 'volume'))
        return {'st': {'volume': 2 * states['st']['mass']}}


class Divide(Process):
    """Divides its agent at its 2nd call (only the first generation)."""
    defaults = {'agent': None, 'divides': False}

    def ports_schema(self):
        return {
            'agents': {'*': {}},
            'calls': {'n': {'_default': 0, '_divider': 'zero'}}}

    def next_update(self, timestep, states):
        update = {'calls': {'n': 1}}
        if self.parameters['divides'] and states['calls']['n'] == 1:
            mother = self.parameters['agent']
            daughters = []
            for suffix in ('0', '1'):
                composite = agent_composite(mother + suffix, divides=False)
                daughters.append({
                    'key': mother + suffix,
                    'processes': composite['processes'],
                    'steps': composite['steps'],
                    'flow': composite['flow'],
                    'topology': composite['topology'],
                    'initial_state': {}})
            update['agents'] = {
                '_divide': {'mother': mother, 'daughters': daughters}}
        return update


def agent_composite(agent, divides):
    return {
        'processes': {
            'sub': {'grow': Grow()},
            'divide': Divide({'agent': agent, 'divides': divides}),
        },
        'steps': {
            'mass': MassDeriver({'agent': agent}),               # first
            'sub': {'volume': VolumeDeriver({'agent': agent})},  # second
        },
        'flow': {},
        'topology': {
            'mass': {'st': ('st',)},
            'divide': {'agents': ('..',), 'calls': ('calls',)},
            'sub': {
                'grow': {'st': ('..', 'st')},
                'volume': {'st': ('..', 'st')},
            },
        },
    }


def main():
    mother = agent_composite('m', divides=True)
    engine = Engine(
        processes={'agents': {'m': mother['processes']}},
        steps={'agents': {'m': mother['steps']}},
        flow={},
        topology={'agents': {'m': mother['topology']}},
        display_info=False,
    )
    problems = []
    for batch in range(1, 5):
        del ORDER[:]
        engine.update(1)
        agents = engine.state.get_value()['agents']
        for agent in sorted(agents):
            steps_run = [name for who, name in ORDER if who == agent]
            st = agents[agent]['st']
            print(f'batch {batch}: agent {agent}: step order {steps_run}, '
                  f'count={st["count"]} mass={st["mass"]} '
                  f'volume={st["volume"]}')
            if steps_run != ['mass', 'volume']:
                problems.append(
                    f'batch {batch}, agent {agent}: flow-less steps ran in '
                    f"order {steps_run}, declared order is "
                    f"['mass', 'volume']")
            if st['volume'] != 2 * 10 * st['count']:
                problems.append(
                    f'batch {batch}, agent {agent}: volume={st["volume"]} '
                    f'but 2*mass of this batch is {2 * 10 * st["count"]} '
                    f'(stale mass was read)')
    if problems:
        print('PROPERTY VIOLATED:')
        for problem in problems:
            print('  ' + problem)
        return 1
    print('ok: daughters run their derivers in declaration order')
    return 0


if __name__ == '__main__':
    sys.exit(main())
