"""C05 - in each phase every step that exists when the phase begins (and is
not deleted before its turn) runs exactly once.

'Totals' is a step that sums the variables named in its 'tracked' parameter
and - like any container-like class - tells how many it tracks through
__len__.  With an empty 'tracked' list (nothing to sum yet; it still
publishes total = 0 and a heartbeat) the object is FALSY in Python.

Expected: the step exists in the engine (it is in Engine.steps, in the store
and in the flow), so it is invoked once at construction and once after every
batch, whatever its truth value; 'beats' counts the invocations.
Observed on the unchanged tree: Engine.run_steps looks the step up with
`step = self._step_paths.get(path)` and tests `if not step:` ("Step was
deleted by a previous step"), so the falsy step is silently skipped in every
phase; the same step with one tracked variable runs normally, and a falsy
PROCESS is scheduled normally by run_for.
"""
import sys

from vivarium.core.engine import Engine
from vivarium.core.process import Process, Step


class Grow(Process):
    defaults = {'tracked': []}

    def __len__(self):
        return len(self.parameters['tracked'])

    def ports_schema(self):
        return {'st': {'count': {'_default': 0, '_emit': True}}}

    def next_update(self, timestep, states):
        return {'st': {'count': 1}}


class Totals(Step):
    defaults = {'tracked': []}

    def __len__(self):
        return len(self.parameters['tracked'])

    def ports_schema(self):
        schema = {
            name: {'_default': 0} for name in self.parameters['tracked']}
        schema['total'] = {'_default': 0, '_updater': 'set', '_emit': True}
        schema['beats'] = {'_default': 0, '_emit': True}
        return {'st': schema}

    def next_update(self, timestep, states):
        total = sum(
            states['st'][name] for name in self.parameters['tracked'])
        return {'st': {'total': total, 'beats': 1}}


def run(tracked):
    engine = Engine(
        processes={'grow': Grow()},   # a falsy process: len() == 0
        steps={'totals': Totals({'tracked': tracked})},
        flow={'totals': []},
        topology={'grow': {'st': ('st',)}, 'totals': {'st': ('st',)}},
        display_info=False,
    )
    assert ('totals',) in engine._step_paths  # the step exists
    engine.update(3)
    return engine.state.get_value()['st']


def main():
    problems = []
    reference = run(['count'])
    print('tracking count:', reference)
    if reference['beats'] != 4 or reference['total'] != 3:
        problems.append(f'reference run wrong: {reference}')
    empty = run([])
    print('tracking nothing (len(step) == 0):', empty)
    if empty['count'] != 3:
        problems.append(
            f'the falsy PROCESS was not scheduled: count={empty["count"]}')
    if empty['beats'] != 4:
        problems.append(
            f'step "totals" exists but was invoked {empty["beats"]} times '
            'in 4 phases (construction + 3 batches); expected 4')
    if problems:
        print('PROPERTY VIOLATED:')
        for problem in problems:
            print('  ' + problem)
        return 1
    print('ok: the step ran once per phase')
    return 0


if __name__ == '__main__':
    sys.exit(main())
