"""C05 - a step phase runs at engine construction for ALL flows that are DAGs,
and a step runs only after the steps it depends on.

Composer.generate_flow documents the value of a flow entry as a SEQUENCE:
"a dictionary mapping step names to sequences (e.g. lists or tuples) of
paths. Steps with no dependencies must be included, but they should be mapped
to an empty sequence", and vivarium.core.types declares
Flow = Dict[str, Sequence[HierarchyPath]].

Here the flow of a two-step chain is written with tuples:

    flow = {'mass': (), 'volume': (('mass',),)}

Expected: the engine is built, the construction phase and every later phase
run mass before volume, and volume == 2 * mass after every batch - exactly as
with flow = {'mass': [], 'volume': [('mass',)]}, and exactly as the same
tuple-valued flow behaves when it arrives at run time inside a '_generate'
update (second half of this demo: that works).
Observed on the unchanged tree: Engine.__init__ raises a bare AssertionError
from Engine._validate_steps_and_flow before any step phase has run.
"""
import sys
import traceback

from vivarium.core.engine import Engine
from vivarium.core.process import Process, Step

ORDER = []


class Grow(Process):
    def ports_schema(self):
        return {'st': {'count': {'_default': 1, '_emit': True}}}

    def next_update(self, timestep, states):
        return {'st': {'count': 1}}


class MassStep(Step):
    def ports_schema(self):
        return {'st': {
            'count': {'_default': 1},
            'mass': {'_default': 0, '_updater': 'set', '_emit': True}}}

    def next_update(self, timestep, states):
        ORDER.append('mass')
        return {'st': {'mass': 10 * states['st']['count']}}


class VolumeStep(Step):
    def ports_schema(self):
        return {'st': {
            'mass': {'_default': 0},
            'volume': {'_default': 0, '_updater': 'set', '_emit': True}}}

    def next_update(self, timestep, states):
        ORDER.append('volume')
        return {'st': {'volume': 2 * states['st']['mass']}}


class Generator(Process):
    """Adds the same composite at run time with a '_generate' update."""

    def __init__(self, parameters=None):
        super().__init__(parameters)
        self.done = False

    def ports_schema(self):
        return {'agents': {'*': {}}}

    def next_update(self, timestep, states):
        if self.done:
            return {}
        self.done = True
        composite = make_composite(self.parameters['flow'])
        return {'agents': {'_generate': [dict(
            composite, key='cell', initial_state={})]}}


def make_composite(flow):
    return {
        'processes': {'grow': Grow()},
        'steps': {'volume': VolumeStep(), 'mass': MassStep()},
        'flow': flow,
        'topology': {
            'grow': {'st': ('st',)},
            'mass': {'st': ('st',)},
            'volume': {'st': ('st',)},
        },
    }


def check(engine, get_st, label, problems):
    for batch in range(1, 4):
        del ORDER[:]
        engine.update(1)
        st = get_st(engine)
        if st is None:
            continue
        print(f'{label}: batch {batch}: order {ORDER}, count={st["count"]} '
              f'mass={st["mass"]} volume={st["volume"]}')
        if ORDER != ['mass', 'volume'] or st['volume'] != 20 * st['count']:
            problems.append(f'{label}: batch {batch}: order {ORDER}, {st}')


def main():
    problems = []
    list_flow = {'mass': [], 'volume': [('mass',)]}
    tuple_flow = {'mass': (), 'volume': (('mass',),)}

    # 1. reference: list-valued flow at construction
    engine = Engine(display_info=False, **make_composite(list_flow))
    check(engine, lambda e: e.state.get_value()['st'],
          'lists at construction', problems)

    # 2. reference: the tuple-valued flow arriving at run time
    engine = Engine(
        processes={'generator': Generator({'flow': tuple_flow})},
        topology={'generator': {'agents': ('agents',)}},
        display_info=False)
    check(engine,
          lambda e: (e.state.get_value().get('agents') or {}).get(
              'cell', {}).get('st'),
          'tuples in _generate', problems)

    # 3. the tuple-valued flow at construction
    try:
        del ORDER[:]
        engine = Engine(display_info=False, **make_composite(tuple_flow))
        if ORDER != ['mass', 'volume']:
            problems.append(
                f'tuples at construction: construction phase ran {ORDER}')
        check(engine, lambda e: e.state.get_value()['st'],
              'tuples at construction', problems)
    except Exception as error:  # pylint: disable=broad-except
        traceback.print_exc()
        problems.append(
            'tuples at construction: Engine.__init__ raised '
            f'{type(error).__name__}({error}) - no step phase ran at '
            'construction for a flow that is a DAG written with the '
            'documented tuple form')

    if problems:
        print('PROPERTY VIOLATED:')
        for problem in problems:
            print('  ' + problem)
        return 1
    print('ok: tuple-valued flows are scheduled like list-valued flows')
    return 0


if __name__ == '__main__':
    sys.exit(main())
