"""C05 - flow-less steps (derivers) must run one at a time IN DECLARATION ORDER
in every step phase.

A compartment 'c' holds two legacy derivers (steps without flow entry):

    steps = {'c': {'mass':   MassDeriver,            # declared first
                   'sub': {'volume': VolumeDeriver}}} # declared second

'volume' reads the 'mass' variable that 'mass' derives from 'count' (the
documented meaning of a flow-less step: "treated as if they depend on every
step previously added to the engine").  A process then moves the whole
compartment from store A to store B with a '_move' update (the operation the
library's own Engulf/Burst use).  Nothing else changes.

Expected: in every phase 'mass' runs before 'volume', so after every batch
volume == 2 * mass == 2 * 10 * count.
Observed on the unchanged tree: after the move the engine runs 'volume'
BEFORE 'mass' for the rest of the simulation, so 'volume' is computed from the
mass of the previous batch.
"""
import sys

from vivarium.core.engine import Engine
from vivarium.core.process import Process, Step

ORDER = []


class Grow(Process):
    def ports_schema(self):
        return {'st': {'count': {'_default': 1, '_emit': True}}}

    def next_update(self, timestep, states):
        ORDER.append('grow')
        return {'st': {'count': 1}}


class MassDeriver(Step):
    def ports_schema(self):
        return {'st': {
            'count': {'_default': 1},
            'mass': {'_default': 0, '_updater': 'set', '_emit': True}}}

    def next_update(self, timestep, states):
        ORDER.append('mass')
        return {'st': {'mass': 10 * states['st']['count']}}


class VolumeDeriver(Step):
    def ports_schema(self):
        return {'st': {
            'mass': {'_default': 0},
            'volume': {'_default': 0, '_updater': 'set', '_emit': True}}}

    def next_update(self, timestep, states):
        ORDER.append('volume')
        return {'st': {'volume': 2 * states['st']['mass']}}


class Mover(Process):
    """Moves compartment 'c' from store A to store B at its 2nd call."""

    def ports_schema(self):
        return {
            'a': {'*': {}},
            'b': {'*': {}},
            'calls': {'n': {'_default': 0}}}

    def next_update(self, timestep, states):
        update = {'calls': {'n': 1}}
        if states['calls']['n'] == 1:
            update['a'] = {'_move': [{'source': 'c', 'target': 'b'}]}
        return update


def main():
    engine = Engine(
        processes={
            'A': {'c': {'sub': {'grow': Grow()}}},
            'mover': Mover(),
        },
        steps={
            'A': {'c': {
                'mass': MassDeriver(),               # declared first
                'sub': {'volume': VolumeDeriver()},  # declared second
            }},
        },
        topology={
            'A': {'c': {
                'mass': {'st': ('st',)},
                'sub': {
                    'grow': {'st': ('..', 'st')},
                    'volume': {'st': ('..', 'st')},
                },
            }},
            'mover': {'a': ('A',), 'b': ('B',), 'calls': ('calls',)},
        },
        display_info=False,
    )
    problems = []
    for batch in range(1, 5):
        del ORDER[:]
        engine.update(1)
        steps_run = [name for name in ORDER if name in ('mass', 'volume')]
        state = engine.state.get_value()
        where = 'A' if 'c' in (state.get('A') or {}) else 'B'
        st = state[where]['c']['st']
        print(f'batch {batch}: compartment under {where}, step order '
              f'{steps_run}, count={st["count"]} mass={st["mass"]} '
              f'volume={st["volume"]}')
        if steps_run != ['mass', 'volume']:
            problems.append(
                f'batch {batch}: flow-less steps ran in order {steps_run}, '
                f"declared order is ['mass', 'volume']")
        if st['volume'] != 2 * 10 * st['count']:
            problems.append(
                f'batch {batch}: volume={st["volume"]} but 2*mass of this '
                f'batch is {2 * 10 * st["count"]} (stale mass was read)')
    if problems:
        print('PROPERTY VIOLATED:')
        for problem in problems:
            print('  ' + problem)
        return 1
    print('ok: the derivers kept their declaration order across the move')
    return 0


if __name__ == '__main__':
    sys.exit(main())
