"""C05 / f1: a compartment generated at run time (_generate) whose steps are
nested one level down (as Composer.generate(path=...) produces them) loses the
flow of those steps: Store.insert reports only the TOP-LEVEL keys of the
inserted flow, so Engine.apply_update finds no dependencies for the nested
steps and registers them as legacy derivers (sequential, declaration order).

Expected (property C05): in every phase 'second' runs after 'first' (it lists
('first',) as its dependency) and sees the value 'first' wrote in this phase.
The same composite given to the Engine constructor behaves that way.
"""
import sys
from vivarium.core.engine import Engine
from vivarium.core.process import Process, Step

LOG = []


class Counter(Process):
    """Increments x every second; at t=1 generates the compartment 'cell'."""
    defaults = {'make': None}

    def ports_schema(self):
        return {
            'globals': {'x': {'_default': 0, '_emit': True}},
            'root': {'*': {}},
        }

    def next_update(self, timestep, states):
        update = {'globals': {'x': 1}}
        if states['globals']['x'] == 0 and self.parameters['make']:
            update['root'] = {'_generate': [self.parameters['make']()]}
        return update


class First(Step):
    """a := x (the global counter)."""
    def ports_schema(self):
        return {
            'globals': {'x': {'_default': 0}},
            'vals': {'a': {'_default': -1, '_updater': 'set'}},
        }

    def next_update(self, timestep, states):
        LOG.append(('first', timestep, states['globals']['x']))
        return {'vals': {'a': states['globals']['x']}}


class Second(Step):
    """b := a; must see the a of THIS phase."""
    def ports_schema(self):
        return {
            'globals': {'x': {'_default': 0}},
            'vals': {
                'a': {'_default': -1},
                'b': {'_default': -1, '_updater': 'set'}},
        }

    def next_update(self, timestep, states):
        LOG.append((
            'second', timestep, states['globals']['x'], states['vals']['a']))
        return {'vals': {'b': states['vals']['a']}}


def cell():
    # what SomeComposer.generate(path=('inner',)) returns: steps, topology
    # and flow nested under 'inner'
    return {
        'steps': {'inner': {'second': Second(), 'first': First()}},
        'flow': {'inner': {'second': [('first',)], 'first': []}},
        'topology': {'inner': {
            'second': {
                'globals': ('..', '..', 'globals'), 'vals': ('..', 'vals')},
            'first': {
                'globals': ('..', '..', 'globals'), 'vals': ('..', 'vals')},
        }},
    }


def check(label):
    """second must come after first in each phase and see a == x."""
    problems = []
    phases = {}
    for entry in LOG:
        phases.setdefault(entry[2], []).append(entry)
    for x, entries in sorted(phases.items()):
        names = [entry[0] for entry in entries]
        if names != ['first', 'second']:
            problems.append(
                f'{label}: phase with x={x}: steps ran as {names}, '
                "expected ['first', 'second']")
        for entry in entries:
            if entry[0] == 'second' and entry[3] != x:
                problems.append(
                    f"{label}: phase with x={x}: 'second' saw a={entry[3]}, "
                    f"its dependency 'first' should already have set a={x}")
            if entry[1] != 0:
                problems.append(f'{label}: step timestep {entry[1]} != 0')
    return problems


def at_construction():
    LOG.clear()
    c = cell()
    engine = Engine(
        processes={'counter': Counter()},
        steps={'cell': c['steps']},
        flow={'cell': c['flow']},
        topology={
            'counter': {'globals': ('globals',), 'root': ()},
            'cell': c['topology']},
        display_info=False)
    engine.update(3)
    return check('declared at construction')


def at_run_time():
    LOG.clear()

    def make():
        c = cell()
        return {
            'key': 'cell',
            'processes': {},
            'steps': c['steps'],
            'flow': c['flow'],
            'topology': c['topology'],
            'initial_state': {},
        }
    engine = Engine(
        processes={'counter': Counter({'make': make})},
        topology={'counter': {'globals': ('globals',), 'root': ()}},
        display_info=False)
    engine.update(3)
    problems = check('generated at run time')
    graph = engine._step_graph
    if graph._sequential_steps or not list(graph._graph.edges):
        problems.append(
            'generated at run time: the engine registered the steps as '
            f'legacy derivers {graph._sequential_steps} with dependency '
            f'edges {list(graph._graph.edges)}; published flow is '
            f'{engine.flow}')
    return problems


if __name__ == '__main__':
    reference = at_construction()
    if reference:
        print('UNEXPECTED: the reference run is wrong too')
    problems = reference + at_run_time()
    for problem in problems:
        print(problem)
    if problems:
        print('VIOLATION of C05: a step ran before its dependency')
        sys.exit(1)
    print('ok: dependency order respected')
    sys.exit(0)
