"""C05 / f4: legacy derivers (steps without flow entries) do not run in
declaration order when the Engine is given the pre-built Store of the very same
declaration (Engine(store=generate_state(processes, topology, state, steps,
flow)), the documented alternative to passing processes/steps/topology).

In store mode the engine takes its steps from Store.get_steps(), which walks
the store's children in the order the NODES were created.  A branch that holds
both processes and steps ('cell' below) is created when the processes are
placed, i.e. before any top-level step node, so its derivers jump ahead of the
derivers declared before them.

Expected (property C05): steps without flow entries run first, one at a time,
in declaration order: total (a := x), then cell/share (b := a / 2), then
report (c := b + 1); each sees the result of the previous one in the same
phase, so after every phase a == x, b == x / 2 and c == x / 2 + 1.
"""
import sys
from vivarium.core.engine import Engine
from vivarium.core.process import Process, Step
from vivarium.core.store import generate_state

ORDER = []


class Grow(Process):
    def ports_schema(self):
        return {'vals': {'x': {'_default': 0, '_emit': True}}}

    def next_update(self, timestep, states):
        return {'vals': {'x': 2}}


class Derive(Step):
    defaults = {'source': '', 'target': '', 'f': None}

    def ports_schema(self):
        return {'vals': {
            self.parameters['source']: {'_default': 0},
            self.parameters['target']: {
                '_default': 0, '_updater': 'set', '_emit': True},
        }}

    def next_update(self, timestep, states):
        ORDER.append(self.name)
        value = self.parameters['f'](states['vals'][self.parameters['source']])
        return {'vals': {self.parameters['target']: value}}


def declaration():
    processes = {'cell': {'grow': Grow()}}
    # declaration order of the derivers: total, cell/share, report
    steps = {
        'total': Derive({
            'name': 'total', 'source': 'x', 'target': 'a',
            'f': lambda x: x}),
        'cell': {
            'share': Derive({
                'name': 'share', 'source': 'a', 'target': 'b',
                'f': lambda a: a / 2})},
        'report': Derive({
            'name': 'report', 'source': 'b', 'target': 'c',
            'f': lambda b: b + 1}),
    }
    topology = {
        'cell': {
            'grow': {'vals': ('..', 'vals')},
            'share': {'vals': ('..', 'vals')}},
        'total': {'vals': ('vals',)},
        'report': {'vals': ('vals',)},
    }
    return processes, steps, topology


def run(label, make_engine):
    ORDER.clear()
    engine = make_engine()
    engine.update(2)
    problems = []
    expected = ['total', 'share', 'report']
    phases = [ORDER[i:i + 3] for i in range(0, len(ORDER), 3)]
    for number, phase in enumerate(phases):
        if phase != expected:
            problems.append(
                f'{label}: phase {number}: derivers ran as {phase}, '
                f'declared as {expected}')
    for time, row in sorted(engine.emitter.get_data().items()):
        vals = row['vals']
        want = {'a': vals['x'], 'b': vals['x'] / 2, 'c': vals['x'] / 2 + 1}
        got = {key: vals[key] for key in want}
        if got != want:
            problems.append(
                f'{label}: t={time}: x={vals["x"]} emitted with {got}, '
                f'expected {want} (a deriver read a stale input)')
    return problems


def from_declaration():
    processes, steps, topology = declaration()
    return Engine(
        processes=processes, steps=steps, topology=topology,
        display_info=False)


def from_store():
    processes, steps, topology = declaration()
    store = generate_state(processes, topology, {}, steps, {})
    return Engine(store=store, display_info=False)


if __name__ == '__main__':
    reference = run('Engine(processes, steps, topology)', from_declaration)
    if reference:
        print('UNEXPECTED: the reference run is wrong too')
    problems = reference + run('Engine(store=...)', from_store)
    for problem in problems:
        print(problem)
    if problems:
        print('VIOLATION of C05: derivers did not run in declaration order')
        sys.exit(1)
    print('ok: derivers ran in declaration order')
    sys.exit(0)
