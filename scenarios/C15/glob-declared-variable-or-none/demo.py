"""A store declared with an empty glob sub-schema ({'*': {}}) and set_value.

Case A: the state of a simulation whose agents store is empty at the moment
        ({'agents': None} is what Store.get_value() reports for it) is used as
        the initial state of a new Engine (save / restart).
Case B: a TimelineProcess event that addresses a top-level variable with a
        one-element path declares the port {'*': {}} on that VARIABLE (a leaf
        declared by another process); an initial state for the variable is
        given.
Case C: a reader declares {'*': {}} on a variable that holds a dictionary;
        the 'set' updater must keep working on it.
Exit 0 when all three behave, 1 otherwise.
"""
import sys
import traceback

from vivarium.core.engine import Engine
from vivarium.core.process import Process
from vivarium.processes.timeline import TimelineProcess


def values(engine):
    return engine.state.get_value(
        condition=lambda s: not isinstance(s.value, Process))


class Count(Process):
    def ports_schema(self):
        return {
            'agents': {'*': {}},
            'n': {'_default': 0, '_updater': 'set'}}

    def next_update(self, timestep, states):
        return {'n': len(states['agents'])}


class Grow(Process):
    def ports_schema(self):
        return {'volume': {'_default': 1.0, '_updater': 'accumulate'}}

    def next_update(self, timestep, states):
        return {'volume': 0.5 * timestep}


class Exchanger(Process):
    def ports_schema(self):
        return {'exchange': {'_default': {}, '_updater': 'set'}}

    def next_update(self, timestep, states):
        new = dict(states['exchange'])
        new['glc'] = new.get('glc', 0) + 1
        return {'exchange': new}


class Reader(Process):
    def ports_schema(self):
        return {'exchange': {'*': {}}}

    def next_update(self, timestep, states):
        return {}


def case_a():
    def build(initial_state):
        return Engine(
            processes={'count': Count()},
            topology={'count': {'agents': ('agents',), 'n': ('n',)}},
            initial_state=initial_state, progress_bar=False)
    first = build({})
    first.update(1)
    saved = values(first)
    print('A: saved state', saved)
    second = build(saved)
    second.update(1)
    result = values(second)
    print('A: restarted state', result)
    return result.get('n') == 0


def case_b():
    timeline = TimelineProcess({'timeline': [(2, {('volume',): 10.0})]})
    engine = Engine(
        processes={'grow': Grow(), 'timeline': timeline},
        topology={
            'grow': {'volume': ('volume',)},
            'timeline': {'global': ('global',), 'volume': ('volume',)}},
        initial_state={'volume': 2.0}, progress_bar=False)
    engine.update(1)
    result = values(engine)
    print('B: state after 1 s', result)
    return result['volume'] == 2.5


def case_c():
    engine = Engine(
        processes={'exchanger': Exchanger(), 'reader': Reader()},
        topology={
            'exchanger': {'exchange': ('exchange',)},
            'reader': {'exchange': ('exchange',)}},
        initial_state={'exchange': {'glc': 1, 'lac': 4}},
        progress_bar=False)
    engine.update(2)
    result = values(engine)
    print('C: state after 2 s', result)
    return result['exchange'] == {'glc': 3, 'lac': 4}


ok = True
for name, case in (('A', case_a), ('B', case_b), ('C', case_c)):
    try:
        good = case()
    except Exception as error:  # pylint: disable=broad-except
        traceback.print_exc()
        print(f'{name}: RAISED {type(error).__name__}: {error}')
        good = False
    print(f'case {name}:', 'ok' if good else 'WRONG')
    ok = ok and good
sys.exit(0 if ok else 1)
