"""C15: a dict-valued variable does not hold the value the initial state
gives for it when the engine is built from a composite that carries state.

The variable ('s', 'tags') holds a dictionary (updater 'set', default {}).
The composite carries a state for it ({'old': 1}); the caller of Engine
gives an initial state for the same variable.

Expected (property): after construction the variable holds the value given
for that node in the initial state: {'new': 2}, resp. {} - as it does when
the engine is built from the store the same composite generates
(Engine(store=composite.generate_store(), initial_state=...)), the two ways
of loading an engine being "interchangeable" (Engine._make_store docstring).

Observed: Engine._make_store combines composite['state'] and the initial
state with deep_merge, which recurses into the VALUE of the variable as if
it were a branch of the hierarchy: the variable is built with
{'old': 1, 'new': 2}, and an explicit {} has no effect at all.
Composite.initial_state(config={'initial_state': ...}) does the same with
the composite's state and with the processes' own initial_state().
"""
import sys

from vivarium.core.composer import Composite
from vivarium.core.engine import Engine
from vivarium.core.process import Process


class Tagger(Process):
    def ports_schema(self):
        return {
            's': {
                'tags': {'_default': {}, '_updater': 'set'},
                'n': {'_default': 0}}}

    def next_update(self, timestep, states):
        return {}


def composite():
    return Composite(
        processes={'tagger': Tagger()},
        topology={'tagger': {'s': ('s',)}},
        state={'s': {'tags': {'old': 1}, 'n': 3}})


failures = []
for given in ({'new': 2}, {}):
    initial_state = {'s': {'tags': given}}

    # control: engine built from the store of the same composite
    engine = Engine(
        store=composite().generate_store(),
        initial_state={'s': {'tags': dict(given)}},
        progress_bar=False, display_info=False)
    built = engine.state.get_value()['s']
    if built != {'tags': given, 'n': 3}:
        failures.append(f'control (store=) failed: {built}')

    engine = Engine(
        composite=composite(),
        initial_state=initial_state,
        progress_bar=False, display_info=False)
    built = engine.state.get_value()['s']
    if built['n'] != 3:
        failures.append(f"('s','n') is {built['n']}, expected 3")
    if built['tags'] != given:
        failures.append(
            f"Engine(composite=..., initial_state={{'s': {{'tags': {given}}}}}): "
            f"('s','tags') holds {built['tags']}, expected {given}")

    # (not counted: the same merge in Composite.initial_state)
    state = composite().initial_state({'initial_state': initial_state})
    if state['s']['tags'] != given:
        print(
            f"note: Composite.initial_state(initial_state tags={given}) "
            f"places {state['s']['tags']} at ('s','tags') as well")

if failures:
    print('PROPERTY VIOLATED (C15):')
    for failure in failures:
        print(' -', failure)
    sys.exit(1)
print('ok')
sys.exit(0)
