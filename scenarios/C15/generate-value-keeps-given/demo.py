"""Store.generate_value: "generate the structure for this value that don't
exist, but don't overwrite any existing values".

6971b4e applies the declared defaults to a child that generate_value creates
below a glob store *before* it descends with the given value.  generate_value
only fills variables whose value is None, so every value given for such a
child is now discarded in favour of the declared default (set_value, which
overwrites, is not affected).
"""
import sys
from vivarium.core.store import Store

schema = {'agents': {'*': {
    'x': {'_default': 1},
    'y': {'_default': 2}}}}

store = Store(schema)
store.generate_value({'agents': {'a': {'x': 5}}})
got = store.get_value()
print('generate_value({agents: {a: {x: 5}}}) ->', got)

reference = Store(schema)
reference.set_value({'agents': {'a': {'x': 5}}})
print('set_value     ({agents: {a: {x: 5}}}) ->', reference.get_value())

# a glob store of leaves
leaves = Store({'counts': {'*': {'_default': 0}}})
leaves.generate_value({'counts': {'k': 9}})
got_leaves = leaves.get_value()
print('generate_value({counts: {k: 9}})      ->', got_leaves)

ok = got['agents']['a']['x'] == 5 and got_leaves['counts']['k'] == 9
if not ok:
    print('WRONG: the given value of a child created below a glob store is '
          'replaced by the declared default')
sys.exit(0 if ok else 1)
