"""C15: Process.default_state() / Composite.default_state() place the
defaults of a glob port's sub-schema at a node literally named '*'.

The process declares a glob port ('agents': every child has a 'mass' with
default 1.0) and an ordinary port ('env').  A glob port declares no child by
itself: a store built from the composite without an initial state has an
EMPTY agents store.

Expected (property): default_state() places each process's default values
at the nodes its ports are wired to: {'env': {'glc': 10.0}} (the agents
store has no node to give a value to).  In particular, building the engine
with initial_state=composite.default_state() builds the same state as
building it with no initial state at all - every variable holds its
default either way.

Observed: Process.default_state.get_defaults walks the schema dictionary
and treats the key '*' as the name of a variable/branch, so the state is
{'agents': {'*': {'mass': 1.0}}, 'env': {'glc': 10.0}}; handed to the
engine as the initial state (the pattern of the shipped CountsToConcentration
etc.: `initial_state()` returns `self.default_state()`), it creates an agent
called '*' in the agents store.  The shipped NonSpatialEnvironment shows the
same: default_state() == {'fields': {'*': array([[1.]])}}.
"""
import sys

from vivarium.core.composer import Composite
from vivarium.core.engine import Engine
from vivarium.core.process import Process


class Colony(Process):
    def ports_schema(self):
        return {
            'agents': {
                '*': {
                    'mass': {'_default': 1.0}}},
            'env': {
                'glc': {'_default': 10.0}}}

    def initial_state(self, config=None):
        # as vivarium.processes.mass_adaptor does
        return self.default_state()

    def next_update(self, timestep, states):
        return {}


def composite():
    return Composite(
        processes={'colony': Colony()},
        topology={'colony': {'agents': ('cells',), 'env': ('env',)}})


def variables(engine):
    state = engine.state.get_value()
    state.pop('colony')
    return state


failures = []

reference = variables(Engine(
    composite=composite(), progress_bar=False, display_info=False))
if reference != {'cells': {}, 'env': {'glc': 10.0}}:
    failures.append(f'control: state without initial state is {reference}')

for name in ('default_state', 'initial_state'):
    state = getattr(composite(), name)()
    print(f'Composite.{name}() ->', state)
    if '*' in state.get('cells', {}):
        failures.append(
            f"Composite.{name}() places {state['cells']} below ('cells',): "
            "'*' is not a node of the hierarchy")
    built = variables(Engine(
        composite=composite(), initial_state=state,
        progress_bar=False, display_info=False))
    if built != reference:
        failures.append(
            f'Engine(initial_state=composite.{name}()) builds {built}, '
            f'expected the all-defaults state {reference}')

if failures:
    print('PROPERTY VIOLATED (C15):')
    for failure in failures:
        print(' -', failure)
    sys.exit(1)
print('ok')
sys.exit(0)
