"""C15: incompatible units declared by two processes for one variable are
accepted silently, depending on the order of the declarations.

Process 'grams' declares the variable ('s', 'x') with '_units': gram.
Process 'molar' declares the same variable with a default that is a
quantity in millimolar (which, per Store._apply_config, declares the units
of the variable too when no '_units' key is given).

Expected (property): gram and millimolar are incompatible units for one
variable, so construction raises - as it does when 'molar' is listed before
'grams' ("Incompatible schema assignment at ('s', 'x'). Trying to assign the
value gram to key units, which already has the value millimolar").

Observed: with 'grams' listed first, Store._apply_config takes the units of
the default only `self.units = self.units or self.default.units` - no
_check_schema - so the store is built without any error: the variable has
'_units': gram and holds 1.0 millimolar.  (The first update of the variable,
or emitting it, then fails inside pint with a DimensionalityError.)  The
same goes for a '_value' quantity, whose units REPLACE declared ones
unchecked (`self.units = self.value.units`).
"""
import sys

from vivarium.core.engine import Engine
from vivarium.core.process import Process
from vivarium.library.units import units


class Declares(Process):
    def ports_schema(self):
        return {'s': {'x': dict(self.parameters['x'])}}

    def next_update(self, timestep, states):
        return {}


def build(order, declarations):
    processes = {
        name: Declares({'x': declarations[name]}) for name in order}
    topology = {name: {'s': ('s',)} for name in order}
    engine = Engine(
        processes=processes, topology=topology,
        progress_bar=False, display_info=False)
    return engine.state.get_path(('s', 'x')).get_config()


def outcome(order, declarations):
    try:
        config = build(order, declarations)
    except Exception as error:  # any construction error counts
        return 'raises', str(error).split('.')[0]
    return 'built', {
        key: config.get(key) for key in ('_units', '_default', '_value')}


failures = []
cases = {
    "'_units': gram  vs  '_default': 1.0 millimolar": {
        'grams': {'_units': units.g, '_updater': 'set'},
        'molar': {'_default': 1.0 * units.mM, '_updater': 'set'}},
    "'_units': gram  vs  '_value': 1.0 millimolar": {
        'grams': {'_units': units.g, '_updater': 'set'},
        'molar': {'_value': 1.0 * units.mM, '_updater': 'set'}},
}
for title, declarations in cases.items():
    reference = outcome(('molar', 'grams'), declarations)
    swapped = outcome(('grams', 'molar'), declarations)
    print(title)
    print('   molar listed first:', reference)
    print('   grams listed first:', swapped)
    if reference[0] != 'raises':
        failures.append(f'{title}: control did not raise: {reference}')
    if swapped[0] != 'raises':
        failures.append(
            f'{title}: with the process declaring gram listed first the '
            f'engine is built without error: {swapped[1]}')

if failures:
    print('PROPERTY VIOLATED (C15):')
    for failure in failures:
        print(' -', failure)
    sys.exit(1)
print('ok')
sys.exit(0)
