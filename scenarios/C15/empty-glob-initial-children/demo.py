"""C15: children named in the initial state of a glob port declared as
{'*': {}} are not created.

A store whose children are managed by a process is declared with the port
schema {'agents': {'*': {}}} (this is how the shipped Remove, Burst, Engulf,
SwapProcesses and Timeline processes declare such stores).  The initial
state names two agents below that store.

Expected (property): after construction the agents 'a' and 'b' exist as
child nodes of ('agents',) - as they do when the sub-schema declares at
least one variable, and as they do when the same agents arrive through an
'_add' at run time - so the process sees them through its glob port and the
shipped Remove step can delete one of them.

Observed: Store.set_value tests `if self.inner or self.subschema:`; for a
store without children whose glob sub-schema is the empty dict both are
falsy, so the whole dictionary {'a': ..., 'b': ...} is stored as the VALUE
of the node ('agents',).  No child exists: the process's view of the store
is {}, and Remove's {'_delete': ['a']} removes nothing.
"""
import sys

from vivarium.core.engine import Engine
from vivarium.core.process import Process
from vivarium.processes.remove import Remove


class Reader(Process):
    """Looks at the agents store through a glob port."""

    def __init__(self, parameters=None):
        super().__init__(parameters)
        self.seen = None

    def ports_schema(self):
        return {'agents': {'*': self.parameters.get('sub', {})}}

    def next_update(self, timestep, states):
        self.seen = sorted(states['agents'].keys())
        return {}


def build(sub, dead):
    reader = Reader({'sub': sub})
    engine = Engine(
        processes={'reader': reader},
        steps={'death': Remove({'agent_id': 'a'})},
        topology={
            'reader': {'agents': ('agents',)},
            'death': {'trigger': ('dead',), 'agents': ('agents',)}},
        initial_state={
            'agents': {'a': {'mass': 1.0}, 'b': {'mass': 2.0}},
            'dead': dead},
        progress_bar=False, display_info=False)
    return engine, reader


failures = []

# control: a sub-schema with one declared variable
engine, reader = build({'mass': {'_default': 0.0}}, dead=False)
children = sorted(engine.state.get_path(('agents',)).inner.keys())
engine.update(1)
if children != ['a', 'b'] or reader.seen != ['a', 'b']:
    failures.append(f'control failed: children {children}, seen {reader.seen}')

# the case: the empty sub-schema
engine, reader = build({}, dead=False)
agents = engine.state.get_path(('agents',))
children = sorted(agents.inner.keys())
if children != ['a', 'b']:
    failures.append(
        "children of ('agents',) after construction: "
        f"{children}, expected ['a', 'b'] (the node's own value is "
        f"{agents.value!r})")
engine.update(1)
if reader.seen != ['a', 'b']:
    failures.append(
        f"the process sees the agents {reader.seen} through its glob port, "
        "expected ['a', 'b']")

# Remove deletes agent 'a' when the trigger is set
engine, reader = build({}, dead=True)   # the step runs at construction
left = engine.state.get_value()['agents']
if sorted(left.keys()) != ['b']:
    failures.append(
        "Remove({'agent_id': 'a'}) with trigger True left the agents "
        f"{left}, expected only 'b'")

if failures:
    print('PROPERTY VIOLATED (C15):')
    for failure in failures:
        print(' -', failure)
    sys.exit(1)
print('ok')
sys.exit(0)
