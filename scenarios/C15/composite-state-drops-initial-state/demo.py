"""C15 / f1: Engine(composite=<composite with a state>, initial_state=...) drops
the initial state handed to the Engine.

Expected (property C15): after the engine is built every declared variable holds
the value given for its node in the initial state if there is one, and its
declared default otherwise.  Here the composite carries a state for s/x and the
caller of Engine gives an initial state for s/y (and t/z): all three nodes have
a value "given in the initial state", so x == 5, y == 7, z == 9 is expected.
"""
import sys

from vivarium.core.composer import Composite
from vivarium.core.engine import Engine
from vivarium.core.process import Process


class Declares(Process):
    def ports_schema(self):
        return {
            's': {
                'x': {'_default': 1},
                'y': {'_default': 2}},
            't': {
                'z': {'_default': 3}}}

    def next_update(self, timestep, states):
        return {}


def build(state, initial_state):
    composite = Composite(
        processes={'p': Declares()},
        topology={'p': {'s': ('s',), 't': ('t',)}},
        state=state)
    engine = Engine(
        composite=composite,
        initial_state=initial_state,
        display_info=False)
    value = engine.state.get_value()
    return {
        'x': value['s']['x'], 'y': value['s']['y'], 'z': value['t']['z']}


def main():
    failures = []

    # control: no composite state; the Engine's initial_state is honoured
    got = build({}, {'s': {'y': 7}, 't': {'z': 9}})
    print('composite.state = {}          ->', got)
    if got != {'x': 1, 'y': 7, 'z': 9}:
        failures.append(f'control case wrong: {got}')

    # the composite carries a state for another variable
    got = build({'s': {'x': 5}}, {'s': {'y': 7}, 't': {'z': 9}})
    print("composite.state = {s: {x: 5}} ->", got)
    expected = {'x': 5, 'y': 7, 'z': 9}
    if got != expected:
        failures.append(
            f'with a composite state the initial_state given to Engine is '
            f'ignored: expected {expected}, got {got}')

    if failures:
        print('PROPERTY VIOLATED:')
        for failure in failures:
            print(' -', failure)
        return 1
    print('property holds')
    return 0


if __name__ == '__main__':
    sys.exit(main())
