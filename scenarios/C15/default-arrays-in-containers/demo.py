"""C15 / f3: two processes that declare the SAME default for a shared variable
cannot be composed when that default is a list / tuple / dict holding numpy
arrays.

Expected (property C15): declarations by several processes for one variable are
merged - compatible ones silently.  Two instances of one process class wired to
the same store make identical declarations; the engine must be built and the
variable must hold the declared default.  (A bare numpy array as default, and
any container without arrays, work.)
"""
import sys

import numpy as np

from vivarium.core.engine import Engine
from vivarium.core.process import Process


class Fields(Process):
    defaults = {'kind': 'dict'}

    def ports_schema(self):
        kind = self.parameters['kind']
        if kind == 'array':
            default = np.array([1.0, 2.0])
        elif kind == 'dict':
            default = {'glc': np.array([1.0, 2.0]), 'lac': np.array([0.0, 0.0])}
        elif kind == 'list':
            default = [np.array([1.0, 2.0]), np.array([3.0])]
        elif kind == 'plain':
            default = {'glc': [1.0, 2.0]}
        return {'env': {'fields': {'_default': default, '_updater': 'set'}}}

    def next_update(self, timestep, states):
        return {}


def build(kind):
    engine = Engine(
        processes={
            'left': Fields({'kind': kind}),
            'right': Fields({'kind': kind})},
        topology={
            'left': {'env': ('env',)},
            'right': {'env': ('env',)}},
        display_info=False)
    return engine.state.get_value()['env']['fields']


def main():
    failures = []
    for kind in ('plain', 'array', 'dict', 'list'):
        try:
            value = build(kind)
            print(f'{kind:6s}: built, env/fields = {value!r}')
        except Exception as error:  # pylint: disable=broad-except
            print(f'{kind:6s}: construction raised '
                  f'{type(error).__name__}: {error}')
            failures.append(
                f'two identical declarations with a {kind} default holding '
                f'numpy arrays could not be merged: '
                f'{type(error).__name__}: {error}')
    if failures:
        print('PROPERTY VIOLATED:')
        for failure in failures:
            print(' -', failure)
        return 1
    print('property holds')
    return 0


if __name__ == '__main__':
    sys.exit(main())
