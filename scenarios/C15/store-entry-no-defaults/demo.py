"""C15 / f2: Engine(store=<pre-built store>, initial_state=...) creates the
children named in the initial state of a glob port WITHOUT their defaults.

Expected (property C15): children named in the initial state of a glob ('*')
port are created with the declared sub-schema and defaults: agent 'a1' is named
with x=5 only, so a1/y must hold its declared default 2 (and the empty agent
'a2' must hold x=1, y=2) - whichever of the three documented ways is used to
build the engine.
"""
import sys

from vivarium.core.engine import Engine
from vivarium.core.process import Process
from vivarium.core.store import generate_state


class Glob(Process):
    def ports_schema(self):
        return {
            'agents': {
                '*': {
                    'x': {'_default': 1},
                    'y': {'_default': 2}}}}

    def next_update(self, timestep, states):
        return {}


TOPOLOGY = {'p': {'agents': ('agents',)}}
INITIAL = {'agents': {'a1': {'x': 5}, 'a2': {}}}
EXPECTED = {'a1': {'x': 5, 'y': 2}, 'a2': {'x': 1, 'y': 2}}


def main():
    failures = []

    # control: processes + topology + initial_state
    engine = Engine(
        processes={'p': Glob()}, topology=TOPOLOGY,
        initial_state=INITIAL, display_info=False)
    got = engine.state.get_value()['agents']
    print('Engine(processes, topology, initial_state) ->', got)
    if got != EXPECTED:
        failures.append(f'control case wrong: {got}')

    # a pre-loaded store (documented alternative), same initial state
    store = generate_state({'p': Glob()}, TOPOLOGY, {})
    engine = Engine(store=store, initial_state=INITIAL, display_info=False)
    got = engine.state.get_value()['agents']
    print('Engine(store, initial_state)               ->', got)
    if got != EXPECTED:
        failures.append(
            f'Engine(store=..., initial_state=...): glob children named in the '
            f'initial state lack their defaults: expected {EXPECTED}, got {got}')

    if failures:
        print('PROPERTY VIOLATED:')
        for failure in failures:
            print(' -', failure)
        return 1
    print('property holds')
    return 0


if __name__ == '__main__':
    sys.exit(main())
