"""'_units' given as a string that pint understands ('fg') next to a quantity
default.  The store hands self.units to Quantity.to(), which takes strings, so
such a declaration worked: the value is kept in those units and emitted.
Exit 0 when the composite builds, updates and emits; 1 otherwise.
"""
import sys
import traceback

from vivarium.core.engine import Engine
from vivarium.core.process import Process
from vivarium.library.units import units


class Grow(Process):
    def ports_schema(self):
        return {
            'mass': {
                '_default': 1000.0 * units.fg,
                '_units': 'pg',
                '_updater': 'accumulate',
                '_emit': True}}

    def next_update(self, timestep, states):
        return {'mass': 500.0 * units.fg}


try:
    engine = Engine(
        processes={'grow': Grow()},
        topology={'grow': {'mass': ('mass',)}},
        progress_bar=False)
    engine.update(2)
    mass = engine.state.get_value(
        condition=lambda s: not isinstance(s.value, Process))['mass']
    data = engine.emitter.get_data()
    print('mass:', mass)
    print('emitted:', data)
    ok = (
        abs(mass.to('pg').magnitude - 2.0) < 1e-9
        and str(mass.units) == 'picogram'
        and len(data) == 3)
except Exception as error:  # pylint: disable=broad-except
    traceback.print_exc()
    print(f'RAISED {type(error).__name__}: {error}')
    ok = False
print('ok' if ok else 'WRONG')
sys.exit(0 if ok else 1)
