"""An agents port that carries a branch-level '_emit' next to its '*'
sub-schema: {'agents': {'_emit': True, '*': {'x': {...}}}}.

Before e902897 the engine is built, the agents are read through the view
and updated.  After it, Store._apply_config keeps the node a branch, and
Store.schema_topology - which used to stop at the node because it was a
leaf - now walks the keys of the port schema, takes '_emit' for a child
and raises "('_emit',) is not a valid path from ('agents',)" while the
Engine is constructed (build_topology_views).
"""
import sys
import warnings
warnings.simplefilter('ignore')
from vivarium.core.process import Process
from vivarium.core.engine import Engine


class Outer(Process):
    name = 'outer'

    def ports_schema(self):
        return {
            'agents': {
                '_emit': True,
                '*': {'x': {'_default': 1, '_emit': True}}}}

    def next_update(self, timestep, states):
        self.seen = states
        return {'agents': {k: {'x': 1} for k in states['agents']}}


def run(initial_state):
    proc = Outer({})
    engine = Engine(
        processes={'outer': proc},
        topology={'outer': {'agents': ('agents',)}},
        initial_state=initial_state)
    engine.update(2)
    return proc, engine


ok = True
for label, initial in (
        ('store with one agent', {'agents': {'a0': {'x': 7}}}),
        ('store still empty', {})):
    try:
        proc, engine = run(initial)
    except Exception as e:  # pylint: disable=broad-except
        print(f'{label}: Engine raised {type(e).__name__}: {e}')
        ok = False
        continue
    value = engine.state.get_value()['agents']
    data = engine.emitter.get_data()
    print(f'{label}: agents = {value}; last view = {proc.seen}; '
          f'emitted at 2.0 = {data[2.0]}')
    if initial:
        if value != {'a0': {'x': 9}}:
            print('  wrong value')
            ok = False
        if data[2.0].get('agents') != {'a0': {'x': 9}}:
            print('  wrong emit')
            ok = False

print('OK' if ok else 'WRONG')
sys.exit(0 if ok else 1)
