"""C07: from its next invocation on, a process sees children that were added.

Viewer looks at the store 'pool' through the glob port {'pool': {'*': {}}} -
the idiom of the library's own processes (vivarium/processes/remove.py,
burst.py, engulf.py, timeline.py: 'all children, no sub-variable declared').
'pool' is empty at construction; Adder (same port schema) adds the first
child 'b' at its first call.

Expected children seen by Viewer at its three calls: [], ['b'], ['b'].
Control: with a non-empty sub-schema ({'*': {'x': ...}}) exactly this works.
"""
import sys
import traceback
from vivarium.core.process import Process
from vivarium.core.engine import Engine


def run(subschema):
    class Viewer(Process):
        def __init__(self, parameters=None):
            super().__init__(parameters)
            self.seen = []

        def ports_schema(self):
            return {'pool': {'*': subschema}}

        def next_update(self, timestep, states):
            self.seen.append(states)
            return {}

    class Adder(Process):
        def __init__(self, parameters=None):
            super().__init__(parameters)
            self.calls = 0

        def ports_schema(self):
            return {'pool': {'*': subschema}}

        def next_update(self, timestep, states):
            self.calls += 1
            if self.calls == 1:
                return {'pool': {'_add': [{'key': 'b', 'state': {}}]}}
            return {}

    viewer = Viewer()
    engine = Engine(
        processes={'viewer': viewer, 'adder': Adder()},
        topology={
            'viewer': {'pool': ('pool',)},
            'adder': {'pool': ('pool',)}},
        initial_state={},
        display_info=False, progress_bar=False)
    for _ in range(3):
        engine.update(1)
    return [sorted(states['pool']) for states in viewer.seen]


expected = [[], ['b'], ['b']]
control = run({'x': {'_default': 1}})
print("control ('*': {'x': ...}) children seen:", control)
if control != expected:
    print('unexpected: control differs from', expected)
    sys.exit(1)
try:
    seen = run({})
except Exception as error:  # pylint: disable=broad-except
    traceback.print_exc(limit=-1)
    print("VIOLATION: with the glob port {'*': {}} the _add into the empty "
          f'store raised out of Engine.update: {error}')
    sys.exit(1)
print("test ('*': {}) children seen:", seen)
if seen != expected:
    print('VIOLATION: expected', expected)
    sys.exit(1)
print('ok')
sys.exit(0)
