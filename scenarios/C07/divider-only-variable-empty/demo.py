"""C07 / f1: a declared variable whose schema has no key of Store.schema_keys
(only '_divider', or the empty schema {}) is handed to the process as {}
instead of the current value of the node it is wired to.

Expected (property C07): states has "each declared variable with the current
value of the node it is wired to".  Engine.state.get_value() shows 1000 at
('counts', 'glc') and 5 at ('s', 'a'); the processes must be handed those.

Part 1 uses only shipped code: vivarium.processes.molarity_deriver.CountsToMolar
declares its counts as {'_divider': 'split'}.
Part 2 is a minimal reader process.
exit 1 = violated, 0 = holds.
"""
import sys
from vivarium.core.process import Process
from vivarium.core.engine import Engine
from vivarium.processes.molarity_deriver import CountsToMolar

problems = []


class Idle(Process):
    """An engine needs one process; this one is unrelated to the stores used."""
    def ports_schema(self):
        return {'g': {'t': {'_default': 0, '_emit': True}}}

    def next_update(self, timestep, states):
        return {}


# ---- part 1: the shipped deriver ------------------------------------------
seen_by_deriver = []
original = CountsToMolar.next_update


def spy(self, timestep, states):
    seen_by_deriver.append(states)
    return original(self, timestep, states)


CountsToMolar.next_update = spy
try:
    sim = Engine(
        processes={'idle': Idle()},
        steps={'ctm': CountsToMolar({'keys': ['glc']})},
        topology={
            'idle': {'g': ('g',)},
            'ctm': {
                'global': ('global',),
                'counts': ('counts',),
                'concentrations': ('concentrations',)}},
        initial_state={'counts': {'glc': 1000}},
        emitter={'type': 'null'},
        display_info=False,
    )
    sim.update(1)
except Exception as e:  # noqa
    problems.append(
        'shipped CountsToMolar cannot run on its own declared variable: '
        f'{type(e).__name__}: {e}')
finally:
    CountsToMolar.next_update = original
if seen_by_deriver:
    got = seen_by_deriver[0]['counts'].get('glc')
    if got != 1000:
        problems.append(
            "CountsToMolar was handed counts['glc'] = %r, the store holds "
            "1000" % (got,))


# ---- part 2: minimal reader -----------------------------------------------
class Reader(Process):
    def __init__(self, parameters=None):
        super().__init__(parameters)
        self.seen = []

    def ports_schema(self):
        return {'port': {
            'a': {'_divider': 'split'},     # legal: '_default' is a SHOULD
            'b': {'_default': 2, '_divider': 'split'},
            'c': {},                        # form used by DivideCondition
        }}

    def calculate_timestep(self, states):
        self.seen.append(('calculate_timestep', states))
        return 1.0

    def update_condition(self, timestep, states):
        self.seen.append(('update_condition', states))
        return True

    def next_update(self, timestep, states):
        self.seen.append(('next_update', states))
        return {}


reader = Reader()
sim = Engine(
    processes={'reader': reader},
    topology={'reader': {'port': ('s',)}},
    initial_state={'s': {'a': 5, 'c': 7}},
    emitter={'type': 'null'},
    display_info=False,
)
sim.update(1)
in_store = sim.state.get_value()['s']
if in_store != {'a': 5, 'b': 2, 'c': 7}:
    problems.append(f'unexpected store content {in_store}')
for where, states in reader.seen:
    expected = {'port': {'a': 5, 'b': 2, 'c': 7}}
    if states != expected:
        problems.append(
            f'{where}: handed {states}, store holds {in_store} '
            f'(expected {expected})')
        break

if problems:
    print('C07 VIOLATED')
    for p in problems:
        print(' -', p)
    sys.exit(1)
print('ok: declared variables carry the current value of their node')
sys.exit(0)
