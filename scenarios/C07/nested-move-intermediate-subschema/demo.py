"""C07 / f2: a _move whose source is a nested path creates the intermediate
child under the target store without the target's glob sub-schema.

'mover' moves the compartment ('c01', 'cnt') from store A into store B (the
nested-source form Store.move supports: the result is B/c01/cnt).  'viewer'
watches B through a glob port that declares the sub-variable 'z' (default 9).

Expected (property C07): "from its next invocation on, a process sees children
that were ... moved in" - after the move viewer's states['B'] has one entry per
current child of B, each with the declared 'z': {'k': {'z': 1}, 'c01': {'z': 9}}
(the single-key move, fixed earlier, behaves like this).
exit 1 = violated, 0 = holds.
"""
import sys
from vivarium.core.process import Process
from vivarium.core.engine import Engine


class Viewer(Process):
    def __init__(self, parameters=None):
        super().__init__(parameters)
        self.seen = []

    def ports_schema(self):
        return {'B': {'*': {'z': {'_default': 9}}}}

    def next_update(self, timestep, states):
        self.seen.append(states)
        return {}


class Inner(Process):
    def ports_schema(self):
        return {'s': {'v': {'_default': 1}}}

    def next_update(self, timestep, states):
        return {'s': {'v': 1}}


class Mover(Process):
    def __init__(self, parameters=None):
        super().__init__(parameters)
        self.calls = 0

    def ports_schema(self):
        return {'A': {'*': {}}, 'B': {'*': {}}}

    def next_update(self, timestep, states):
        self.calls += 1
        if self.calls == 2:
            return {'A': {'_move': [
                {'source': ('c01', 'cnt'), 'target': 'B'}]}}
        return {}


viewer = Viewer()
sim = Engine(
    processes={
        'viewer': viewer,
        'A': {'c01': {'cnt': {'inner': Inner()}}},
        'mover': Mover(),
    },
    topology={
        'viewer': {'B': ('B',)},
        'A': {'c01': {'cnt': {'inner': {'s': ('s',)}}}},
        'mover': {'A': ('A',), 'B': ('B',)},
    },
    initial_state={'B': {'k': {'z': 1}}},
    emitter={'type': 'null'},
    display_info=False,
)

problems = []
try:
    for _ in range(4):
        sim.update(1)
except Exception as e:  # noqa
    problems.append(
        'Engine.update raised after the move: %s: %s' % (type(e).__name__, e))

state = sim.state.get_value()
children_of_b = sorted(state['B'].keys())
if children_of_b != ['c01', 'k']:
    problems.append(f'move did not happen as expected, B holds {children_of_b}')
else:
    if 'z' not in state['B']['c01']:
        problems.append(
            "B/c01 (moved in) has no 'z' although B's glob sub-schema "
            f"declares it: {list(state['B']['c01'].keys())}")
    last = viewer.seen[-1] if viewer.seen else None
    expected_last = {'B': {'k': {'z': 1}, 'c01': {'z': 9}}}
    if last != expected_last:
        problems.append(
            f'viewer last saw {last}, expected {expected_last} '
            f'(viewer was invoked {len(viewer.seen)} times in 4 steps)')

if problems:
    print('C07 VIOLATED')
    for p in problems:
        print(' -', p)
    sys.exit(1)
print('ok: the viewer sees the child that was moved in, with its declared z')
sys.exit(0)
