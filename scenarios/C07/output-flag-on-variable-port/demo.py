"""C07 / f4: the '_output' flag is ignored when the flagged port is wired to a
variable (a port that IS a variable - the form of the shipped DivideCondition,
whose ports 'variable' and 'divide' are single variables) and when the flag sits
on a variable inside a port.

Expected (property C07 / doc/guides/processes.rst "Ports flagged as output-only
won't be viewed through the next_update's states"): "output-only ports empty":
the flagged port carries no value in states, as the flagged branch port
'out_branch' of the same process does.
exit 1 = violated, 0 = holds.
"""
import sys
from vivarium.core.process import Process
from vivarium.core.engine import Engine


class Writer(Process):
    def __init__(self, parameters=None):
        super().__init__(parameters)
        self.seen = []

    def ports_schema(self):
        return {
            'inp': {'a': {'_default': 1}},
            # output-only port holding variables: masked (test_output_port)
            'out_branch': {'_output': True, 'b': {'_default': 2}},
            # output-only port that is one variable (DivideCondition form)
            'divide': {
                '_output': True, '_default': False, '_updater': 'set'},
        }

    def next_update(self, timestep, states):
        self.seen.append(states)
        return {'divide': True, 'out_branch': {'b': 1}}


w = Writer()
sim = Engine(
    processes={'w': w},
    topology={'w': {
        'inp': ('s',), 'out_branch': ('o',), 'divide': ('flags', 'divide')}},
    emitter={'type': 'null'},
    display_info=False)
sim.update(2)

problems = []
if sim.state.get_value()['flags']['divide'] is not True:
    problems.append('the output-only variable port could not be written')
for states in w.seen:
    if states.get('out_branch') != {}:
        problems.append(f"out_branch not masked: {states}")
        break
    if 'divide' in states and not (
            states['divide'] is None or states['divide'] == {}):
        problems.append(
            "port 'divide' is flagged '_output': True but states carries its "
            f"value: {states} (store: {sim.state.get_value()['flags']})")
        break

if problems:
    print('C07 VIOLATED')
    for p in problems:
        print(' -', p)
    sys.exit(1)
print('ok: output-only ports are empty')
sys.exit(0)
