"""C07: a process sees nothing it did not declare (masking).

Viewer declares only 'x' for the children of the store 'pool' (glob port).
'pool' is empty at construction; Adder (which declares 'x' and 'y' for the
children) adds a child 'k' at run time.  The emit flag of the whole branch is
switched on with store_schema={'pool': {'_emit': True}} - the documented way
('Setting an emit value for a branch node will set the emits of all the
leaves to that value').

Expected: Viewer sees {'pool': {}} and, after the _add, {'pool': {'k': {'x': 7}}}.
Without store_schema (or when 'pool' is not empty at construction) that is
what it sees.
"""
import sys
from vivarium.core.process import Process
from vivarium.core.engine import Engine


def run(store_schema):
    class Viewer(Process):
        engine = None

        def __init__(self, parameters=None):
            super().__init__(parameters)
            self.mismatches = []

        def ports_schema(self):
            return {'pool': {'*': {'x': {'_default': 1}}}}

        def next_update(self, timestep, states):
            pool = self.engine.state.get_value()['pool']
            expected = {'pool': {
                child: {'x': value['x']} for child, value in pool.items()}}
            if states != expected:
                self.mismatches.append(
                    (self.engine.global_time, states, expected))
            return {}

    class Adder(Process):
        def __init__(self, parameters=None):
            super().__init__(parameters)
            self.calls = 0

        def ports_schema(self):
            return {'pool': {'*': {
                'x': {'_default': 1}, 'y': {'_default': 2}}}}

        def next_update(self, timestep, states):
            self.calls += 1
            if self.calls == 1:
                return {'pool': {'_add': [{'key': 'k', 'state': {'x': 7}}]}}
            return {}

    viewer = Viewer()
    engine = Engine(
        processes={'viewer': viewer, 'adder': Adder()},
        topology={
            'viewer': {'pool': ('pool',)},
            'adder': {'pool': ('pool',)}},
        initial_state={},
        store_schema=store_schema,
        display_info=False, progress_bar=False)
    viewer.engine = engine
    engine.update(3)
    return viewer.mismatches, engine.state.get_value()['pool']


control, pool = run(None)
print('control (no store_schema): mismatches =', control, ' pool =', pool)
mismatches, pool = run({'pool': {'_emit': True}})
print("store_schema={'pool': {'_emit': True}}: pool =", pool)
if control:
    print('unexpected: the control run already mismatches')
    sys.exit(1)
if mismatches:
    for time, seen, expected in mismatches:
        print(f't={time}: Viewer saw {seen}, declared projection is {expected}')
    print("VIOLATION: Viewer receives the undeclared variable 'y': "
          "_apply_config marked the empty branch 'pool' as a leaf, so "
          "schema_topology hands out the whole store unmasked")
    sys.exit(1)
print('ok: Viewer only saw what it declared')
sys.exit(0)
