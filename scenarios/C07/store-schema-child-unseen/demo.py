"""C07: a glob port must show one entry per CURRENT child of the store.

Engine(store_schema=...) is documented as 'An optional dictionary to expand
the store hierarchy configuration' (and vivarium/experiments/engine_tests.py::
test_add_new_state uses it to add a new variable).  Here it adds a child 'c'
to the store 'pool' that a process views through a glob port.  The child is in
Engine.state and is emitted, so the process must see it; expected states at
every invocation: {'pool': {'a': {'x': 4}, 'c': {'x': 5}}}.
"""
import sys
from vivarium.core.process import Process
from vivarium.core.engine import Engine


def projection(engine):
    """Independent projection of the hierarchy onto Viewer's ports schema."""
    pool = engine.state.get_value()['pool']
    return {'pool': {child: {'x': value['x']} for child, value in pool.items()}}


class Viewer(Process):
    engine = None

    def __init__(self, parameters=None):
        super().__init__(parameters)
        self.mismatches = []

    def ports_schema(self):
        return {'pool': {'*': {'x': {'_default': 1, '_emit': True}}}}

    def next_update(self, timestep, states):
        expected = projection(self.engine)
        if states != expected:
            self.mismatches.append((self.engine.global_time, states, expected))
        return {}


viewer = Viewer()
engine = Engine(
    processes={'viewer': viewer},
    topology={'viewer': {'pool': ('pool',)}},
    initial_state={'pool': {'a': {'x': 4}}},
    store_schema={'pool': {'c': {'x': {
        '_value': 5, '_default': 5, '_emit': True}}}},
    display_info=False, progress_bar=False)
viewer.engine = engine
engine.update(3)

print('hierarchy      :', engine.state.get_value()['pool'])
print('emitted at t=3 :', engine.emitter.get_data()[3.0])
if viewer.mismatches:
    for time, seen, expected in viewer.mismatches:
        print(f't={time}: process saw {seen} but the hierarchy holds {expected}')
    print('VIOLATION: the glob port misses the child that store_schema added '
          '(views are built before store_schema is applied and never rebuilt)')
    sys.exit(1)
print('ok: the view always matched the hierarchy')
sys.exit(0)
