"""C07: after a _move, a process sees the child that was moved in, with the
sub-variables it declared for the children of that store.

Viewer has a glob port on store 'B' and declares 'x' and 'z' for every child.
Child 'a' (which only has 'x') enters 'B'
  * control: through an _add            -> Viewer sees a = {'x': 5, 'z': 7}
  * test:    through a _move from 'A'   -> expected the same view
(_add, _generate and _divide all give the new child the declared sub-schema via
Store._apply_subschema_path; Store.move does not.)
"""
import sys
import traceback
from vivarium.core.process import Process
from vivarium.core.engine import Engine


class Viewer(Process):
    def __init__(self, parameters=None):
        super().__init__(parameters)
        self.seen = []

    def ports_schema(self):
        return {'pool': {'*': {'x': {'_default': 1}, 'z': {'_default': 7}}}}

    def next_update(self, timestep, states):
        self.seen.append(states)
        return {}


class Changer(Process):
    """At its second call, brings child 'a' into store B."""
    defaults = {'how': 'move'}

    def __init__(self, parameters=None):
        super().__init__(parameters)
        self.calls = 0

    def ports_schema(self):
        return {
            'src': {'*': {'x': {'_default': 1}}},
            'dst': {'*': {'x': {'_default': 1}}}}

    def next_update(self, timestep, states):
        self.calls += 1
        if self.calls != 2:
            return {}
        if self.parameters['how'] == 'move':
            return {'src': {'_move': [{'source': ('a',), 'target': 'dst'}]}}
        return {
            'src': {'_delete': ['a']},
            'dst': {'_add': [{'key': 'a', 'state': {'x': 5}}]}}


def run(how):
    viewer = Viewer()
    engine = Engine(
        processes={'viewer': viewer, 'changer': Changer({'how': how})},
        topology={
            'viewer': {'pool': ('B',)},
            'changer': {'src': ('A',), 'dst': ('B',)}},
        initial_state={'A': {'a': {'x': 5}}, 'B': {'b': {'x': 3}}},
        display_info=False, progress_bar=False)
    for _ in range(4):
        engine.update(1)
    return viewer.seen[-1]


expected = {'pool': {'b': {'x': 3, 'z': 7}, 'a': {'x': 5, 'z': 7}}}
control = run('add')
print('control (_delete + _add):', control)
if control != expected:
    print('unexpected: control differs from', expected)
    sys.exit(1)
try:
    moved = run('move')
except Exception as error:  # pylint: disable=broad-except
    traceback.print_exc(limit=-2)
    print('VIOLATION: after the _move the views cannot be rebuilt, '
          f'Engine.update raised: {error}')
    sys.exit(1)
print('test (_move):', moved)
if moved != expected:
    print('VIOLATION: Viewer does not see the moved-in child with its '
          'declared sub-variables; expected', expected)
    sys.exit(1)
print('ok')
sys.exit(0)
