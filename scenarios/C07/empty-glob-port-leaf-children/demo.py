"""C07 / f3: a glob port whose declared sub-schema is empty ({'*': {}}, the
form the shipped SwapProcesses, Remove, Burst, Engulf and Timeline use for the
stores they only restructure) is handed the VALUE of every child that is a leaf
of the store: variables the process never declared, and - when the store is a
compartment, as SwapProcesses' 'self' port is - the Process objects living
there, the process itself included.

Expected (property C07): a glob port has "one entry per current child
restricted to the declared sub-variables ... and nothing the process did not
declare": with no declared sub-variable every entry is {} (this is what the
same port shows for children that are branches).
exit 1 = violated, 0 = holds.
"""
import sys
from vivarium.core.process import Process
from vivarium.core.engine import Engine
from vivarium.processes.swap_processes import (
    SwapProcesses, ToyLivingCompartment)

problems = []


def find_undeclared(entries):
    """Entries of a {'*': {}} port that are not the empty restriction."""
    return {k: v for k, v in entries.items() if v != {}}


def holds_process(value):
    if isinstance(value, Process):
        return True
    if isinstance(value, (tuple, list)):
        return any(holds_process(v) for v in value)
    if isinstance(value, dict):
        return any(holds_process(v) for v in value.values())
    return False


class Idle(Process):
    def ports_schema(self):
        return {'g': {'t': {'_default': 0}}}

    def next_update(self, timestep, states):
        return {}


# ---- part 1: the shipped SwapProcesses in its own toy compartment ---------
seen = []
original = SwapProcesses.next_update


def spy(self, timestep, states):
    seen.append(states)
    return original(self, timestep, states)


SwapProcesses.next_update = spy
try:
    composite = ToyLivingCompartment({'agent_id': '1'}).generate(
        path=('agents', '1'))
    composite.merge(
        processes={'idle': Idle()}, topology={'idle': {'g': ('g',)}})
    sim = Engine(
        composite=composite,
        initial_state={'agents': {'1': {'external': {'A': 1}}}},
        emitter={'type': 'null'},
        display_info=False)
    sim.update(2)
finally:
    SwapProcesses.next_update = original

# SwapProcesses declares: {'trigger': {...}, 'self': {'*': {}}}
first = seen[0]
extra = find_undeclared(first['self'])
if extra:
    problems.append(
        "shipped SwapProcesses, port 'self' declared {'*': {}}: handed "
        'undeclared content for children %s' % sorted(extra))
if holds_process(first['self']):
    problems.append(
        "shipped SwapProcesses: states['self'] contains Process objects: %s"
        % {k: type(v[0]).__name__ for k, v in first['self'].items()
           if holds_process(v)})


# ---- part 2: minimal, a data store with a branch child and a leaf child ---
class Restructurer(Process):
    def __init__(self, parameters=None):
        super().__init__(parameters)
        self.seen = []

    def ports_schema(self):
        return {'things': {'*': {}}}

    def calculate_timestep(self, states):
        self.seen.append(states)
        return 1.0

    def next_update(self, timestep, states):
        self.seen.append(states)
        return {}


class Owner(Process):
    def ports_schema(self):
        return {'things': {
            'secret': {'_default': 42},
            'box': {'inside': {'_default': 1}}}}

    def next_update(self, timestep, states):
        return {}


r = Restructurer()
sim = Engine(
    processes={'r': r, 'owner': Owner()},
    topology={'r': {'things': ('things',)}, 'owner': {'things': ('things',)}},
    emitter={'type': 'null'},
    display_info=False)
sim.update(1)
expected = {'things': {'secret': {}, 'box': {}}}
for states in r.seen:
    if states != expected:
        problems.append(
            f'Restructurer declared things: {{"*": {{}}}} and was handed '
            f'{states}; expected {expected}')
        break

if problems:
    print('C07 VIOLATED')
    for p in problems:
        print(' -', p)
    sys.exit(1)
print('ok: a {"*": {}} port shows one empty entry per child')
sys.exit(0)
