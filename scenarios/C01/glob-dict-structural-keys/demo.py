"""C01 / F4: the structural part of an update that goes through a glob port
wired with a {'_path': ..., '*': {...}} topology is silently dropped by
inverse_topology.

An environment process looks at all agents through a glob port
    ports_schema: {'agents': {'*': {'external': {...}}}}
    topology:     {'agents': {'_path': ('agents',),
                              '*': {'external': ('external', 'GLC')}}}
(the wiring of get_toy_transport_in_env_composite / test_glob_schema in
vivarium/experiments/engine_tests.py).  Each second it adds 1 to every
agent's external GLC; in its 2nd update it also removes agent '1'
({'_delete': ['1']}) through that same port.

Expected (C01): every update returned by next_update is applied once, as
returned: after update(4) agent '1' is gone (and stopped receiving GLC at
t = 2), and the same process wired with the plain tuple topology {'agents': ('agents',)}
(and the matching nested schema) gives exactly that.

Actual: with the dictionary topology the '_delete' entry vanishes (and so
do '_add', '_generate', '_divide' and '_move' entries, see the direct calls
of inverse_topology below): inverse_topology's "key == '*' and isinstance(path, dict)" branch
treats '_delete' / '_add' as the name of a child, recurses into the list
with the child sub-topology, finds none of its keys and returns nothing.
No error, no warning; the GLC part of the same update is applied.
"""
import sys
from vivarium.core.process import Process
from vivarium.core.engine import Engine
from vivarium.library.topology import inverse_topology


class Agent(Process):
    defaults = {'timestep': 1.0}

    def ports_schema(self):
        return {'external': {'GLC': {
            '_default': 0.0, '_updater': 'accumulate', '_emit': True}}}

    def next_update(self, timestep, states):
        return {}


class Environment(Process):
    defaults = {'timestep': 1.0, 'nested': False}

    def __init__(self, parameters=None):
        super().__init__(parameters)
        self.returned = []

    def _leaf(self, value):
        # with the tuple wiring the variable sits at external/GLC below
        # each agent, with the dict wiring it is renamed to 'external'
        return {'external': {'GLC': value}} if self.parameters['nested'] \
            else {'external': value}

    def ports_schema(self):
        return {'agents': {'*': self._leaf(
            {'_default': 0.0, '_updater': 'accumulate', '_emit': True})}}

    def next_update(self, timestep, states):
        update = {'agents': {
            agent: self._leaf(1.0) for agent in states['agents']}}
        if len(self.returned) == 1:
            update['agents']['_delete'] = ['1']
        self.returned.append(update)
        return update


def run(dict_topology):
    env = Environment({'nested': not dict_topology})
    if dict_topology:
        env_topology = {'agents': {
            '_path': ('agents',),
            '*': {'external': ('external', 'GLC')}}}
    else:
        env_topology = {'agents': ('agents',)}
    engine = Engine(
        processes={
            'environment': env,
            'agents': {'0': {'a': Agent()}, '1': {'a': Agent()}}},
        topology={
            'environment': env_topology,
            'agents': {
                '0': {'a': {'external': ('external',)}},
                '1': {'a': {'external': ('external',)}}}},
        display_info=False)
    engine.update(4)
    agents = engine.state.get_value()['agents']
    return {
        key: value['external']['GLC'] for key, value in agents.items()}, env


# what the anchored function does with the structural keys
topology = {'agents': {
    '_path': ('agents',), '*': {'external': ('external', 'GLC')}}}
update = {'agents': {
    '0': {'external': 1.0},
    '_delete': ['1'],
    '_add': [{'key': '2', 'state': {'external': {'GLC': 5.0}}}]}}
print('inverse_topology, dict glob :',
      inverse_topology((), update, topology))
print('inverse_topology, tuple path:',
      inverse_topology((), {'agents': {
          '0': {'external': {'GLC': 1.0}},
          '_delete': ['1'],
          '_add': [{'key': '2', 'state': {'external': {'GLC': 5.0}}}]}},
          {'agents': ('agents',)}))

reference, _ = run(dict_topology=False)
observed, env = run(dict_topology=True)
print('tuple topology, agents after update(4):', reference)
print('dict  topology, agents after update(4):', observed)

problems = []
if '1' in observed:
    problems.append(
        "the '_delete': ['1'] returned in the 2nd update was never applied")
if observed != reference:
    problems.append(
        f'same process, same updates: {observed} with the dictionary '
        f'topology, {reference} with the tuple topology')
if problems:
    print('C01 VIOLATED:')
    for p in problems:
        print('  -', p)
    sys.exit(1)
sys.exit(0)
