"""C01 / F3: the front of a deleted process is inherited by a new process
that is created under the same path in the same batch of updates.

A 'reaper' process deletes compartment 'c' at t = 1 and a 'spawner' process
generates a fresh compartment with the same key 'c' at t = 1 (a respawn /
reset: both updates are due at t = 1 and are applied in one
Engine._send_updates batch, first the _delete, then the _generate).

  * the OLD process agents/c/acc has timestep 5: at t = 0 it computed an
    update (x += 1) for [0, 5] which is in flight when 'c' is deleted;
  * the NEW process agents/c/acc has timestep 1 and adds 100 per call.

Expected (C01 and its anchored mechanism "_remove_deleted_processes drops
in-flight updates of deleted processes"): the old process is dead after
t = 1, its update in flight is dropped; the new process is live from t = 1
with an empty front, so x of the new compartment is 0 at t = 1 and, at every
emitted T, 100 * (number of updates of the new process whose interval ended
at or before T): 0, 100, 200, ... from t = 1 on.

Actual: Engine._delete_path removes ('agents','c','acc') from process_paths
and Engine.apply_update puts the new process back under the same path before
the next call of _remove_deleted_processes, which therefore keeps the OLD
front {'time': 5, 'update': <Defer of the old process>}.  The new process is
not invoked at all before t = 5, and at t = 5 the update that the DEAD
process computed from the deleted compartment is applied to the new
compartment (x == 1 at t = 5).
"""
import sys
from vivarium.core.process import Process
from vivarium.core.engine import Engine


class Counter(Process):
    defaults = {'timestep': 1.0, 'increment': 1}

    def __init__(self, parameters=None):
        super().__init__(parameters)
        self.calls = []   # (time the interval ends is not known here)

    def ports_schema(self):
        return {'p': {'x': {
            '_default': 0, '_updater': 'accumulate', '_emit': True}}}

    def next_update(self, timestep, states):
        self.calls.append(timestep)
        return {'p': {'x': self.parameters['increment']}}


AGENTS_SCHEMA = {'*': {'s': {'x': {'_default': 0}}}}
old_counter = Counter({'timestep': 5.0, 'increment': 1})
new_counter = Counter({'timestep': 1.0, 'increment': 100})


class Reaper(Process):
    defaults = {'timestep': 1.0}
    done = False

    def ports_schema(self):
        return {'agents': AGENTS_SCHEMA}

    def next_update(self, timestep, states):
        if not self.done:
            self.done = True
            return {'agents': {'_delete': ['c']}}      # applied at t = 1
        return {}


class Spawner(Process):
    defaults = {'timestep': 1.0}
    done = False

    def ports_schema(self):
        return {'agents': AGENTS_SCHEMA}

    def next_update(self, timestep, states):
        if not self.done:
            self.done = True
            return {'agents': {'_generate': [{           # applied at t = 1
                'key': 'c',
                'processes': {'acc': new_counter},
                'topology': {'acc': {'p': ('s',)}},
                'initial_state': {}}]}}
        return {}


engine = Engine(
    processes={
        'reaper': Reaper(),
        'spawner': Spawner(),
        'agents': {'c': {'acc': old_counter}}},
    topology={
        'reaper': {'agents': ('agents',)},
        'spawner': {'agents': ('agents',)},
        'agents': {'c': {'acc': {'p': ('s',)}}}},
    display_info=False)
engine.update(7)

assert engine.process_paths[('agents', 'c', 'acc')] is new_counter
ts = engine.emitter.get_timeseries()
times = ts['time']
xs = ts['agents']['c']['s']['x']
print('time:', times)
print('x   :', xs)
print('calls of the deleted process:', old_counter.calls)
print('calls of the new process    :', new_counter.calls)

# the new process lives from t = 1 with timestep 1: its k-th update is due
# at t = 1 + k
expected = [0 if t < 2 else 100 * int(t - 1) for t in times]
print('expected x:', expected)

problems = []
if any(x % 100 for x in xs):
    problems.append(
        'the update computed by the DELETED process (x += 1, in flight '
        'when its compartment was deleted at t = 1) was applied to the new '
        'compartment')
if xs != expected:
    problems.append(
        f'x of the live process is {xs}, expected {expected}: the new '
        f'process inherited the front time (5.0) of the deleted one and '
        f'was invoked {len(new_counter.calls)} times instead of 6')
if problems:
    print('C01 VIOLATED:')
    for p in problems:
        print('  -', p)
    sys.exit(1)
sys.exit(0)
