"""C01: the part of an update that accumulates into a compartment is lost when
the SAME update also divides that compartment.

A colony-level process (it lives outside the agents, so it stays alive through
the division) views the agents through a glob port.  Every second it adds 1 to
the 'mass' of every agent; when an agent's mass reaches the threshold with
that increment it also asks for the division of that agent - in the same
update, as a growth-and-division process naturally does.

'mass' is an accumulating variable with the 'split' divider, so division
conserves it: at every emitted time the total mass must be

    initial mass + sum of the increments returned in updates whose interval
    has ended.

Store.apply_update (vivarium/core/store.py) handles '_divide' BEFORE the
per-child entries of the same dictionary (only '_delete' is postponed until
after them); the mother is gone when her increment is looked up
(`if key in self.inner`) and the increment is dropped without a word.
"""
import sys

from vivarium.core.engine import Engine
from vivarium.core.process import Process

THRESHOLD = 4
RETURNED = []   # (end of interval, increment) for every increment returned


class GrowDivide(Process):
    defaults = {'timestep': 1.0}

    def __init__(self, parameters=None):
        super().__init__(parameters)
        self.now = 0.0

    def ports_schema(self):
        return {
            'agents': {
                '*': {
                    'mass': {
                        '_default': 0,
                        '_updater': 'accumulate',
                        '_divider': 'split',
                        '_emit': True}}}}

    def next_update(self, timestep, states):
        self.now += timestep
        update = {}
        for agent_id, agent in sorted(states['agents'].items()):
            update[agent_id] = {'mass': 1}
            RETURNED.append((self.now, 1))
            if agent['mass'] + 1 >= THRESHOLD and '_divide' not in update:
                update['_divide'] = {
                    'mother': agent_id,
                    'daughters': [
                        {'key': agent_id + '0', 'processes': {},
                         'topology': {}, 'initial_state': {}},
                        {'key': agent_id + '1', 'processes': {},
                         'topology': {}, 'initial_state': {}}]}
        return {'agents': update}


def main():
    initial_mass = 2
    engine = Engine(
        processes={'colony': GrowDivide()},
        topology={'colony': {'agents': ('agents',)}},
        initial_state={'agents': {'a': {'mass': initial_mass}}},
        display_info=False)
    engine.update(4)

    failures = []
    for time, row in sorted(engine.emitter.get_data().items()):
        total = sum(agent['mass'] for agent in row['agents'].values())
        expected = initial_mass + sum(
            inc for end, inc in RETURNED if end <= time)
        print(f't={time}: agents={row["agents"]} total={total} '
              f'expected={expected}')
        if total != expected:
            failures.append((time, total, expected))
    if failures:
        print('VIOLATION: increments returned by the live colony process '
              'were never applied (time, total mass, expected):', failures)
        return 1
    print('ok: every returned increment was applied exactly once')
    return 0


if __name__ == '__main__':
    sys.exit(main())
