"""C01 / F1: the last update of a forced run is computed but never applied.

A process with an adaptive (state-dependent) timestep - documented in
Process.calculate_timestep ("A process subclass may override this method to
implement adaptive timesteps") - first asks for 0.6 s and then for 2.0 s.
The simulation is run for 1.74 s with forced completion.

Expected (C01): two updates are computed, for [0, 0.6] and for [0.6, 1.74];
both are applied, the second one at t = 1.74, so x == 2 at the end and
nothing is left in Engine.front.

Actual: run_for advances the clock with  global_time + (future - global_time)
= 0.6 + (1.74 - 0.6) = 1.7400000000000002 > end_time, takes the branch
"all processes have run past the interval", sets the clock to end_time and
leaves the update that was just computed unapplied in the front.
  * Engine.update() then dies in _check_complete ("is an unapplied update")
  * run_for(force_complete=True) returns silently with x == 1; the next
    call raises RuntimeError "... is still pending" (or, for a run that ends
    here, the update is lost for good).
"""
import sys
from vivarium.core.process import Process
from vivarium.core.engine import Engine


class Adaptive(Process):
    defaults = {'timestep': 1.0}

    def __init__(self, parameters=None):
        super().__init__(parameters)
        self.handed = []

    def ports_schema(self):
        return {'p': {
            'x': {'_default': 0, '_updater': 'accumulate', '_emit': True},
            'dt': {'_default': 0.6, '_updater': 'set', '_emit': True}}}

    def calculate_timestep(self, states):
        return states['p']['dt']

    def next_update(self, timestep, states):
        self.handed.append(timestep)
        # take longer steps from now on
        return {'p': {'x': 1, 'dt': 2.0}}


def build():
    proc = Adaptive()
    engine = Engine(
        processes={'a': proc},
        topology={'a': {'p': ('s',)}},
        display_info=False)
    return proc, engine


problems = []

# variant 1: run_for with forced completion (what Engine.update does)
proc, engine = build()
engine.run_for(1.74, force_complete=True)
x = engine.state.get_path(('s', 'x')).get_value()
in_front = bool(engine.front[('a',)]['update'])
print('run_for(1.74, force_complete=True): global_time =', engine.global_time,
      ' next_update calls =', len(proc.handed), proc.handed,
      ' x =', x, ' update left in front =', in_front)
if x != len(proc.handed):
    problems.append(
        f'{len(proc.handed)} updates were returned by next_update, the clock '
        f'is at the end of the last interval ({engine.global_time}), but '
        f'only {x} were applied')
if in_front:
    problems.append('an update due at global_time is still in Engine.front')
try:
    engine.run_for(1.0, force_complete=True)
except RuntimeError as e:
    problems.append('the next run_for raises: ' + str(e)[:120])

# variant 2: Engine.update
proc, engine = build()
try:
    engine.update(1.74)
except AssertionError as e:
    problems.append('Engine.update(1.74) raises AssertionError: ' + str(e))
x = engine.state.get_path(('s', 'x')).get_value()
if x != len(proc.handed):
    problems.append(
        f'update(): {len(proc.handed)} updates returned, {x} applied')

if problems:
    print('C01 VIOLATED:')
    for p in problems:
        print('  -', p)
    sys.exit(1)
print('ok: every returned update was applied')
sys.exit(0)
