"""C01 / F2: an update that is due in the same batch as the _move of its
compartment is silently lost when the mover happens to be listed first.

Composite: a mover process (timestep 1) that moves compartment 'c' from
store A to store B at t = 2, and two agents 'c' and 'd' in A, each with a
counter process (timestep 1, x += 1 per call, updater 'accumulate').
All processes use the SAME timestep, so nothing is "in flight" when the move
happens: the counter's update for [1, 2] and the mover's update are due at
the same time t = 2 and are applied in the same Engine._send_updates batch.

Expected (C01): the counter of 'c' is a live process during the whole run
(it is carried to B/c and keeps being invoked), so after update(4) its
x equals the number of updates its next_update returned (4), whatever the
order in which the processes are listed in the processes dict.

Actual: with the mover listed BEFORE the agents, x == 3: the Defer of the
counter captured the path ('A','c','acc') when the update was computed; the
mover's update is applied first, and the counter's update is then inverted
to {'A': {'c': {'s': {'x': 1}}}}, which Store.apply_update drops without a
word because A has no child 'c' any more.  The process is then invoked again
with the stale value (it sees x == 1 twice).  With the mover listed AFTER
the agents the same composite gives x == 4.
"""
import sys
from vivarium.core.process import Process
from vivarium.core.engine import Engine


class Counter(Process):
    defaults = {'timestep': 1.0}

    def __init__(self, parameters=None):
        super().__init__(parameters)
        self.seen = []

    def ports_schema(self):
        return {'p': {'x': {
            '_default': 0, '_updater': 'accumulate', '_emit': True}}}

    def next_update(self, timestep, states):
        self.seen.append(states['p']['x'])
        return {'p': {'x': 1}}


class Mover(Process):
    defaults = {'timestep': 1.0}

    def __init__(self, parameters=None):
        super().__init__(parameters)
        self.n = 0

    def ports_schema(self):
        return {'src': {'*': {}}, 'dst': {'*': {}}}

    def next_update(self, timestep, states):
        self.n += 1
        if self.n == 2 and 'c' in states['src']:
            # applied at t = 2
            return {'src': {'_move': [{'source': 'c', 'target': 'dst'}]}}
        return {}


def run(mover_first):
    counter_c, counter_d = Counter(), Counter()
    agents = {'c': {'acc': counter_c}, 'd': {'acc': counter_d}}
    if mover_first:
        processes = {'mover': Mover(), 'A': agents}
    else:
        processes = {'A': agents, 'mover': Mover()}
    topology = {
        'mover': {'src': ('A',), 'dst': ('B',)},
        'A': {
            'c': {'acc': {'p': ('s',)}},
            'd': {'acc': {'p': ('s',)}}}}
    engine = Engine(
        processes=processes, topology=topology,
        initial_state={'B': {}}, display_info=False)
    engine.update(4)
    assert ('B', 'c', 'acc') in engine.process_paths, 'c was not moved'
    x = engine.state.get_path(('B', 'c', 's', 'x')).get_value()
    history = engine.emitter.get_data()
    return x, counter_c.seen, history


bad = False
for mover_first in (False, True):
    x, seen, history = run(mover_first)
    print(f'mover listed first: {mover_first}:  next_update calls of the '
          f'moved counter = {len(seen)} (x seen: {seen}),  final x = {x}')
    if x != len(seen):
        bad = True
        print(f'  C01 VIOLATED: {len(seen)} updates returned by a live '
              f'process, all intervals ended at or before t = 4, but x = {x}')

sys.exit(1 if bad else 0)
