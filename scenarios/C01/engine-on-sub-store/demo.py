"""Engine(store=<a Store that is not the root of its tree>): the updates of
every process were applied before the series; after it they are silently
dropped, because the deferred update is now inverted with store.path_for()
(absolute from the top of the tree) while it is applied relative to
Engine.state."""
import sys
from vivarium.core.engine import Engine
from vivarium.core.process import Process
from vivarium.core.store import Store


class Grow(Process):
    def ports_schema(self):
        return {'s': {'a': {'_default': 1.0, '_emit': True}}}

    def next_update(self, timestep, states):
        return {'s': {'a': 1.0}}


# build a tree with the store API, simulate one compartment of it
root = Store({})
root.create(['cells', 'c1', 'grow'], Grow())
root['cells', 'c1', 'grow'].connect('s', root.create(['cells', 'c1', 'pool']))
compartment = root['cells', 'c1']

engine = Engine(store=compartment, display_info=False)
engine.update(3)
value = compartment['pool', 'a'].get_value()
series = engine.emitter.get_timeseries()['pool']['a']
print('a after 3 steps of +1 from default 1.0:', value, ' emitted:', series)
ok = value == 4.0 and series == [1.0, 2.0, 3.0, 4.0]
print('ok' if ok else 'WRONG: the updates of the process were dropped')
sys.exit(0 if ok else 1)
