"""C16 / f3: the store entry point starts from another initial state.

Composite.generate_store() builds the store from Composite.initial_state(),
which asks every process for its initial_state() and lays the result under the
composite's own state.  Engine(composite=...) and Engine(processes=...,
topology=...) never ask the processes: they start from the composite's state
(resp. the given initial state) and the schema defaults.  For any process
whose initial_state() differs from its '_default's the engine built from
"the store generated from the composite" runs a different simulation than
the engines built from the composite or from its parts.

Expected (property C16): the three entry points run the same simulation.
"""
import sys

from vivarium.core.process import Process
from vivarium.core.composer import Composer
from vivarium.core.engine import Engine


class Growth(Process):
    defaults = {'rate': 1, 'initial_mass': 100}

    def ports_schema(self):
        return {'cell': {'mass': {'_default': 0, '_emit': True}}}

    def initial_state(self, config=None):
        return {'cell': {'mass': self.parameters['initial_mass']}}

    def next_update(self, timestep, states):
        return {'cell': {'mass': self.parameters['rate'] * timestep}}


class Cell(Composer):
    def generate_processes(self, config):
        return {'growth': Growth()}

    def generate_topology(self, config):
        return {'growth': {'cell': ('cell',)}}


def run(engine):
    engine.update(2)
    return engine.emitter.get_data()


results = {}
for path in ((), ('agents', '1')):
    composite = Cell().generate(path=path)
    results[path, 'composite'] = run(Engine(
        composite=composite, display_info=False))

    composite = Cell().generate(path=path)
    results[path, 'parts'] = run(Engine(
        processes=composite['processes'],
        steps=composite['steps'],
        flow=composite['flow'],
        topology=composite['topology'],
        initial_state=composite['state'],
        display_info=False))

    composite = Cell().generate(path=path)
    results[path, 'store'] = run(Engine(
        store=composite.generate_store(), display_info=False))

problems = []
for path in ((), ('agents', '1')):
    reference = results[path, 'composite']
    for entry in ('parts', 'store'):
        if results[path, entry] != reference:
            problems.append(
                f'embedded at {path}: Engine from {entry} gives '
                f'{results[path, entry]}\n   Engine from the composite '
                f'gives {reference}')

if problems:
    print('VIOLATION: the entry points do not run the same simulation')
    for problem in problems:
        print(' -', problem)
    sys.exit(1)
print('ok')
sys.exit(0)
