"""C16: the three Engine entry points must run the same simulation.

A composite with two steps that are not listed in the flow.  The documentation
of Composer.generate_flow says such steps "will be treated as if they depend on
every step previously added to the engine", i.e. they run one after the other in
the order of the steps dictionary:

    steps = {'double': y = 2 * x,  'a': {'plus_one': z = y + 1}}

so after every time step z == 2 * x + 1.  The compartment 'a' also holds a
process, so in the store generated from the composite the node 'a' is created
(by the processes) before the node 'double'.  Store.get_steps() walks the store
in that order, and an Engine built from the generated store adds 'plus_one'
BEFORE 'double': plus_one now reads the y of the previous time step.

Expected: Engine(composite=c), Engine(<parts of c>) and
Engine(store=c.generate_store()) give the same time series.
"""
import sys

from vivarium.core.process import Process, Step
from vivarium.core.composer import Composite
from vivarium.core.engine import Engine


class Inc(Process):
    def ports_schema(self):
        return {'port': {'x': {'_default': 1, '_emit': True}}}

    def next_update(self, timestep, states):
        return {'port': {'x': timestep}}


class Double(Step):
    """y = 2 * x"""
    def ports_schema(self):
        return {'port': {
            'x': {'_default': 1},
            'y': {'_default': 0, '_updater': 'set', '_emit': True}}}

    def next_update(self, timestep, states):
        return {'port': {'y': 2 * states['port']['x']}}


class PlusOne(Step):
    """z = y + 1"""
    def ports_schema(self):
        return {'port': {
            'y': {'_default': 0},
            'z': {'_default': 0, '_updater': 'set', '_emit': True}}}

    def next_update(self, timestep, states):
        return {'port': {'z': states['port']['y'] + 1}}


def make_composite():
    return Composite(
        processes={'a': {'P': Inc()}},
        steps={
            'double': Double(),
            'a': {'plus_one': PlusOne()}},
        topology={
            'double': {'port': ('s',)},
            'a': {
                'P': {'port': ('..', 's')},
                'plus_one': {'port': ('..', 's')}}})


def run(engine):
    engine.update(3)
    data = engine.emitter.get_timeseries()
    return {k: data['s'][k] for k in ('x', 'y', 'z')}


KW = dict(display_info=False, progress_bar=False)

c = make_composite()
from_composite = run(Engine(composite=c, **KW))

c = make_composite()
from_parts = run(Engine(
    processes=c.processes, steps=c.steps, flow=c.flow,
    topology=c.topology, initial_state=c.state, **KW))

c = make_composite()
from_store = run(Engine(store=c.generate_store(), **KW))

print('composite:', from_composite)
print('parts    :', from_parts)
print('store    :', from_store)

bad = False
if from_composite != from_parts:
    print('VIOLATION: composite and parts entry points differ')
    bad = True
if from_composite != from_store:
    print('VIOLATION: the engine built from the generated store runs the '
          'steps in another order: z should be 2*x+1 =',
          from_composite['z'], 'but is', from_store['z'])
    bad = True
sys.exit(1 if bad else 0)
