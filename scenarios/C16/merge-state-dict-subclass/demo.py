"""Composite.merge(state=...) turns dict-subclass VALUES into plain dicts.

fc0a8fb passes the loose arguments of Composite.merge through
deep_copy_internal, which rebuilds every dict instance - also the ones
that are the VALUE of a variable (Counter, defaultdict, OrderedDict,
user subclasses) - as a plain dict.  Before, the loose `state` went in
by reference and a Counter stayed a Counter.
"""
import sys
from collections import Counter, defaultdict, OrderedDict

from vivarium.core.process import Process
from vivarium.core.composer import Composite
from vivarium.core.engine import Engine


class Tally(Process):
    """Reads a Counter variable and a defaultdict variable."""
    def ports_schema(self):
        return {'port': {
            'counts': {'_default': Counter(), '_updater': 'set'},
            'table': {'_default': defaultdict(int), '_updater': 'set'},
            'top': {'_default': '', '_updater': 'set'},
            'missing': {'_default': -1, '_updater': 'set'},
        }}

    def next_update(self, timestep, states):
        counts = states['port']['counts']
        table = states['port']['table']
        return {'port': {
            'top': counts.most_common(1)[0][0],   # Counter API
            'missing': table['never seen'],       # defaultdict API
        }}


def main():
    composite = Composite({
        'processes': {'tally': Tally({})},
        'topology': {'tally': {'port': ('store',)}},
    })
    table = defaultdict(int)
    table['x'] = 3
    composite.merge(state={'store': {
        'counts': Counter(a=5, b=2),
        'table': table,
        'ordered': OrderedDict([('z', 1), ('y', 2)]),
    }})
    types = {
        key: type(value).__name__
        for key, value in composite.state['store'].items()}
    print('types of the state values after merge:', types)
    ok = types == {
        'counts': 'Counter', 'table': 'defaultdict',
        'ordered': 'OrderedDict'}

    sim = Engine(composite=composite)
    try:
        sim.update(1)
        result = sim.state.get_value()['store']
        print('top:', result['top'], 'missing:', result['missing'])
        ok = ok and result['top'] == 'a' and result['missing'] == 0
    except Exception as error:  # pylint: disable=broad-except
        print('Engine.update raised', type(error).__name__, error)
        ok = False
    finally:
        sim.end()
    return 0 if ok else 1


if __name__ == '__main__':
    sys.exit(main())
