"""C16 / f1: a schema override reaches processes it does not name.

Process.__init__ keeps the '_schema' dictionary of the parameters it was given
BY REFERENCE as its _schema_override (deep_merge inserts nested dicts of its
second argument by reference).  Every process built from the same parameters
dictionary - e.g. all the agents a Composer generates from its own config -
therefore shares ONE override dictionary, and Process.merge_overrides() (what
Composite(..., '_schema'), Composite.merge(schema_override=...) and
Composer '_schema' configs end in) writes into that shared dictionary.

Expected (property C16: "schema overrides reach exactly the process and port
they name"): overriding the default of agents/a/inc changes agent a only.
"""
import copy
import sys

from vivarium.core.process import Process
from vivarium.core.composer import Composer, Composite
from vivarium.core.engine import Engine


class Inc(Process):
    defaults = {'rate': 1}

    def ports_schema(self):
        return {'s': {'x': {'_default': 0, '_emit': True}}}

    def next_update(self, timestep, states):
        return {'s': {'x': self.parameters['rate'] * timestep}}


class Agent(Composer):
    # the process parameters carry a documented '_schema' override
    defaults = {
        'inc': {
            'rate': 1,
            '_schema': {'s': {'x': {'_default': 5}}}}}

    def generate_processes(self, config):
        return {'inc': Inc(config['inc'])}

    def generate_topology(self, config):
        return {'inc': {'s': ('store',)}}


problems = []

composer = Agent()
config_before = copy.deepcopy(composer.config)

world = Composite()
world.merge(composite=composer.generate(path=('agents', 'a')))
world.merge(composite=composer.generate(path=('agents', 'b')))
inc_a = world.processes['agents']['a']['inc']
inc_b = world.processes['agents']['b']['inc']
assert inc_a is not inc_b, 'two distinct process objects'

# an override that names agent a's process only
world.merge(schema_override={
    'agents': {'a': {'inc': {'s': {'x': {'_default': 100}}}}}})

if inc_b.schema_override != {'s': {'x': {'_default': 5}}}:
    problems.append(
        "override naming ('agents','a','inc') changed the override of "
        f"('agents','b','inc'): {inc_b.schema_override}")
if composer.config != config_before:
    problems.append(
        f'the composer configuration was changed: {composer.config}')
fresh = composer.generate()['processes']['inc']
if fresh.get_schema()['s']['x']['_default'] != 5:
    problems.append(
        'a composite generated afterwards starts from '
        f"{fresh.get_schema()['s']['x']['_default']} instead of 5")

sim = Engine(composite=world, display_info=False)
sim.update(2)
state = sim.emitter.get_data()[0]['agents']
got = (state['a']['store']['x'], state['b']['store']['x'])
if got != (100, 5):
    problems.append(
        f'initial x of agents (a, b) is {got}, expected (100, 5)')

# the same without any composer: two processes built from one dictionary
parameters = {'_schema': {'s': {'x': {'_default': 5}}}}
p1, p2 = Inc(parameters), Inc(parameters)
Composite({
    'processes': {'p1': p1, 'p2': p2},
    'topology': {'p1': {'s': ('s1',)}, 'p2': {'s': ('s2',)}},
    '_schema': {'p1': {'s': {'x': {'_emit': False}}}}})
if p2.get_schema()['s']['x']['_emit'] is not True:
    problems.append("'_schema' naming p1 switched off the emit of p2's x")
if parameters != {'_schema': {'s': {'x': {'_default': 5}}}}:
    problems.append(f"the caller's parameters were changed: {parameters}")

if problems:
    print('VIOLATION: schema override reached more than it names')
    for problem in problems:
        print(' -', problem)
    sys.exit(1)
print('ok')
sys.exit(0)
