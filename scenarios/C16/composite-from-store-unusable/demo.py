"""C16 / f2: a Composite made from a store cannot be run.

Composite(store=...) / get_composite_from_store() take the composite's state
from Store.get_value(), which returns (process, topology) tuples for the
nodes that hold processes and steps.  The composite's 'state' therefore lists
the processes as if they were variables; Engine(composite=...) (and
Composite.generate_store()) apply that state with Store.set_value(), which
overwrites the value of every process node with the tuple.  The engine then
fails on its first step with a bare AssertionError.

Expected (property C16: an engine built from a Composite, from its parts or
from the store generated from it runs the same simulation; Engine._make_store:
"These are interchangeable"): composite -> store -> composite is the same
composite and runs the same simulation.
"""
import sys
import traceback

from vivarium.core.process import Process
from vivarium.core.composer import Composite, get_composite_from_store
from vivarium.core.engine import Engine


class Inc(Process):
    defaults = {'rate': 1}

    def ports_schema(self):
        return {'s': {'x': {'_default': 0, '_emit': True}}}

    def next_update(self, timestep, states):
        return {'s': {'x': self.parameters['rate'] * timestep}}


def make():
    return Composite(
        processes={'cell': {'inc': Inc({'rate': 2})}},
        topology={'cell': {'inc': {'s': ('store',)}}},
        state={'cell': {'store': {'x': 5}}})


def run(engine):
    engine.update(3)
    return engine.emitter.get_data()


reference = run(Engine(composite=make(), display_info=False))
from_store = run(Engine(store=make().generate_store(), display_info=False))
assert reference == from_store, 'the store entry point agrees'

problems = []
round_trip = Composite(store=make().generate_store())
assert isinstance(
    get_composite_from_store(make().generate_store()), Composite)


def holds_process(state):
    if isinstance(state, dict):
        return any(holds_process(value) for value in state.values())
    if isinstance(state, tuple):
        return any(holds_process(value) for value in state)
    return isinstance(state, Process)


if holds_process(round_trip['state']):
    problems.append(
        "the 'state' of the composite made from the store lists the "
        f"processes as variables: {round_trip['state']}")

try:
    data = run(Engine(composite=round_trip, display_info=False))
    if data != reference:
        problems.append(
            f'different trajectory: {data} instead of {reference}')
except BaseException:  # pylint: disable=broad-except
    problems.append(
        'Engine(composite=Composite(store=...)) could not be run:\n'
        + traceback.format_exc())

try:
    store = Composite(store=make().generate_store()).generate_store()
    if not isinstance(store.get_path(('cell', 'inc')).value, Process):
        problems.append(
            'generate_store() of the composite made from a store puts '
            f"{store.get_path(('cell', 'inc')).value!r} where the process "
            'should be')
except BaseException:  # pylint: disable=broad-except
    problems.append(
        'generate_store() failed:\n' + traceback.format_exc())

if problems:
    print('VIOLATION: composite -> store -> composite does not run')
    for problem in problems:
        print(' -', problem)
    sys.exit(1)
print('ok')
sys.exit(0)
