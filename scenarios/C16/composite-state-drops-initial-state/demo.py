"""C16: the three Engine entry points must run the same simulation.

A composite that carries some state ({'s': {'x': 10}}), and an explicit
initial_state for the engine that sets ANOTHER variable ({'s': {'y': 7}}).

 * Engine(store=composite.generate_store(), initial_state=S) applies S on top
   of the composite's state (Engine._make_store: store.set_value(initial_state))
 * Engine(processes=..., topology=..., initial_state=merge(state, S)) - the
   parts entry point - starts from both as well
 * Engine(composite=composite, initial_state=S) silently DROPS S:
   _make_store does  self.initial_state = composite['state'] or self.initial_state

Expected: all three start with x = 10 and y = 7.
"""
import copy
import sys

from vivarium.core.process import Process
from vivarium.core.composer import Composite
from vivarium.core.engine import Engine
from vivarium.library.dict_utils import deep_merge


class Inc(Process):
    def ports_schema(self):
        return {'port': {
            'x': {'_default': 0, '_emit': True},
            'y': {'_default': 0, '_emit': True}}}

    def next_update(self, timestep, states):
        return {'port': {'x': timestep, 'y': timestep}}


def make_composite():
    return Composite(
        processes={'A': Inc()},
        topology={'A': {'port': ('s',)}},
        state={'s': {'x': 10}})


def run(engine):
    engine.update(2)
    return engine.emitter.get_timeseries()['s']


KW = dict(display_info=False, progress_bar=False)
S = {'s': {'y': 7}}

c = make_composite()
from_composite = run(Engine(composite=c, initial_state=copy.deepcopy(S), **KW))

c = make_composite()
from_parts = run(Engine(
    processes=c.processes, steps=c.steps, flow=c.flow, topology=c.topology,
    initial_state=deep_merge(copy.deepcopy(c.state), copy.deepcopy(S)), **KW))

c = make_composite()
from_store = run(Engine(
    store=c.generate_store(), initial_state=copy.deepcopy(S), **KW))

# without state in the composite the same initial_state IS honoured
c = make_composite()
c['state'] = {}
stateless = run(Engine(composite=c, initial_state=copy.deepcopy(S), **KW))

print('composite + initial_state :', from_composite)
print('parts + initial_state     :', from_parts)
print('store + initial_state     :', from_store)
print('composite without state   :', stateless)

expected = {'x': [10, 11.0, 12.0], 'y': [7, 8.0, 9.0]}
bad = False
for name, got in (('parts', from_parts), ('store', from_store),
                  ('composite', from_composite)):
    if got != expected:
        print(f'VIOLATION: the {name} entry point ran {got}, '
              f'expected {expected}')
        bad = True
sys.exit(1 if bad else 0)
