"""Process.__init__ deep-copies parameters['_schema']: objects in the
override (an updater / divider / serializer that is an object with state,
or a bound method of one) are replaced by private copies - or the
construction fails when such an object cannot be deep-copied.

Before 85c2d13 the override went into the schema by reference
(get_schema deep-merges self.schema_override without copying), so an
updater object handed in through '_schema' was the very object the store
called.
"""
import sys
import threading

from vivarium.core.process import Process
from vivarium.core.engine import Engine


class RecordingUpdater:
    """accumulate, and keep a log of what was applied"""
    def __init__(self, with_lock=False):
        self.log = []
        if with_lock:
            self.lock = threading.Lock()   # cannot be deep-copied

    def __call__(self, current, new):
        self.log.append(new)
        return current + new


class Grow(Process):
    def ports_schema(self):
        return {'port': {'x': {'_default': 0}}}

    def next_update(self, timestep, states):
        return {'port': {'x': 1}}


def run(with_lock):
    recorder = RecordingUpdater(with_lock)
    process = Grow({'_schema': {'port': {'x': {'_updater': recorder}}}})
    same = process.parameters['_schema']['port']['x']['_updater'] is recorder
    sim = Engine(
        processes={'grow': process},
        topology={'grow': {'port': ('store',)}})
    sim.update(3)
    sim.end()
    x = sim.state.get_value()['store']['x']
    print(f'with_lock={with_lock}: x={x} log={recorder.log} '
          f'updater object kept: {same}')
    return x == 3 and recorder.log == [1, 1, 1]


def main():
    ok = True
    for with_lock in (False, True):
        try:
            ok = run(with_lock) and ok
        except Exception as error:  # pylint: disable=broad-except
            print(f'with_lock={with_lock}: raised '
                  f'{type(error).__name__}: {error}')
            ok = False
    return 0 if ok else 1


if __name__ == '__main__':
    sys.exit(main())
