"""Composite.merge and dict-subclass values (Counter, defaultdict, ...).

1e56024 repairs the copy of the *loose* arguments of Composite.merge, which
rebuilt every dict instance - leaf values included - as a plain dict.  The
copy of a merged-in *composite* (the sibling argument of the same call) still
goes through deep_copy_internal, which does the same: a Counter in the state
of the merged-in composite arrives as a plain dict, while the same state
given as the loose `state` argument (or to the constructor) keeps its type.
"""
import sys
from collections import Counter
from vivarium.core.composer import Composite
from vivarium.core.process import Process


class Tally(Process):
    def ports_schema(self):
        return {'v': {'c': {'_default': Counter(), '_updater': 'set'}}}

    def next_update(self, timestep, states):
        return {}


def base():
    return Composite({
        'processes': {'p': Tally()},
        'topology': {'p': {'v': ('v',)}}})


state = {'v': {'c': Counter(a=1)}}

loose = base()
loose.merge(state=state)
loose_type = type(loose['state']['v']['c'])
print('merge(state=...)           ->', loose_type.__name__)

other = Composite({
    'processes': {'q': Tally()},
    'topology': {'q': {'v': ('v',)}},
    'state': state})
print('Composite(state=...)       ->',
      type(other['state']['v']['c']).__name__)
merged = base()
merged.merge(composite=other)
merged_type = type(merged['state']['v']['c'])
print('merge(composite=other)     ->', merged_type.__name__)

ok = loose_type is Counter and merged_type is Counter
if not ok:
    print('WRONG: a Counter held in the merged state became a plain dict')
sys.exit(0 if ok else 1)
