"""C16: schema overrides reach exactly the process and port they name.

A Composer accepts a '_schema' entry in its configuration (Composer.__init__
pops it into self.schema_override and Composer.generate applies it to the named
process).  The same composer, with the same configuration, handed to a
MetaComposer loses the override: MetaComposer._generate calls the
sub-composers' generate_processes / generate_steps / generate_topology
directly and never looks at their schema_override, so the override reaches no
process at all.

Expected: process 'A' of composer CA gets the default x = 5 whether CA is used
alone or as a member of a MetaComposer.
"""
import sys

from vivarium.core.process import Process
from vivarium.core.composer import Composer, MetaComposer
from vivarium.core.engine import Engine


class Inc(Process):
    def ports_schema(self):
        return {'port': {'x': {'_default': 0, '_emit': True}}}

    def next_update(self, timestep, states):
        return {'port': {'x': timestep}}


class CA(Composer):
    def generate_processes(self, config):
        return {'A': Inc()}

    def generate_topology(self, config):
        return {'A': {'port': ('sa',)}}


class CB(Composer):
    def generate_processes(self, config):
        return {'B': Inc()}

    def generate_topology(self, config):
        return {'B': {'port': ('sb',)}}


def run(composite):
    engine = Engine(composite=composite, display_info=False,
                    progress_bar=False)
    engine.update(2)
    return engine.emitter.get_timeseries()['sa']['x']


config_a = {'_schema': {'A': {'port': {'x': {'_default': 5}}}}}

alone = run(CA(config_a).generate())
meta = MetaComposer(composers=[CA(config_a), CB()])
composite = meta.generate()
override_seen = composite.processes['A'].schema_override
combined = run(composite)

print('CA alone            : sa/x =', alone)
print('CA in a MetaComposer: sa/x =', combined,
      ' schema_override of A =', override_seen)

if alone != [5, 6.0, 7.0]:
    print('unexpected: the override does not even work on the composer alone')
    sys.exit(1)
if combined != alone:
    print("VIOLATION: the '_schema' override of composer CA names process A, "
          "port 'port', variable x, but never reaches it when CA is combined "
          "by a MetaComposer")
    sys.exit(1)
sys.exit(0)
