"""C16 / f4: loose dictionaries handed to Composite.merge are grafted in.

Composite.merge copies the nested dictionaries of a merged-in COMPOSITE (fix
c9a5818) but not those of the loose processes / topology / steps / flow /
state arguments: deep_merge(merge_topology, topology) and then
deep_merge(self.topology, merge_topology) insert the caller's nested
dictionaries by reference.  One wiring dictionary used for two merges is then
ONE object in two places of the composite (and still the caller's), so a later
merge that names one place changes the other, and the caller's dictionary.

Expected (property C16): merging yields the union under the path, later
entries winning on equal keys - a merge that re-wires ('a','inc') leaves
('b','inc') and the merged-in material as they were.
"""
import copy
import sys

from vivarium.core.process import Process
from vivarium.core.composer import Composite
from vivarium.core.engine import Engine


class Inc(Process):
    defaults = {'rate': 1}

    def ports_schema(self):
        return {'s': {'x': {'_default': 0, '_emit': True}}}

    def next_update(self, timestep, states):
        return {'s': {'x': self.parameters['rate'] * timestep}}


problems = []

# the same wiring for two compartments, merged in loose form at two paths
wiring = {'inc': {'s': ('store',)}}
wiring_before = copy.deepcopy(wiring)

world = Composite()
world.merge(
    processes={'inc': Inc({'rate': 1})}, topology=wiring, path=('a',))
world.merge(
    processes={'inc': Inc({'rate': 10})}, topology=wiring, path=('b',))
assert world['topology'] == {
    'a': {'inc': {'s': ('store',)}},
    'b': {'inc': {'s': ('store',)}}}

# re-wire the port of a's process only (documented use of merge: "uses the
# provided topology to override merged composite topology", CHANGELOG v0.2.9)
world.merge(topology={'a': {'inc': {'s': ('..', 'shared')}}})

expected = {
    'a': {'inc': {'s': ('..', 'shared')}},
    'b': {'inc': {'s': ('store',)}}}
if world['topology'] != expected:
    problems.append(
        f"topology after re-wiring ('a','inc') is {world['topology']}, "
        f'expected {expected}')
if wiring != wiring_before:
    problems.append(
        f'the merged-in topology dictionary was changed: {wiring}')

sim = Engine(composite=world, display_info=False)
sim.update(2)
final = sim.emitter.get_data()[2.0]
expected_final = {'shared': {'x': 2.0}, 'b': {'store': {'x': 20.0}}}
final = {key: value for key, value in final.items() if value}
if final != expected_final:
    problems.append(
        f'state after 2 s is {final}, expected {expected_final}')

# same for loose processes / state that contain nested dictionaries
procs = {'cell': {'inc': Inc()}}
topo = {'cell': {'inc': {'s': ('store',)}}}
state = {'cell': {'store': {'x': 1}}}
first = Composite()
first.merge(processes=procs, topology=topo, state=state)
first.merge(
    processes={'cell': {'extra': Inc()}},
    topology={'cell': {'extra': {'s': ('other',)}}},
    state={'cell': {'other': {'x': 7}}})
second = Composite()
second.merge(processes=procs, topology=topo, state=state)
if set(second['processes']['cell']) != {'inc'}:
    problems.append(
        'a composite that merged only {inc} holds processes '
        f"{sorted(second['processes']['cell'])} (entries merged into "
        'ANOTHER composite afterwards)')
if second['state'] != {'cell': {'store': {'x': 1}}}:
    problems.append(f"and the state {second['state']}")

if problems:
    print('VIOLATION: Composite.merge shares the loose dictionaries')
    for problem in problems:
        print(' -', problem)
    sys.exit(1)
print('ok')
sys.exit(0)
