"""C02 / f1: a process generated at a path whose previous occupant was deleted
in the same batch inherits the dead process's front (time + update in flight).

Setup: agent 'a' holds a slow Ticker (timestep 5).  At t=1 the 'killer' process
deletes agent 'a' and, in the same batch, the 'spawner' process generates a
fresh agent under the same key 'a' with a new Ticker (timestep 1).

Expected (property C02): the new Ticker entered the simulation at t=1, so over
update(10) it is asked to simulate contiguous intervals starting at t=1; the
timesteps handed to it sum to 9 and its accumulating variable reads 9.  The old
Ticker is dead: its update in flight must not reach the new agent.
"""
import sys
from vivarium.core.process import Process
from vivarium.core.engine import Engine


class Ticker(Process):
    defaults = {'timestep': 1.0}

    def __init__(self, parameters=None):
        super().__init__(parameters)
        self.calls = []

    def ports_schema(self):
        return {'clock': {'elapsed': {
            '_default': 0.0, '_updater': 'accumulate', '_emit': True}}}

    def next_update(self, timestep, states):
        self.calls.append(timestep)
        return {'clock': {'elapsed': timestep}}


class Once(Process):
    """Emits self.parameters['update'] through port 'agents' once."""
    defaults = {'timestep': 1.0, 'update': {}}

    def __init__(self, parameters=None):
        super().__init__(parameters)
        self.done = False

    def ports_schema(self):
        return {'agents': {'*': {'clock': {'elapsed': {'_default': 0.0}}}}}

    def next_update(self, timestep, states):
        if self.done:
            return {}
        self.done = True
        return {'agents': self.parameters['update']}


def main():
    old = Ticker({'timestep': 5.0})
    new = Ticker({'timestep': 1.0})
    killer = Once({'update': {'_delete': ['a']}})
    spawner = Once({'update': {'_generate': [{
        'key': 'a',
        'processes': {'ticker': new},
        'topology': {'ticker': {'clock': ('clock',)}},
        'initial_state': {'clock': {'elapsed': 0.0}},
    }]}})
    engine = Engine(
        processes={
            'killer': killer,
            'spawner': spawner,
            'agents': {'a': {'ticker': old}}},
        topology={
            'killer': {'agents': ('agents',)},
            'spawner': {'agents': ('agents',)},
            'agents': {'a': {'ticker': {'clock': ('clock',)}}}},
        display_info=False,
    )
    engine.update(10)

    entered = 1.0   # killer/spawner updates are applied at t=1
    expected = engine.global_time - entered
    elapsed = engine.state.get_value()['agents']['a']['clock']['elapsed']
    handed = sum(new.calls)
    print('old ticker calls:', old.calls)
    print('new ticker calls:', new.calls, 'sum', handed)
    print('new agent elapsed:', elapsed, 'expected', expected)
    ok = True
    if abs(handed - expected) > 1e-9:
        print(f'VIOLATION: new process entered at t={entered} and the run '
              f'ended at t={engine.global_time}, but it was handed '
              f'{handed} s of timesteps instead of {expected}')
        ok = False
    if abs(elapsed - handed) > 1e-9:
        print(f'VIOLATION: the new agent accumulated {elapsed} s although its '
              f'only process reported {handed} s: the deleted process\'s '
              f'update in flight was applied to it')
        ok = False
    return 0 if ok else 1


if __name__ == '__main__':
    sys.exit(main())
