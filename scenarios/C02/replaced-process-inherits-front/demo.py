"""C02: a process that enters a running simulation by replacing a process of the
same name (a `_generate` into an existing compartment, as the library's
SwapProcesses step issues it) inherits the schedule entry of the process it
replaces.

Compartment agents/1 holds
  * 'growth'  : OldGrowth, timestep 5  (invoked at t=0 for [0,5])
  * 'swap'    : vivarium.processes.swap_processes.SwapProcesses; when the trigger
                is set it removes itself and generates the new compartment
                {'growth': NewGrowth(timestep 1)} into agents/1
  * 'trigger' : sets the trigger at t=2

Expected (property C02): the new process enters at t=2; the intervals it is asked
to simulate start at 2 and are contiguous: [2,3], [3,4], ... [7,8]; the timesteps
it is handed sum to 8 - 2 = 6 after update(8).

Observed on the unchanged tree: Engine.front[('agents','1','growth')] still is
the entry of the replaced process ({'time': 5, 'update': <its update in flight>}),
so the new process is first invoked at t=5 (it is handed 3 s in total), and the
update of the process that is no longer in the simulation is applied at t=5.
"""
import sys

from vivarium.core.composer import Composer
from vivarium.core.engine import Engine
from vivarium.core.process import Process
from vivarium.processes.swap_processes import SwapProcesses

ENGINE = [None]
CALLS = {'old': [], 'new': []}      # (global time at invocation, timestep)
ENTRY = {}


class OldGrowth(Process):
    defaults = {'time_step': 5.0}

    def ports_schema(self):
        return {'vars': {'age_old': {
            '_default': 0.0, '_updater': 'accumulate', '_emit': True}}}

    def next_update(self, timestep, states):
        CALLS['old'].append((ENGINE[0].global_time, timestep))
        return {'vars': {'age_old': timestep}}


class NewGrowth(Process):
    defaults = {'time_step': 1.0}

    def __init__(self, parameters=None):
        super().__init__(parameters)
        # created by SwapProcesses.next_update at the moment of the swap
        ENTRY['new'] = ENGINE[0].global_time

    def ports_schema(self):
        return {'vars': {'age_new': {
            '_default': 0.0, '_updater': 'accumulate', '_emit': True}}}

    def next_update(self, timestep, states):
        CALLS['new'].append((ENGINE[0].global_time, timestep))
        return {'vars': {'age_new': timestep}}


class NewCompartment(Composer):
    def generate_processes(self, config):
        return {'growth': NewGrowth()}

    def generate_topology(self, config):
        return {'growth': {'vars': ('vars',)}}


class Trigger(Process):
    defaults = {'time_step': 1.0, 'at': 2.0}

    def __init__(self, parameters=None):
        super().__init__(parameters)
        self.t = 0.0

    def ports_schema(self):
        return {'flag': {'swap_now': {'_default': False, '_updater': 'set'}}}

    def next_update(self, timestep, states):
        self.t += timestep
        if self.t == self.parameters['at']:
            return {'flag': {'swap_now': True}}
        return {}


def main():
    processes = {'agents': {'1': {
        'growth': OldGrowth(),
        'trigger': Trigger({'at': 2.0}),
    }}}
    steps = {'agents': {'1': {
        'swap': SwapProcesses({
            # the swap step removes itself (as 'death' does in the library's
            # ToyLivingCompartment); 'growth' is replaced by the new 'growth'
            'removed_processes': ['swap'],
            'new_compartment': NewCompartment({}),
        }),
    }}}
    topology = {'agents': {'1': {
        'growth': {'vars': ('vars',)},
        'trigger': {'flag': ('flags',)},
        'swap': {'trigger': ('flags', 'swap_now'), 'self': ('..', '1')},
    }}}
    engine = Engine(
        processes=processes, steps=steps, topology=topology,
        display_info=False, emitter='null')
    ENGINE[0] = engine

    engine.update(8.0)

    now = engine.processes['agents']['1']['growth']
    assert isinstance(now, NewGrowth), 'the swap did not take place'
    entry = ENTRY['new']
    assert entry == 2.0, entry
    calls = CALLS['new']
    handed = sum(ts for _, ts in calls)
    elapsed = engine.global_time - entry
    state = engine.state.get_value()['agents']['1']['vars']

    problems = []
    if not calls or calls[0][0] != entry:
        problems.append(
            f'the new process entered at t={entry} but its first interval '
            f'starts at t={calls[0][0] if calls else None}')
    if abs(handed - elapsed) > 1e-9:
        problems.append(
            f'timesteps handed to the new process sum to {handed}, '
            f'simulated time elapsed for it is {elapsed}')
    if state['age_old'] != 0.0:
        print("note: the replaced process's update for [0,5] was applied at "
              "t=5, 3 s after it left the simulation "
              f"(age_old={state['age_old']})")

    print('calls of the new process (time, timestep):', calls)
    print('state:', state, 'global time:', engine.global_time)
    if problems:
        print('C02 VIOLATED:')
        for p in problems:
            print('  -', p)
        return 1
    print('C02 holds')
    return 0


if __name__ == '__main__':
    sys.exit(main())
