"""C02: a process that is waiting for its next interval (not invoked yet, nothing
in flight) when its compartment is moved loses the simulated time between the end
of its last interval and the move.

  * A/cell/tick : Ticker, timestep 3; accumulates the timesteps it is handed
  * mover       : timestep 1; at t=1 moves the compartment 'cell' from store A to
                  store B (`_move`, as the library's Engulf and Burst steps do)

Schedule: run_for(2.5) (caller-managed loop, not forced), then update(3.5).
Inside run_for(2.5) the ticker cannot complete an interval (0+3 > 2.5), so the
engine does not invoke it: its front stays {'time': 0, 'update': {}}.  No update
of the ticker is in flight at any time before t=2.5.

Expected (property C02): the process entered the simulation at t=0 and is still
in it at t=6 (the very same object, now at B/cell/tick), so the intervals it is
asked to simulate start at 0, are contiguous, and the timesteps handed to it sum
to 6 after the final update(): e.g. [0,3] and [3,6].

Observed on the unchanged tree: the move re-registers the process under the new
path with a fresh schedule entry at t=1 and drops the old one, so the ticker is
asked to simulate [1,4] and [4,6] only: it is handed 5 s in a 6 s simulation.
"""
import sys

from vivarium.core.engine import Engine
from vivarium.core.process import Process

ENGINE = [None]
CALLS = []      # (global time at invocation, timestep)


class Ticker(Process):
    defaults = {'time_step': 3.0}

    def ports_schema(self):
        return {'out': {'clock': {
            '_default': 0.0, '_updater': 'accumulate', '_emit': True}}}

    def next_update(self, timestep, states):
        CALLS.append((ENGINE[0].global_time, timestep))
        return {'out': {'clock': timestep}}


class Mover(Process):
    defaults = {'time_step': 1.0, 'at': 1.0}

    def __init__(self, parameters=None):
        super().__init__(parameters)
        self.t = 0.0

    def ports_schema(self):
        return {'src': {'*': {}}, 'dst': {'*': {}}}

    def next_update(self, timestep, states):
        self.t += timestep
        if self.t == self.parameters['at']:
            return {'src': {'_move': [{'source': 'cell', 'target': 'dst'}]}}
        return {}


def main():
    ticker = Ticker()
    processes = {
        'mover': Mover({'at': 1.0}),
        'A': {'cell': {'tick': ticker}},
    }
    topology = {
        'mover': {'src': ('A',), 'dst': ('B',)},
        'A': {'cell': {'tick': {'out': ('vars',)}}},
    }
    engine = Engine(
        processes=processes, topology=topology,
        display_info=False, emitter='null')
    ENGINE[0] = engine

    engine.run_for(2.5)          # caller-managed chunk, not forced
    assert not CALLS, 'the ticker was not expected to be invoked before 2.5'
    engine.update(3.5)           # final chunk, forced completion

    assert engine.processes['B']['cell']['tick'] is ticker, 'move failed'
    clock = engine.state.get_value()['B']['cell']['vars']['clock']
    handed = sum(ts for _, ts in CALLS)
    print('calls of the ticker (time of invocation, timestep):', CALLS)
    print('ticker clock:', clock, ' global time:', engine.global_time)
    print('front:', {k: v['time'] for k, v in engine.front.items()})
    if abs(handed - engine.global_time) > 1e-9 or \
            abs(clock - engine.global_time) > 1e-9:
        print('C02 VIOLATED: the process has been in the simulation since '
              f't=0, the timesteps handed to it sum to {handed} but '
              f'{engine.global_time} s have elapsed: the interval [0,1] '
              'before the move was never simulated although no interval of '
              'the process had been started (nothing in flight)')
        return 1
    print('C02 holds')
    return 0


if __name__ == '__main__':
    sys.exit(main())
