"""C02: a process is invoked for consecutive intervals that tile its lifetime.

A compartment is moved into a sub-store and back to where it was by ONE update (two '_move' entries).  Its process
(timestep 3) is merely waiting: inside a non-forced run_for its next interval would end after the call, so nothing
is in flight and its schedule entry says "simulated up to 0".  After the update the process sits at the path it had;
its schedule entry must still say 0, so that the intervals handed to it are [0,3], [3,6].

Found by proof: Model/Fronts.v front_follows_identity needed the premise `not_in_place` (nothing is deleted and
re-registered in place); the counterexample of the proof (round_trip_counterexample) is this update.
"""
import sys

from vivarium.core.engine import Engine
from vivarium.core.process import Process


class Cnt(Process):
    defaults = {'time_step': 3.0}

    def __init__(self, parameters=None):
        super().__init__(parameters)
        self.intervals = []
        self.clock = 0.0

    def ports_schema(self):
        return {'s': {'n': {'_default': 0}}}

    def next_update(self, timestep, states):
        self.intervals.append((self.clock, self.clock + timestep))
        self.clock += timestep
        return {'s': {'n': 1}}


class Mover(Process):
    defaults = {'time_step': 1.0}

    def __init__(self, parameters=None):
        super().__init__(parameters)
        self.calls = 0

    def ports_schema(self):
        return {'here': {'*': {}}, 'inner': {'*': {}}, 'root': {'*': {}}}

    def next_update(self, timestep, states):
        self.calls += 1
        if self.calls == 2:
            return {'here': {'_move': [
                {'source': 'c20', 'target': 'inner'},
                {'source': ('d30', 'c20'), 'target': 'root'}]}}
        return {}


def main():
    cnt = Cnt()
    engine = Engine(
        processes={'mover': Mover(), 'd30': {'c20': {'cnt': cnt}}},
        topology={
            'mover': {'here': ('d30',), 'inner': ('d30', 'd30'), 'root': ()},
            'd30': {'c20': {'cnt': {'s': ('s',)}}}},
        initial_state={'d30': {'d30': {}}},
        display_info=False, progress_bar=False)
    engine.run_for(1.5)
    before = engine.front[('d30', 'c20', 'cnt')]['time']
    engine.run_for(1.0)   # the round trip happens at t=2
    after = engine.front.get(('d30', 'c20', 'cnt'), {}).get('time')
    engine.update(3.5)
    n = engine.state.get_value()['d30']['c20']['s']['n']
    print('schedule entry before the round trip: %r, after: %r' % (before, after))
    print('n = %r at time %r; the process accounts for %r s' % (
        n, engine.global_time, cnt.clock))
    engine.end()
    if after != before or cnt.clock != engine.global_time:
        print('C02 VIOLATED: the process stayed where it was but lost the '
              'time between its last interval and the update')
        return 1
    print('C02 holds')
    return 0


if __name__ == '__main__':
    sys.exit(main())
