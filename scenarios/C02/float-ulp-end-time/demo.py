"""C02 / f2: without global_time_precision, forced completion can drop the
last update because of floating-point rounding of global_time + full_step.

run_for computes full_step = future - global_time and then tests
global_time + full_step <= end_time.  For global_time = 0.3 and
future = end_time = 0.9,  0.3 + (0.9 - 0.3) == 0.9000000000000001 > 0.9, so
the loop takes the "all processes have run past the interval" branch: the
clock jumps to 0.9 and the update computed for [0.3, 0.9] is never applied.

Two legal usages that put the clock at 0.3 with the next event at 0.9:
 A. a process with an adaptive timestep (calculate_timestep override, as
    documented): first 0.3, then 1.0;   engine.update(0.9)
 C. the same with the project's own adaptive process,
    vivarium.processes.alternator.PeriodicEvent({'periods': [0.3, 1.0]})
 B. constant timesteps only: a start-up process (timestep 0.3) that switches
    itself off through its '_condition' variable after one step, next to a
    default process (timestep 1.0);     engine.update(0.9)

Expected (property C02): after update(0.9) every process has been simulated up
to 0.9, nothing is pending, and the timesteps handed sum to 0.9 (and the
accumulating variable reads 0.9).
"""
import sys
from vivarium.core.process import Process
from vivarium.core.engine import Engine
from vivarium.processes.alternator import PeriodicEvent


class Adaptive(Process):
    defaults = {'steps': [0.3, 1.0]}

    def __init__(self, parameters=None):
        super().__init__(parameters)
        self.calls = []

    def ports_schema(self):
        return {'clock': {
            'elapsed': {'_default': 0.0, '_updater': 'accumulate'},
            'n': {'_default': 0, '_updater': 'accumulate'}}}

    def calculate_timestep(self, states):
        steps = self.parameters['steps']
        return steps[min(states['clock']['n'], len(steps) - 1)]

    def next_update(self, timestep, states):
        self.calls.append(timestep)
        return {'clock': {'elapsed': timestep, 'n': 1}}


class Ticker(Process):
    defaults = {'timestep': 1.0}

    def __init__(self, parameters=None):
        super().__init__(parameters)
        self.calls = []

    def ports_schema(self):
        return {'clock': {
            'elapsed': {'_default': 0.0, '_updater': 'accumulate'}}}

    def next_update(self, timestep, states):
        self.calls.append(timestep)
        return {'clock': {'elapsed': timestep}}


class StartUp(Process):
    """Runs once, then switches itself off through its condition variable."""
    defaults = {'timestep': 0.3, '_condition': ('flags', 'on')}

    def ports_schema(self):
        return {'flags': {'on': {'_default': True, '_updater': 'set'}}}

    def next_update(self, timestep, states):
        return {'flags': {'on': False}}


def check(label, engine, process, store_key):
    ok = True
    try:
        engine.update(0.9)
    except AssertionError as e:
        print(f'{label}: VIOLATION: update(0.9) raised AssertionError: {e}')
        ok = False
    elapsed = engine.state.get_value()[store_key]['elapsed']
    handed = sum(process.calls)
    print(f'{label}: global_time={engine.global_time} handed={process.calls} '
          f'elapsed variable={elapsed} front={engine.front}')
    if abs(elapsed - engine.global_time) > 1e-9:
        print(f'{label}: VIOLATION: {handed} s were handed to the process but '
              f'only {elapsed} s reached the state at global time '
              f'{engine.global_time}: the update for the last interval was '
              f'left unapplied')
        ok = False
    try:
        engine.update(1.0)
    except RuntimeError as e:
        print(f'{label}: VIOLATION: the next update() raised: {e}')
        ok = False
    return ok


def main():
    ok = True

    p = Adaptive()
    engine = Engine(
        processes={'p': p},
        topology={'p': {'clock': ('clock',)}},
        display_info=False)
    ok = check('A (adaptive timestep)', engine, p, 'clock') and ok

    t = Ticker()
    engine = Engine(
        processes={'startup': StartUp(), 'ticker': t},
        topology={
            'startup': {'flags': ('flags',)},
            'ticker': {'clock': ('clock',)}},
        display_info=False)
    ok = check('B (constant timesteps + condition)', engine, t, 'clock') and ok

    # C: PeriodicEvent fires at 0.3 (index 0 -> 1) and, forced to complete,
    # at 0.9 (index 1 -> 0)
    pe = PeriodicEvent({'periods': [0.3, 1.0]})
    engine = Engine(
        processes={'pe': pe},
        topology={'pe': {
            'event_trigger': ('trigger',), 'period_index': ('index',)}},
        display_info=False)
    try:
        engine.update(0.9)
    except AssertionError as e:
        print(f'C (PeriodicEvent): VIOLATION: update(0.9) raised '
              f'AssertionError: {e}')
        ok = False
    index = engine.state.get_value()['index']
    if index != 0:
        print(f'C (PeriodicEvent): VIOLATION: period_index is {index} at '
              f'global time {engine.global_time}; the event computed for '
              f'[0.3, 0.9] was not applied (expected 0)')
        ok = False

    return 0 if ok else 1


if __name__ == '__main__':
    sys.exit(main())
