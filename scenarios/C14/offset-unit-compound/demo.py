"""C14: compound units that contain an offset (or logarithmic) unit.

Expected (property C14): quantities come back from
deserialize_value(serialize_value(q)) / get_data_deserialized with the same
magnitude and units, compound units included, for all units expressible in
the registry.

Observed: the repair for plain offset quantities ('25 degree_Celsius')
catches pint's OffsetUnitCalculusError and rebuilds the quantity with
text.partition(' ') and units.Quantity(number, unit_str).  For compound
units that is wrong in three ways:
  * 0.0039 / units.degC (a temperature coefficient) prints as
    '0.0039 / degree_Celsius': the fallback takes '/ degree_Celsius' for the
    units and raises DefinitionSyntaxError - get_data_deserialized raises on
    any row that holds it;
  * units.Quantity(2.0, units.degC / units.hour) prints as
    '2.0 degree_Celsius / hour': Quantity(2.0, 'degree_Celsius / hour')
    silently re-reads the units as delta_degree_Celsius / hour;
  * the bare unit units.joule / units.degC prints as
    'joule / degree_Celsius': the fallback calls float('joule').
"""
import sys
import warnings

warnings.simplefilter('ignore')

from vivarium.core.emitter import RAMEmitter
from vivarium.core.serialize import serialize_value, deserialize_value
from vivarium.library.units import units

problems = []

alpha = 0.0039 / units.degC                       # 1 / degree_Celsius
rate = units.Quantity(2.0, units.degC / units.hour)
bare = units.joule / units.degC

# reference cases that work
ok = 0.0039 / units.kelvin
assert deserialize_value(serialize_value(ok)) == ok
t = units.Quantity(25, units.degC)
assert deserialize_value(serialize_value(t)) == t

for label, value, magnitude, unit in (
        ('0.0039 / units.degC', alpha, 0.0039, alpha.units),
        ('Quantity(2.0, degC / hour)', rate, 2.0, rate.units),
        ('unit joule / degC', bare, 1, bare)):
    serialized = serialize_value({'x': value})
    try:
        restored = deserialize_value(serialized)['x']
    except Exception as e:  # pylint: disable=broad-except
        problems.append(
            f'{label}: deserialize_value({serialized["x"]!r}) raised '
            f'{type(e).__name__}: {e}')
        continue
    if restored.units != unit or restored.magnitude != magnitude:
        problems.append(
            f'{label}: {serialized["x"]!r} came back as {restored!r} '
            f'(units {restored.units} instead of {unit})')

emitter = RAMEmitter({})
emitter.emit({'table': 'history', 'data': {'time': 0.0, 'alpha': alpha}})
try:
    restored = emitter.get_data_deserialized()[0.0]['alpha']
    if restored.units != alpha.units or restored.magnitude != 0.0039:
        problems.append(f'emitted alpha came back as {restored!r}')
except Exception as e:  # pylint: disable=broad-except
    problems.append(
        f'RAMEmitter.get_data_deserialized raised {type(e).__name__}: {e}')

if problems:
    print('PROPERTY C14 VIOLATED:')
    for p in problems:
        print(' -', p)
    sys.exit(1)
print('ok: compound units with an offset unit round-trip')
sys.exit(0)
