"""C14: an emitted quantity must come back from Emitter.get_data_deserialized
with the same magnitude AND units.

Three variables of one store hold the same kind of value (a mass in
femtogram).  They differ only in the way the Quantity reaches the variable:

  a : '_default': 1.0 * units.fg            (schema default)
  b : '_value'  : 1.0 * units.fg            (schema key '_value', documented
                                             in the Store docstring; used with a
                                             Quantity by the shipped
                                             NonSpatialEnvironment for
                                             global/volume)
  c : default 0.0, initial_state 2.0 * fg   (initial state)

Expected: all three rows come back as quantities in femtogram.
Observed on the unchanged tree: 'b' is emitted as the bare float 1.0 - the
units are stripped before the row reaches serialize_value
(Store.emit_data: `if self.units: return self.value.to(self.units).magnitude`,
reached because Store._apply_config sets self.units for a '_value' Quantity
but, unlike the '_default' and '_units' branches, no serializer).
"""
import sys
import warnings
warnings.simplefilter('ignore')

from vivarium.core.process import Process
from vivarium.core.engine import Engine
from vivarium.library.units import units, Quantity
from vivarium.processes.nonspatial_environment import NonSpatialEnvironment


class Masses(Process):
    def ports_schema(self):
        return {'g': {
            'a': {'_default': 1.0 * units.fg, '_emit': True, '_updater': 'set'},
            'b': {'_value': 1.0 * units.fg, '_emit': True, '_updater': 'set'},
            'c': {'_default': 0.0, '_emit': True, '_updater': 'set'},
        }}

    def next_update(self, timestep, states):
        return {}


failures = []

engine = Engine(
    processes={'p': Masses()},
    topology={'p': {'g': ('g',)}},
    initial_state={'g': {'c': 2.0 * units.fg}},
    progress_bar=False)
engine.update(1.0)
state = engine.state.get_value()['g']
rows = engine.emitter.get_data_deserialized()
for time, row in rows.items():
    for name in ('a', 'b', 'c'):
        in_store = state[name]
        got = row['g'][name]
        assert isinstance(in_store, Quantity)
        if not (isinstance(got, Quantity) and got.units == in_store.units
                and got.magnitude == in_store.magnitude):
            failures.append(
                f't={time} g/{name}: store holds {in_store!r}, '
                f'get_data_deserialized returned {got!r}')

# the same with the shipped process that declares global/volume with '_value'
env = NonSpatialEnvironment({'volume': 2e-12 * units.L})
engine2 = Engine(
    steps={'env': env},
    topology={'env': {
        'external': ('external',), 'fields': ('fields',),
        'dimensions': ('dimensions',), 'global': ('global',)}},
    store_schema={'global': {'volume': {'_emit': True}}},
    progress_bar=False)
engine2.update(1.0)
in_store = engine2.state.get_value()['global']['volume']
for time, row in engine2.emitter.get_data_deserialized().items():
    got = row['global']['volume']
    if not (isinstance(got, Quantity) and got == in_store):
        failures.append(
            f'NonSpatialEnvironment t={time} global/volume: store holds '
            f'{in_store!r}, get_data_deserialized returned {got!r}')

if failures:
    print('VIOLATION: emitted quantities lost their units:')
    for f in failures:
        print('  ', f)
    sys.exit(1)
print('ok: every emitted quantity came back with magnitude and units')
sys.exit(0)
