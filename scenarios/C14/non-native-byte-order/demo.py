"""C14: numpy arrays in non-native byte order.

Expected (property C14): serialize_value turns numpy arrays into plain JSON
lists.  Arrays that orjson cannot write itself are meant to go through the
registered NumpyFallbackSerializer (ndarray.tolist()), which is what happens
for string arrays, float16 / structured dtypes, transposed and sliced
(non-contiguous) arrays.

Observed: for an array whose dtype has the non-native byte order ('>i4',
'>f8': what np.frombuffer / np.fromfile / struct-based readers and many
scientific file formats hand out) orjson raises TypeError('numpy array is
not native-endianness') WITHOUT calling the fallback, and serialize_value
re-raises it as "These paths end in incompatible non-string or Numpy string
keys: []".  A supported value is rejected (with a message about keys that
do not exist), and an Engine that emits such a store dies at its first emit.
"""
import struct
import sys
import warnings

import numpy as np

warnings.simplefilter('ignore')

from vivarium.core.emitter import RAMEmitter
from vivarium.core.serialize import serialize_value, deserialize_value

problems = []

# counts read from a big-endian binary record (network byte order)
raw = struct.pack('>4i', 3, 1, 4, 1)
counts = np.frombuffer(raw, dtype='>i4')
assert counts.tolist() == [3, 1, 4, 1]
rates = np.array([0.5, 1.5], dtype=np.dtype('float64').newbyteorder())
assert rates.tolist() == [0.5, 1.5]

# reference: other arrays orjson cannot write natively use the fallback
assert serialize_value(np.array([[1, 2], [3, 4]]).T) == [[1, 3], [2, 4]]
assert serialize_value(np.array(['a', 'b'])) == ['a', 'b']
assert serialize_value(counts.astype('<i4')) == [3, 1, 4, 1]

for label, value, expected in (
        ('big-endian int32 array', counts, [3, 1, 4, 1]),
        ('big-endian float64 array', rates, [0.5, 1.5]),
        ('nested in a state dict', {'cell': {'counts': counts}},
         {'cell': {'counts': [3, 1, 4, 1]}})):
    try:
        serialized = serialize_value(value)
        if serialized != expected or deserialize_value(serialized) != expected:
            problems.append(f'{label}: expected {expected}, got {serialized}')
    except TypeError as e:
        problems.append(f'{label}: serialize_value raised TypeError: {e}')

emitter = RAMEmitter({})
try:
    emitter.emit(
        {'table': 'history', 'data': {'time': 0.0, 'counts': counts}})
    if emitter.get_data_deserialized() != {0.0: {'counts': [3, 1, 4, 1]}}:
        problems.append(
            f'RAMEmitter stored {emitter.get_data_deserialized()}')
except TypeError as e:
    problems.append(f'RAMEmitter.emit raised TypeError: {e}')

if problems:
    print('PROPERTY C14 VIOLATED:')
    for p in problems:
        print(' -', p)
    sys.exit(1)
print('ok: non-native byte order arrays are serialized')
sys.exit(0)
