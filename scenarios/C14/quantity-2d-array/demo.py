"""C14: a quantity whose magnitude is a 2-D (or higher) numpy array.

Expected (property C14): serialize_value gives plain JSON data from which
deserialize_value / Emitter.get_data_deserialized restores the same
magnitudes and units, keeping the container structure (a 2x2 array of
metres comes back as a 2x2 nest of quantities in metres, just as a 1-D
array of quantities comes back as a list of quantities and a plain 2-D
numpy array comes back as a nested list).

Observed: QuantitySerializer.serialize iterates one level only, so each ROW
is written with str(): '!units[[1.5 2.5] meter]'.  The units deserializer
accepts that string and pint evaluates '[1.5 2.5] meter' as the PRODUCT
1.5 * 2.5: the row silently comes back as the single quantity 3.75 meter.
"""
import sys
import warnings

import numpy as np

warnings.simplefilter('ignore')

from vivarium.core.emitter import RAMEmitter
from vivarium.core.serialize import serialize_value, deserialize_value
from vivarium.library.units import units, Quantity

problems = []

magnitudes = np.array([[1.5, 2.5], [3.0, 4.0]])
original = units.Quantity(magnitudes, 'meter')


def check(restored, where):
    """restored must be a 2x2 nest holding the four quantities."""
    try:
        rows = list(restored)
        ok = len(rows) == 2
        for i in range(2):
            row = list(rows[i]) if ok and isinstance(rows[i], list) else None
            if row is None or len(row) != 2:
                ok = False
                break
            for j in range(2):
                elem = row[j]
                if not (isinstance(elem, Quantity)
                        and elem.units == units.meter
                        and elem.magnitude == magnitudes[i, j]):
                    ok = False
    except TypeError:
        ok = False
    if not ok:
        problems.append(
            f'{where}: expected a 2x2 nest of quantities '
            f'{magnitudes.tolist()} meter, got {restored!r}')


# 1. Reference cases that work: 1-D quantity array, plain 2-D array.
one_d = deserialize_value(serialize_value(units.Quantity(magnitudes[0], 'meter')))
assert one_d == [1.5 * units.meter, 2.5 * units.meter], one_d
assert deserialize_value(serialize_value(magnitudes)) == magnitudes.tolist()

# 2. serialize_value / deserialize_value directly.
serialized = serialize_value({'field': original})
print('serialized :', serialized)
try:
    restored = deserialize_value(serialized)['field']
    print('restored   :', restored)
    check(restored, 'deserialize_value(serialize_value(q))')
except Exception as e:  # pylint: disable=broad-except
    problems.append(f'deserialize_value raised {type(e).__name__}: {e}')

# 3. The same through the RAM emitter.
emitter = RAMEmitter({})
emitter.emit({'table': 'history', 'data': {'time': 0.0, 'field': original}})
try:
    restored = emitter.get_data_deserialized()[0.0]['field']
    check(restored, 'RAMEmitter.get_data_deserialized()')
except Exception as e:  # pylint: disable=broad-except
    problems.append(f'get_data_deserialized raised {type(e).__name__}: {e}')

# 4. The same through an Engine: a lattice field declared with units.
from vivarium.core.engine import Engine
from vivarium.core.process import Process


class Field(Process):
    def ports_schema(self):
        return {'env': {'field': {
            '_default': units.Quantity(magnitudes.copy(), 'meter'),
            '_updater': 'set', '_emit': True}}}

    def next_update(self, timestep, states):
        return {}


engine = Engine(
    processes={'p': Field()}, topology={'p': {'env': ('env',)}},
    emitter='timeseries', progress_bar=False)
engine.update(1.0)
try:
    data = engine.emitter.get_data_deserialized()
    check(data[0.0]['env']['field'], 'Engine ... get_data_deserialized()')
except Exception as e:  # pylint: disable=broad-except
    problems.append(
        f'Engine get_data_deserialized raised {type(e).__name__}: {e}')

if problems:
    print('PROPERTY C14 VIOLATED:')
    for p in problems:
        print(' -', p)
    sys.exit(1)
print('ok: the 2-D quantity array round-trips')
sys.exit(0)
