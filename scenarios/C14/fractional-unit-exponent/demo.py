"""C14: compound units with a non-terminating fractional exponent.

Expected (property C14): a quantity comes back from
deserialize_value(serialize_value(q)) with the same magnitude and the same
units, for all units expressible in the registry, compound units included.

Observed: the serialized form is '!units[' + str(q) + ']' and pint's str()
prints unit exponents with 6 significant digits only, so
(8 femtoliter) ** (1/3) = 2.0 femtoliter ** 0.3333333333333333 is written as
'!units[2.0 femtoliter ** 0.333333]' and restored with exponent 0.333333:
different units ([length] ** 0.999999), which can no longer be converted to
micrometer although the original can.
"""
import sys
import warnings

warnings.simplefilter('ignore')

from vivarium.core.emitter import RAMEmitter
from vivarium.core.serialize import serialize_value, deserialize_value
from vivarium.library.units import units

problems = []

volume = 8.0 * units.fL
length = volume ** (1 / 3)          # characteristic cell length
assert abs(length.to('micrometer').magnitude - 2.0) < 1e-9

cases = {
    'cube root of a volume': length,
    'surface from volume (V ** (2/3))': volume ** (2 / 3),
    'meter ** (1/6)': units.Quantity(1.0, units.meter ** (1 / 6)),
}
# reference: exponents that print exactly do round-trip
sqrt = units.Quantity(2.0, 'meter ** 0.5')
assert deserialize_value(serialize_value(sqrt)).units == sqrt.units

for label, q in cases.items():
    serialized = serialize_value({'x': q})
    restored = deserialize_value(serialized)['x']
    print(f"{label}: {dict(q.units._units)} -> {serialized[chr(120)]} -> "
          f"{dict(restored.units._units)}")
    if restored.units != q.units or restored != q:
        problems.append(
            f'{label}: units {dict(q.units._units)} came back as '
            f'{dict(restored.units._units)} (serialized {serialized["x"]})')

emitter = RAMEmitter({})
emitter.emit({'table': 'history', 'data': {'time': 0.0, 'length': length}})
restored = emitter.get_data_deserialized()[0.0]['length']
try:
    in_um = restored.to('micrometer')
    if abs(in_um.magnitude - 2.0) > 1e-9:
        problems.append(f'emitted length converts to {in_um}, not 2 um')
except Exception as e:  # pylint: disable=broad-except
    problems.append(
        'the emitted length can no longer be converted to micrometer: '
        f'{type(e).__name__}: {e}')

if problems:
    print('PROPERTY C14 VIOLATED:')
    for p in problems:
        print(' -', p)
    sys.exit(1)
print('ok: fractional unit exponents round-trip')
sys.exit(0)
