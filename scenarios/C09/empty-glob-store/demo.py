"""C09 - structural updates against a glob store that is (or has become) empty.

A port declared as {'*': {}} (the form the shipped Burst, Engulf and Remove
processes use for the stores whose children they add / move / delete) gives the
store an EMPTY sub-schema.  Store.apply_update decides "branch or leaf" with
``if self.inner or self.subschema`` - both are falsy for such a store when it has
no child - so the structural keys are handed to the leaf updater.

Expected (property C09): an _add creates the named child, a _generate inserts
the compartment, whatever the number of children the store holds at that time.
Scenario A: the store starts empty and a process adds the first child.
Scenario B: the store has one child (a compartment with a process); it is
            deleted; B0: the update of the deleted child's own process is
            applied after the deletion in the same batch (with a sibling left
            it is silently dropped); B1/B2: later a new child is added with
            _add / a compartment with _generate.
"""
import sys
import traceback

from vivarium.core.engine import Engine
from vivarium.core.process import Process


class Inc(Process):
    def ports_schema(self):
        return {'c': {'x': {'_default': 0}}}

    def next_update(self, timestep, states):
        return {'c': {'x': 1}}


class Manager(Process):
    """Issues the scripted structural update of the current tick."""
    defaults = {'script': {}}

    def ports_schema(self):
        return {
            'agents': {'*': {}},
            'tick': {'_default': 0}}

    def next_update(self, timestep, states):
        update = {'tick': 1}
        structural = self.parameters['script'].get(states['tick'])
        if structural:
            update['agents'] = structural()
        return update


def run(name, script, first_agents, ticks, expected_keys,
        manager_first=False):
    # the agents present at construction are compartments holding a process
    processes = {}
    topology = {}
    if manager_first:
        processes['manager'] = Manager({'script': script})
    if first_agents:
        processes['agents'] = {key: {'inc': Inc()} for key in first_agents}
        topology['agents'] = {
            key: {'inc': {'c': ('c',)}} for key in first_agents}
    # by default the manager is listed (and so applied) after the agents
    processes['manager'] = Manager({'script': script})
    topology['manager'] = {'agents': ('agents',), 'tick': ('tick',)}
    engine = Engine(
        processes=processes,
        topology=topology,
        progress_bar=False, display_info=False)
    try:
        for _ in range(ticks):
            engine.update(1)
    except Exception as e:  # pylint: disable=broad-except
        traceback.print_exc()
        print(f'VIOLATION [{name}]: the structural update was not carried '
              f'out, Engine.update raised: {e}')
        return False
    keys = sorted((engine.state.get_value().get('agents') or {}).keys())   # (an emptied store reads as None)
    if keys != expected_keys:
        print(f'VIOLATION [{name}]: agents holds {keys}, '
              f'expected {expected_keys}')
        return False
    print(f'ok [{name}]: agents holds {keys}')
    return True


def main():
    ok = True

    # A: first child of an empty store
    ok &= run(
        'A: _add into a store that starts empty',
        {0: lambda: {'_add': [{'key': 'a1', 'state': 5}]}},
        [], 2, ['a1'])

    # control: the same _add while the store has a child works
    ok &= run(
        'control: _add into a store with one child',
        {0: lambda: {'_add': [{'key': 'a1', 'state': 5}]}},
        ['a0'], 2, ['a0', 'a1'])

    # control: delete one of two children while the update of its own
    # process follows in the same batch (it is dropped, as it should be)
    ok &= run(
        'control: _delete one of two children, its update follows',
        {0: lambda: {'_delete': ['a0']}},
        ['a0', 'b0'], 3, ['b0'], manager_first=True)

    # B0: the same with the ONLY child
    ok &= run(
        'B0: _delete the only child, its update follows in the batch',
        {0: lambda: {'_delete': ['a0']}},
        ['a0'], 3, [], manager_first=True)

    # B1: delete the only child, then add
    ok &= run(
        'B1: _delete the only child, later _add',
        {0: lambda: {'_delete': ['a0']},
         2: lambda: {'_add': [{'key': 'a1', 'state': 5}]}},
        ['a0'], 4, ['a1'])

    # B2: delete the only child, then generate a compartment
    ok &= run(
        'B2: _delete the only child, later _generate',
        {0: lambda: {'_delete': ['a0']},
         2: lambda: {'_generate': [{
             'key': 'a1',
             'processes': {'inc': Inc()},
             'topology': {'inc': {'c': ('c',)}},
             'initial_state': {'c': {'x': 10}}}]}},
        ['a0'], 4, ['a1'])

    sys.exit(0 if ok else 1)


if __name__ == '__main__':
    main()
