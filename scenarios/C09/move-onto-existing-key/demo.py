"""C09 - a _move onto a key the target already holds is not rejected.

Two compartments have the same name 'k' in two different stores:
    A/k : v = 5,  c.x = 100, only_a = 1, processes 'inc' (adds 1 to c.x), 'tag'
    B/k : v = 7,  c.x = 200,             process 'inc' (adds 10 to c.x)
A process moves A/k to B: {'A': {'_move': [{'source': ('k',), 'target': ('B',)}]}}.

Expected (property C09): 'adding an existing key is rejected' (as Store.add
does: "cannot add 'k' to the hierarchy, already present at path ..."), so the
update raises and B/k keeps its identity and values.  At the very least the
resident B/k must not be altered silently.

Observed: Store.add_node sees that the key exists and 'updates it': the VALUE
of the moved subtree is applied to the target as an UPDATE, through the
updaters - v becomes 5 + 7 = 12, c.x 100 + 200 (accumulate), the resident's
process object is replaced by the mover's ('set'), variables the resident does
not have (only_a, the process 'tag') vanish - and then the source is deleted.
The store operation itself raises nothing; here Engine.apply_update fails
afterwards ("('tag',) is not a valid path from ('B', 'k')") because the moved
process 'tag' it was told about exists nowhere; without such an extra process
(A/k holding only 'inc') the run continues silently with the merged B/k.
"""
import sys

from vivarium.core.engine import Engine
from vivarium.core.process import Process


class Inc(Process):
    defaults = {'by': 1}

    def ports_schema(self):
        return {'c': {'x': {'_default': 0}}}

    def next_update(self, timestep, states):
        return {'c': {'x': self.parameters['by']}}


class Tag(Process):
    """Declares a variable that only the A compartment has."""

    def ports_schema(self):
        return {'only_a': {'_default': 1}}

    def next_update(self, timestep, states):
        return {}


class Mover(Process):
    def ports_schema(self):
        location = {'*': {'v': {'_default': 0}}}
        return {'A': location, 'B': location, 'tick': {'_default': 0}}

    def next_update(self, timestep, states):
        update = {'tick': 1}
        if states['tick'] == 1:
            update['A'] = {
                '_move': [{'source': ('k',), 'target': ('B',)}]}
        return update


def main():
    inc_a = Inc({'by': 1})
    inc_b = Inc({'by': 10})
    engine = Engine(
        processes={
            'A': {'k': {'inc': inc_a, 'tag': Tag()}},
            'B': {'k': {'inc': inc_b}},
            'mover': Mover()},
        topology={
            'A': {'k': {
                'inc': {'c': ('c',)},
                'tag': {'only_a': ('only_a',)}}},
            'B': {'k': {'inc': {'c': ('c',)}}},
            'mover': {'A': ('A',), 'B': ('B',), 'tick': ('tick',)}},
        initial_state={
            'A': {'k': {'v': 5, 'c': {'x': 100}}},
            'B': {'k': {'v': 7, 'c': {'x': 200}}}},
        progress_bar=False, display_info=False)

    engine.update(1)  # tick 0: nothing structural
    resident = engine.state.get_path(('B', 'k'))
    before = engine.state.get_value()
    print('before: A/k v=%s c.x=%s | B/k v=%s c.x=%s' % (
        before['A']['k']['v'], before['A']['k']['c']['x'],
        before['B']['k']['v'], before['B']['k']['c']['x']))

    raised = None
    try:
        engine.update(1)  # tick 1: the move
    except Exception as e:  # pylint: disable=broad-except
        raised = e

    after = engine.state.get_value()
    b_k = after['B']['k']
    if raised is not None:
        # a rejection must leave both compartments as they were
        if 'k' in after['A'] and b_k['v'] == 7 and \
                engine.state.get_path(('B', 'k', 'inc')).value is inc_b:
            print(f'ok: the move onto an existing key was rejected: {raised}')
            sys.exit(0)
        print(f'Engine.update raised ({raised}) but only after the '
              'hierarchy had been altered')
    print('after : A =', {k: '...' for k in after['A']},
          '| B/k v=%s c.x=%s keys=%s' % (
              b_k['v'], b_k['c']['x'], sorted(b_k)))

    problems = ['the _move onto the existing key B/k was not rejected']
    # the resident compartment, had it been left alone:
    # v = 7, c.x = 200 + 10 (tick 0) + 10 (tick 1) = 220, process inc_b
    if b_k['v'] != 7:
        problems.append(
            f"B/k/v changed from 7 to {b_k['v']} (5 of A/k was ADDED to it)")
    if b_k['c']['x'] != 220:
        problems.append(
            f"B/k/c/x is {b_k['c']['x']}, the resident alone would be at 220 "
            '(the mover\'s 101/102 was accumulated into it)')
    if engine.state.get_path(('B', 'k', 'inc')).value is not inc_b:
        problems.append(
            "the resident's process B/k/inc was replaced by the process of "
            'the moved compartment')
    if 'only_a' not in b_k:
        problems.append(
            "the moved compartment's variable 'only_a' exists nowhere any "
            "more: the source was deleted, so the moved subtree is neither "
            'at the source nor (intact) at the target')
    if engine.state.get_path(('B', 'k')) is not resident:
        problems.append('B/k is a different node now')

    print('VIOLATION:')
    for problem in problems:
        print('  -', problem)
    sys.exit(1)


if __name__ == '__main__':
    main()
