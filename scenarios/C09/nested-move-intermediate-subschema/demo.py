"""C09: a _move "detaches the source subtree and attaches it ... under the
target", and - as for a child that enters by _add or _generate - what enters a
store gets what that store declares for its children (fix 3d41c23 did this for
a moved node).

Store.move accepts a nested path as the source (fix 806f72d): the subtree
A/c01/cnt moved to target B is attached at B/c01/cnt, i.e. a NEW child 'c01'
is created in B.  B is a glob store whose children are declared to hold a
variable 'w' (default 3).  Expected: after the move B/c01 exists with w = 3
(like every other way of getting a new child into B) and the simulation goes
on.  Observed: B/c01 is created bare, and the next rebuild of the views
raises "('w',) is not a valid path from ('B', 'c01')" out of Engine.update.
"""
import sys
import traceback
from vivarium.core.process import Process
from vivarium.core.engine import Engine


class Declare(Process):
    """Declares the content of A/c01 through an output-only port."""

    def ports_schema(self):
        return {'zone': {
            '_output': True,
            'c01': {
                'cnt': {'v': {'_default': 5}},
                'other': {'v': {'_default': 6}}}}}

    def next_update(self, timestep, states):
        return {}


class Mover(Process):
    defaults = {'script': {}}

    def ports_schema(self):
        return {
            'A': {'*': {}},
            'B': {'*': {'w': {'_default': 3}}}}

    def next_update(self, timestep, states):
        self.calls = getattr(self, 'calls', 0) + 1
        return self.parameters['script'].get(self.calls, {})


def build(script):
    return Engine(
        processes={
            'mover': Mover({'script': script}),
            'declare': Declare()},
        topology={
            'mover': {'A': ('A',), 'B': ('B',)},
            'declare': {'zone': ('A',)}},
        initial_state={'B': {'c02': {'w': 4}}},
        display_info=False)


def zones(engine):
    value = engine.state.get_value()
    return {'A': value['A'], 'B': value['B']}


failures = []

# control: a whole child of A moved into B gets B's sub-schema
engine = build({1: {'A': {'_move': [{'source': 'c01', 'target': 'B'}]}}})
engine.update(2)
control = zones(engine)
print('control, source c01        :', control)
if control['B'].get('c01', {}).get('w') != 3:
    failures.append(f'control: {control}')

# the nested source
engine = build(
    {1: {'A': {'_move': [{'source': ('c01', 'cnt'), 'target': 'B'}]}}})
try:
    engine.update(1)
    print("nested source ('c01','cnt') :", zones(engine))
    engine.update(1)
except Exception as error:  # pylint: disable=broad-except
    traceback.print_exc()
    failures.append(
        f'Engine.update raised {type(error).__name__}: {error}')
after = zones(engine)
expected = {
    'A': {'c01': {'other': {'v': 6}}},
    'B': {'c02': {'w': 4}, 'c01': {'cnt': {'v': 5}, 'w': 3}}}
if after != expected:
    failures.append(f'hierarchy after the move: {after}, expected {expected}')

if failures:
    print('PROPERTY VIOLATED:')
    for failure in failures:
        print('  -', failure)
    sys.exit(1)
print('property holds')
sys.exit(0)
