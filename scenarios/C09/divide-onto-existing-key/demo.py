"""C09: "a _divide replaces the mother by exactly the listed daughters ... In
every case all other nodes keep their identity and values, adding an existing
key is rejected".

Store A holds the mother 'm' and an unrelated sibling 'y' (its own process,
its own values).  A _divide of 'm' lists the daughters 'y' and 'z' - the key
of the first daughter is already taken.  Store.add rejects such a key for
_add ("cannot add 'y' to the hierarchy, already present").  Expected here:
the update is rejected as well (or, at the very least, the sibling 'y' is
left alone).  Observed: no error; the daughter is generated INTO the sibling:
y's process node is replaced, y's values are overwritten with the mother's
divided state, and the engine drops y's process for the daughter's.
"""
import sys
from vivarium.core.process import Process
from vivarium.core.engine import Engine


class Cell(Process):
    defaults = {'inc': 1}

    def ports_schema(self):
        return {'s': {
            'q': {'_default': 0, '_divider': 'split'},
            'name': {'_default': '', '_updater': 'set'}}}

    def next_update(self, timestep, states):
        return {'s': {'q': self.parameters['inc']}}


class Control(Process):
    defaults = {'script': {}}

    def ports_schema(self):
        return {'A': {'*': {}}}

    def next_update(self, timestep, states):
        self.calls = getattr(self, 'calls', 0) + 1
        return self.parameters['script'].get(self.calls, {})


def daughter(key, inc):
    return {
        'key': key,
        'processes': {'cell': Cell({'inc': inc})},
        'topology': {'cell': {'s': ('s',)}}}


script = {2: {'A': {'_divide': {
    'mother': 'm',
    'daughters': [daughter('y', 10), daughter('z', 100)]}}}}

sibling_process = Cell({'inc': 0})
engine = Engine(
    processes={
        'control': Control({'script': script}),
        'A': {
            'm': {'cell': Cell({'inc': 0})},
            'y': {'cell': sibling_process}}},
    topology={
        'control': {'A': ('A',)},
        'A': {
            'm': {'cell': {'s': ('s',)}},
            'y': {'cell': {'s': ('s',)}}}},
    initial_state={'A': {
        'm': {'s': {'q': 100, 'name': 'mother'}},
        'y': {'s': {'q': 7, 'name': 'sibling'}}}},
    display_info=False)

engine.update(1)
sibling_node = engine.state.get_path(('A', 'y', 's', 'q'))
before = engine.state.get_value()['A']['y']['s']
print('before the division: A/y/s =', before)

try:
    engine.update(1)
except Exception as error:  # pylint: disable=broad-except
    print('the division was rejected:', error)
    print('property holds')
    sys.exit(0)

failures = [
    "a _divide whose daughter key 'y' is already present in the store was "
    "not rejected"]
after = engine.state.get_value()['A']
print('after the division : A =', {
    key: value['s'] for key, value in after.items()})
if after['y']['s'] != before:
    failures.append(
        f"the sibling's values changed: A/y/s was {before}, is "
        f"{after['y']['s']}")
if engine.state.get_path(('A', 'y', 'cell')).value is not sibling_process:
    failures.append("the sibling's process node A/y/cell was replaced")
if engine.process_paths.get(('A', 'y', 'cell')) is not sibling_process:
    failures.append(
        "the engine no longer runs the sibling's process at A/y/cell")
if engine.state.get_path(('A', 'y', 's', 'q')) is not sibling_node:
    failures.append('the node A/y/s/q lost its identity')

print('PROPERTY VIOLATED:')
for failure in failures:
    print('  -', failure)
sys.exit(1)
