"""C09 - a _move does not give the moved child the sub-schema declared on
the target store, so the engine cannot go on after a legal move.

Store 'B' is a glob store for which a process ('watch') declares
{'*': {'w': {'_default': 3}}}: every child of B has a variable 'w'.
Store 'A' holds a child 'k' (no 'w').  A mover moves k from A to B.

Expected: after the move B holds j and k, A is empty, k kept its own values
(v == 5), every child of B satisfies the schema declared on B (k/w exists with
its default 3, exactly as for a child that enters B through _add, _generate or
_divide, which all call _apply_subschema_path for the new key), and the
simulation continues.

Observed: Store.move attaches the node with add_node and never applies the
target's sub-schema; the next build_topology_views (run by the engine because
the move expired the views) raises "('w',) is not a valid path from
('B', 'k')" out of Engine.update.
"""
import sys
import traceback

from vivarium.core.engine import Engine
from vivarium.core.process import Process


class Watch(Process):
    """Owns a variable 'w' in every child of B."""

    def ports_schema(self):
        return {
            'B': {'*': {'w': {'_default': 3}}},
            'total': {'_default': 0, '_updater': 'set'}}

    def next_update(self, timestep, states):
        return {'total': sum(child['w'] for child in states['B'].values())}


class Manager(Process):
    defaults = {'how': 'move'}

    def ports_schema(self):
        location = {'*': {'v': {'_default': 0}}}
        return {'A': location, 'B': location, 'tick': {'_default': 0}}

    def next_update(self, timestep, states):
        update = {'tick': 1}
        if states['tick'] == 1:
            if self.parameters['how'] == 'move':
                update['A'] = {
                    '_move': [{'source': ('k',), 'target': ('B',)}]}
            else:
                # control: the same child enters B through _add
                update['A'] = {'_delete': ['k']}
                update['B'] = {'_add': [{'key': 'k', 'state': {'v': 5}}]}
        return update


def run(how):
    engine = Engine(
        processes={'manager': Manager({'how': how}), 'watch': Watch()},
        topology={
            'manager': {'A': ('A',), 'B': ('B',), 'tick': ('tick',)},
            'watch': {'B': ('B',), 'total': ('total',)}},
        initial_state={
            'A': {'k': {'v': 5}, 'other': {'v': 1}},
            'B': {'j': {'v': 7}}},
        progress_bar=False, display_info=False)
    try:
        engine.update(4)
    except Exception as e:  # pylint: disable=broad-except
        traceback.print_exc()
        state = engine.state.get_value()
        print(f'[{how}] Engine.update raised: {e}')
        print(f'[{how}] hierarchy at that point: A={state["A"]} '
              f'B={state["B"]}')
        return False
    state = engine.state.get_value()
    print(f'[{how}] A={state["A"]} B={state["B"]} total={state["total"]}')
    return (
        state['B'] == {'j': {'v': 7, 'w': 3}, 'k': {'v': 5, 'w': 3}}
        and state['A'] == {'other': {'v': 1}}
        and state['total'] == 6)


def main():
    control = run('add')
    if not control:
        print('unexpected: the _add control failed')
    moved = run('move')
    if control and moved:
        print('ok')
        sys.exit(0)
    print('VIOLATION: the _move was applied to the store but left B/k '
          "without the variable 'w' that B's sub-schema declares for every "
          'child; the engine cannot rebuild its views and the run aborts '
          '(the _add control passes).')
    sys.exit(1)


if __name__ == '__main__':
    main()
