"""A None that is given deliberately - by a divider for one daughter, or in the
state of an '_add' - must survive; the declared default is for variables the
state does not spell out.
Exit 0 when the None values are kept, 1 when the default replaced them.
"""
import sys

from vivarium.core.engine import Engine
from vivarium.core.process import Process


def first_daughter_inherits(value, **_):
    # the plasmid is not copied: one daughter keeps it, the other has none
    return [value, None]


INTERNAL = {
    'plasmid': {
        '_default': 'wildtype',
        '_updater': 'set',
        '_divider': first_daughter_inherits},
    'mass': {'_default': 1.0, '_divider': 'split'}}


class Cell(Process):
    def ports_schema(self):
        return {'internal': INTERNAL}

    def next_update(self, timestep, states):
        return {}


class Manager(Process):
    def ports_schema(self):
        return {'agents': {'*': {'internal': INTERNAL}}}

    def next_update(self, timestep, states):
        agents = states['agents']
        if 'mother' in agents:
            return {'agents': {'_divide': {
                'mother': 'mother',
                'daughters': [
                    {'key': key,
                     'processes': {'cell': Cell()},
                     'topology': {'cell': {'internal': ('internal',)}},
                     'initial_state': {}}
                    for key in ('d1', 'd2')]}}}
        if 'cured' not in agents:
            return {'agents': {'_add': [{
                'key': 'cured',
                'state': {'internal': {'plasmid': None, 'mass': 3.0}}}]}}
        return {}


engine = Engine(
    processes={
        'manager': Manager(),
        'agents': {'mother': {'cell': Cell()}}},
    topology={
        'manager': {'agents': ('agents',)},
        'agents': {'mother': {'cell': {'internal': ('internal',)}}}},
    initial_state={
        'agents': {'mother': {'internal': {'plasmid': 'pUC19', 'mass': 2.0}}}},
    progress_bar=False)
engine.update(1)
engine.update(1)
agents = engine.state.get_value(
    condition=lambda s: not isinstance(s.value, Process))['agents']
for key, value in sorted(agents.items()):
    print(key, value)

ok = (
    agents['d1']['internal'] == {'plasmid': 'pUC19', 'mass': 1.0}
    and agents['d2']['internal'] == {'plasmid': None, 'mass': 1.0}
    and agents['cured']['internal'] == {'plasmid': None, 'mass': 3.0})
print('ok' if ok else 'WRONG: a given None was replaced by the default')
sys.exit(0 if ok else 1)
