"""C09: an _add (and a _generate / _divide under a glob store) must create the
child "with the declared sub-schema and the given state".

The store 'agents' is declared as
    {'*': {'m': default 7, 'parts': {'*': {'a': default 1, 'b': default 2}}}}
i.e. every agent holds a glob store 'parts' whose children have two variables.
An agent is added with a state that names one part and gives only its 'a'.
Expected: the part is created with a = given value and b = its declared
default 2 - exactly what the same state gives when it is the INITIAL state of
the engine (agent 'y' below).  Observed: b is None.
"""
import sys
from vivarium.core.process import Process
from vivarium.core.engine import Engine


class Cell(Process):
    def ports_schema(self):
        return {'s': {'q': {'_default': 0}}}

    def next_update(self, timestep, states):
        return {}


class Adder(Process):
    defaults = {'script': {}}

    def ports_schema(self):
        return {'agents': {'*': {
            'm': {'_default': 7},
            'parts': {'*': {
                'a': {'_default': 1},
                'b': {'_default': 2}}}}}}

    def next_update(self, timestep, states):
        self.calls = getattr(self, 'calls', 0) + 1
        return {'agents': self.parameters['script'].get(self.calls, {})}


script = {
    1: {'_add': [{
        'key': 'x',
        'state': {'parts': {'p1': {'a': 10}}}}]},
    2: {'_generate': [{
        'key': 'g',
        'processes': {'cell': Cell()},
        'topology': {'cell': {'s': ('s',)}},
        'initial_state': {'parts': {'p2': {'a': 20}}}}]},
}
engine = Engine(
    processes={'adder': Adder({'script': script})},
    topology={'adder': {'agents': ('agents',)}},
    initial_state={'agents': {'y': {'parts': {'p0': {'a': 5}}}}},
    display_info=False)

failures = []
agents = engine.state.get_value()['agents']
if agents['y']['parts']['p0'] != {'a': 5, 'b': 2}:
    failures.append(f"construction: y/parts/p0 = {agents['y']['parts']['p0']}")

engine.update(1)
agents = engine.state.get_value()['agents']
got = agents['x']['parts']['p1']
print('after _add      : agents/x =', agents['x'])
if got != {'a': 10, 'b': 2}:
    failures.append(
        f"_add: agents/x/parts/p1 = {got}, expected {{'a': 10, 'b': 2}} "
        "(b must start from its declared default)")

engine.update(1)
agents = engine.state.get_value()['agents']
got = agents['g']['parts']['p2']
print('after _generate : agents/g/parts =', agents['g']['parts'])
if got != {'a': 20, 'b': 2}:
    failures.append(
        f"_generate: agents/g/parts/p2 = {got}, expected {{'a': 20, 'b': 2}}")

# the frame: the agent that was there from the start is untouched
if agents['y'] != {'parts': {'p0': {'a': 5, 'b': 2}}, 'm': 7}:
    failures.append(f"agents/y changed: {agents['y']}")

if failures:
    print('PROPERTY VIOLATED:')
    for failure in failures:
        print('  -', failure)
    sys.exit(1)
print('property holds')
sys.exit(0)
