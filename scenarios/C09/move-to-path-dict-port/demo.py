"""C09: a _move "detaches the source subtree and attaches it ... under the
target".  The target is named by a port of the moving process.

The mover has two glob ports, A and B.  Port B is wired with the dictionary
form of a topology ({'_path': ('B',), '*': {'v': ('v',)}}), port A with a
plain tuple path.  Everything else works through the dictionary-wired port
(views, value updates, _add, _delete, and a _move whose SOURCE is in B), but a
_move whose TARGET is port B raises TypeError out of Engine.update.

Expected: after {'A': {'_move': [{'source': 'x', 'target': 'B'}]}} the
hierarchy is A = {}, B = {'y': {'v': 9}, 'x': {'v': 5}}.
"""
import sys
import traceback
from vivarium.core.process import Process
from vivarium.core.engine import Engine


class Mover(Process):
    defaults = {'script': {}}

    def ports_schema(self):
        return {
            'A': {'*': {'v': {'_default': 1}}},
            'B': {'*': {'v': {'_default': 1}}}}

    def next_update(self, timestep, states):
        self.calls = getattr(self, 'calls', 0) + 1
        return self.parameters['script'].get(self.calls, {})


def build(script, b_wiring):
    return Engine(
        processes={'mover': Mover({'script': script})},
        topology={'mover': {'A': ('A',), 'B': b_wiring}},
        initial_state={'A': {'x': {'v': 5}}, 'B': {'y': {'v': 9}}},
        display_info=False)


def zones(engine):
    value = engine.state.get_value()
    return {'A': value['A'] or {}, 'B': value['B'] or {}}


DICT_WIRING = {'_path': ('B',), '*': {'v': ('v',)}}
failures = []

# (0) control: the same move with B wired by a tuple path
engine = build({1: {'A': {'_move': [{'source': 'x', 'target': 'B'}]}}}, ('B',))
engine.update(1)
expected = {'A': {}, 'B': {'y': {'v': 9}, 'x': {'v': 5}}}
if zones(engine) != expected:
    failures.append(f'control (tuple wiring): {zones(engine)}')

# (1) control: the dictionary-wired port is fully usable otherwise,
#     including as the SOURCE side of a _move
engine = build({
    1: {'B': {'_add': [{'key': 'n', 'state': {'v': 3}}], 'y': {'v': 1}}},
    2: {'B': {'_move': [{'source': 'y', 'target': 'A'}]}},
    3: {'B': {'_delete': ['n']}}}, DICT_WIRING)
engine.update(3)
if zones(engine) != {'A': {'x': {'v': 5}, 'y': {'v': 10}}, 'B': {}}:
    failures.append(f'control (dict wiring, other operations): {zones(engine)}')
else:
    print('dictionary-wired port B: views, updates, _add, _delete and a '
          '_move out of B all work')

# (2) the move INTO the dictionary-wired port
engine = build(
    {1: {'A': {'_move': [{'source': 'x', 'target': 'B'}]}}}, DICT_WIRING)
try:
    engine.update(1)
except Exception as error:  # pylint: disable=broad-except
    traceback.print_exc()
    failures.append(
        f'_move with target port B (dictionary wiring) raised '
        f'{type(error).__name__}: {error}; hierarchy now {zones(engine)}')
else:
    print('after the move:', zones(engine))
    if zones(engine) != expected:
        failures.append(f'after the move: {zones(engine)}, expected {expected}')

if failures:
    print('PROPERTY VIOLATED:')
    for failure in failures:
        print('  -', failure)
    sys.exit(1)
print('property holds')
sys.exit(0)
