"""C09 - a _generate must insert the given initial state under the given key.

The store 'agents' is a glob store: the environment process declares
{'agents': {'*': {'location': {...}}}}, i.e. every agent has a 'location'
variable that belongs to the environment (no process inside the agent declares
it).  A new agent is generated at run time with
    'initial_state': {'location': [5, 5], 'c': {'x': 40}}.

Expected: the new compartment holds location == [5, 5] and c.x == 40, exactly
as an agent present at construction keeps the location of the initial state,
as an _add keeps its 'state', and as a daughter of a _divide keeps its
'initial_state' for the same variable.

Observed on the tree: Store.insert calls Store.generate (which applies the
initial state with set_value while 'location' does not exist yet under the new
key - set_value ignores unknown keys) and only AFTERWARDS applies the parent's
sub-schema (_apply_subschema_path) and the defaults, so 'location' is created
with its default [0, 0]: the given initial state is silently lost.
"""
import sys

from vivarium.core.engine import Engine
from vivarium.core.process import Process


class Inc(Process):
    def ports_schema(self):
        return {'c': {'x': {'_default': 0}}}

    def next_update(self, timestep, states):
        return {'c': {'x': 1}}


class Environment(Process):
    """Owns the 'location' of every agent; scripts the structural updates."""

    def ports_schema(self):
        return {
            'agents': {
                '*': {
                    'location': {
                        '_default': [0, 0],
                        '_updater': 'set'}}},
            'tick': {'_default': 0}}

    def next_update(self, timestep, states):
        update = {'tick': 1}
        if states['tick'] == 1:
            update['agents'] = {
                '_generate': [{
                    'key': 'generated',
                    'processes': {'inc': Inc()},
                    'topology': {'inc': {'c': ('c',)}},
                    'initial_state': {
                        'location': [5, 5],
                        'c': {'x': 40}}}],
                '_add': [{
                    'key': 'added',
                    'state': {'location': [7, 7]}}]}
        if states['tick'] == 2:
            update['agents'] = {
                '_divide': {
                    'mother': 'old',
                    'daughters': [
                        {'key': 'd1',
                         'initial_state': {'location': [8, 8]}},
                        {'key': 'd2',
                         'initial_state': {'location': [9, 9]}}]}}
        return update


def main():
    engine = Engine(
        # agents first: their updates are applied (and their commands
        # completed) before the environment's structural update
        processes={
            'agents': {'old': {'inc': Inc()}},
            'environment': Environment()},
        topology={
            'agents': {'old': {'inc': {'c': ('c',)}}},
            'environment': {'agents': ('agents',), 'tick': ('tick',)}},
        initial_state={
            'agents': {'old': {'location': [3, 3], 'c': {'x': 20}}}},
        progress_bar=False, display_info=False)

    agents = engine.state.get_value()['agents']
    assert agents['old']['location'] == [3, 3]  # construction keeps it

    engine.update(2)   # tick 1: _generate and _add
    agents = engine.state.get_value()['agents']
    print('after _generate/_add :',
          {k: v.get('location') for k, v in agents.items()},
          'generated c.x =', agents['generated']['c']['x'])
    engine.update(1)   # tick 2: _divide
    agents = engine.state.get_value()['agents']
    print('after _divide        :',
          {k: v.get('location') for k, v in agents.items()})

    problems = []
    expected = {
        'generated': [5, 5],   # _generate 'initial_state'
        'added': [7, 7],       # _add 'state'
        'd1': [8, 8],          # _divide daughter 'initial_state'
        'd2': [9, 9]}
    for key, location in expected.items():
        if agents[key]['location'] != location:
            problems.append(
                f"agents/{key}/location is {agents[key]['location']}, "
                f"the structural update gave {location}")
    if agents['generated']['c']['x'] != 41:
        problems.append(
            f"agents/generated/c/x is {agents['generated']['c']['x']}, "
            'expected 40 + 1 increment = 41')

    if problems:
        print('VIOLATION: the initial state given to _generate was not '
              'inserted under the key:')
        for problem in problems:
            print('  -', problem)
        sys.exit(1)
    print('ok: every structural update kept the state it was given')
    sys.exit(0)


if __name__ == '__main__':
    main()
