"""C19: after a division in which the daughters inherit the mother's
processes, every event that had already fired in the mother fires again in
each daughter.

Store.divide copies the mother's processes with copy.deepcopy (the copy of
the TimelineProcess carries the consumed event list and the daughters get the
mother's clock through the default 'set' divider), but Store.generate ->
_generate_paths then calls get_schema() -> ports_schema() ->
initialize_timeline(), which throws the copied list away and re-arms the full
timeline.  The clock is past the old events, so they fire once more at the
daughters' first tick.

Expected: the event at t=1 (x := 100) acts once on this lineage; x is drained
by 10 per second, division at t=4 hands x to both daughters ('set' divider),
and the daughters carry on draining: 60, 50, 40, 30, 20.
Observed on the unchanged tree: the daughters' x is set to 100 again at their
first tick (60, 90, 80, 70, 60).
"""
import sys

from vivarium.core.engine import Engine
from vivarium.core.process import Process
from vivarium.processes.timeline import TimelineProcess


class Drain(Process):
    def ports_schema(self):
        return {'state': {'x': {
            '_default': 0, '_emit': True, '_divider': 'set'}}}

    def next_update(self, timestep, states):
        return {'state': {'x': -10 * timestep}}


class DivideAtFour(Process):
    """Divides agent 'a' when the agent's clock shows 4; the daughters name
    no processes, so they inherit the mother's (documented behaviour of
    _divide)."""
    def ports_schema(self):
        return {'global': {'time': {'_default': 0}}, 'agents': {}}

    def next_update(self, timestep, states):
        if states['global']['time'] == 4 and not self.parameters.get('done'):
            self.parameters['done'] = True
            return {'agents': {'_divide': {
                'mother': 'a',
                'daughters': [{'key': 'a0'}, {'key': 'a1'}]}}}
        return {}


def main():
    timeline = [(1, {('state', 'x'): 100}), (50, {('state', 'x'): 0})]
    processes = {'agents': {'a': {
        'timeline': TimelineProcess({'timeline': timeline}),
        'drain': Drain(),
        'divide': DivideAtFour()}}}
    topology = {'agents': {'a': {
        'timeline': {'global': ('global',), 'state': ('state',)},
        'drain': {'state': ('state',)},
        'divide': {'global': ('global',), 'agents': ('..',)}}}}
    engine = Engine(
        processes=processes, topology=topology,
        progress_bar=False, display_info=False)
    engine.update(9)
    data = engine.emitter.get_data()

    rows = {
        t: {k: v['state']['x'] for k, v in data[t]['agents'].items()}
        for t in sorted(data)}
    for t, row in rows.items():
        print(t, row)

    failures = []
    mother = [rows[t].get('a') for t in (0, 1.0, 2.0, 3.0, 4.0)]
    if mother != [0, -10, 90, 80, 70]:
        failures.append('mother trajectory is wrong: %r' % (mother,))
    expected = [60, 50, 40, 30, 20]
    for key in ('a0', 'a1'):
        got = [rows[t].get(key) for t in (5.0, 6.0, 7.0, 8.0, 9.0)]
        if got != expected:
            failures.append(
                'daughter %s: expected %r, got %r (the event at t=1 was '
                'applied again after the division)' % (key, expected, got))
    if failures:
        print('PROPERTY VIOLATED:')
        for failure in failures:
            print(' -', failure)
        return 1
    print('property holds')
    return 0


if __name__ == '__main__':
    sys.exit(main())
