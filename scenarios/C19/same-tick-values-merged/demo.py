"""C19: two timeline events that fall due in the same tick and give the same
variable a list (or dict) value.

Each event must SET its variables to the given values, in time order, however
many events fall due in one tick.  So after the events at t=1 and t=2 have both
fired, the variable must hold the value given by the event at t=2.

Expected: triggers == ['c'] and conf == {'b': 2} once both events have fired,
and the timeline handed to the process is left as the user wrote it.
Observed on the unchanged tree: triggers == ['a', 'b', 'c'], conf == {'a': 1,
'b': 2} (the values of the two events are merged by
deep_merge_combine_lists), and the user's own timeline list is modified.
"""
import copy
import sys

from vivarium.core.engine import Engine
from vivarium.core.process import Process
from vivarium.processes.timeline import TimelineProcess


class Holder(Process):
    """Declares the variables the timeline drives."""
    def ports_schema(self):
        return {'env': {
            'triggers': {'_default': [], '_updater': 'set', '_emit': True},
            'conf': {'_default': {}, '_updater': 'set', '_emit': True}}}

    def next_update(self, timestep, states):
        return {}


def run(timeline, time_step, total):
    process = TimelineProcess({'timeline': timeline, 'time_step': time_step})
    engine = Engine(
        processes={'timeline': process, 'holder': Holder({'time_step': time_step})},
        topology={
            'timeline': {'global': ('global',), 'env': ('env',)},
            'holder': {'env': ('env',)}},
        progress_bar=False, display_info=False)
    engine.update(total)
    data = engine.emitter.get_data()
    return data[max(data)]['env']


def main():
    timeline = [
        (1, {('env', 'triggers'): ['a', 'b'], ('env', 'conf'): {'a': 1}}),
        (2, {('env', 'triggers'): ['c'], ('env', 'conf'): {'b': 2}}),
    ]
    pristine = copy.deepcopy(timeline)
    failures = []

    # reference: one event per tick (time step 1): sequential application
    reference = run(copy.deepcopy(timeline), 1.0, 10)
    print('time step 1 (one event per tick):', reference)
    if reference != {'triggers': ['c'], 'conf': {'b': 2}}:
        failures.append('reference run is wrong: %r' % (reference,))

    # both events fall due in the tick at clock 5
    final = run(timeline, 5.0, 10)
    print('time step 5 (both events in one tick):', final)
    if final['triggers'] != ['c']:
        failures.append(
            "triggers should be ['c'] (value of the event at t=2), got %r"
            % (final['triggers'],))
    if final['conf'] != {'b': 2}:
        failures.append(
            "conf should be {'b': 2} (value of the event at t=2), got %r"
            % (final['conf'],))
    if timeline != pristine:
        failures.append(
            'the timeline given by the caller was modified: %r' % (timeline,))

    if failures:
        print('PROPERTY VIOLATED:')
        for failure in failures:
            print(' -', failure)
        return 1
    print('property holds')
    return 0


if __name__ == '__main__':
    sys.exit(main())
