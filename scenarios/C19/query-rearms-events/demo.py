"""C19: an event that has already fired fires again after a read-only query
of the timeline process (ports(), default_state(), get_schema(),
Composite.default_state() ...).

TimelineProcess.ports_schema() calls initialize_timeline(), which rebuilds
self.timeline from the parameters.  Every public query that goes through
ports_schema() therefore re-arms the events that were already consumed; as
the clock is past them they all fire again at the next tick.

Expected: the event at t=1 sets x to 100 exactly once; afterwards x only
goes down by 1 per second (the Drain process), whatever is asked of the
process object between two engine.update() calls.
Observed on the unchanged tree: after process.ports() at t=5 the event fires a
second time and x jumps back to 100 at t=6.
"""
import sys

from vivarium.core.engine import Engine
from vivarium.core.process import Process
from vivarium.processes.timeline import TimelineProcess


class Drain(Process):
    def ports_schema(self):
        return {'env': {'x': {'_default': 0, '_emit': True}}}

    def next_update(self, timestep, states):
        return {'env': {'x': -1 * timestep}}


def run(query):
    timeline = [(1, {('env', 'x'): 100}), (50, {('env', 'x'): 0})]
    process = TimelineProcess({'timeline': timeline})
    engine = Engine(
        processes={'timeline': process, 'drain': Drain()},
        topology={
            'timeline': {'global': ('global',), 'env': ('env',)},
            'drain': {'env': ('env',)}},
        progress_bar=False, display_info=False)
    engine.update(5)
    if query:
        # a read-only question about the process's ports
        assert process.ports() == {'env': ['*'], 'global': ['time']}
    engine.update(5)
    data = engine.emitter.get_data()
    return [data[t]['env']['x'] for t in sorted(data)]


def main():
    plain = run(query=False)
    queried = run(query=True)
    print('x without the query:', plain)
    print('x with ports() at 5:', queried)
    # event at 1 fires at the tick at clock 1, visible at t=2 together with
    # the drain of that tick: 99, then one less per second
    expected = [0, -1, 99, 98, 97, 96, 95, 94, 93, 92, 91]
    failures = []
    if plain != expected:
        failures.append('plain run is wrong: %r' % (plain,))
    if queried != expected:
        rises = [
            t for t in range(3, len(queried)) if queried[t] > queried[t - 1]]
        failures.append(
            'the event at t=1 was applied a second time (x rises again at '
            't=%s): %r' % (rises, queried))
    if failures:
        print('PROPERTY VIOLATED:')
        for failure in failures:
            print(' -', failure)
        return 1
    print('property holds')
    return 0


if __name__ == '__main__':
    sys.exit(main())
