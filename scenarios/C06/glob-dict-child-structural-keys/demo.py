"""C06 - structural keys addressed to a CHILD of a glob port wired with a '*' dictionary.

A process views the agents store through the glob port 'g' ({'*': {'x': ...}}).  In its first
update it adds 1 to agent k1's 'x' and, in the same dictionary, asks for a new sub-store 'tag'
to be added INSIDE agent k1:

    {'g': {'k1': {'x': 1, '_add': [{'key': 'tag', 'state': 5}]}}}

In its second update it deletes that sub-store again ({'_delete': ['tag']}).

The port is wired once with the tuple ('ag',) and once with the equivalent dictionary
{'_path': ('ag',), '*': {'x': ('x',)}} (the form of test_environment_view_with_division).

Expected (property C06): both spellings address the same hierarchy nodes: the part of the
update returned for child k1 modifies node ('ag', 'k1'), so after step 1 ('ag','k1','tag')
exists with value 5 and after step 2 it is gone; 'x' is 2 and then 3.

Observed on the unchanged tree: with the dictionary wiring inverse_topology recurses into the
child's update with the sub-topology and keeps only the keys the sub-topology names ('x'):
the child's '_add' (and '_delete', '_generate', '_move', '_divide') is silently dropped while
the 'x' of the same dictionary is applied.  (The same keys addressed to the glob store
itself are routed since fix 4b614e7; one level further down they are still lost.)
"""
import sys
import traceback

from vivarium.core.process import Process
from vivarium.core.engine import Engine


class Dummy(Process):
    def ports_schema(self):
        return {'o': {'own': {'_default': 0}}}

    def next_update(self, timestep, states):
        return {}


class Tagger(Process):
    def __init__(self, parameters=None):
        super().__init__(parameters)
        self.calls = 0

    def ports_schema(self):
        return {'g': {'*': {'x': {'_default': 1}}}}

    def next_update(self, timestep, states):
        self.calls += 1
        assert 'k1' in states['g']
        if self.calls == 1:
            return {'g': {'k1': {
                'x': 1,
                '_add': [{'key': 'tag', 'state': 5}]}}}
        if self.calls == 2:
            return {'g': {'k1': {
                'x': 1,
                '_delete': ['tag']}}}
        return {}


def run(wiring):
    engine = Engine(
        processes={'ag': {'k1': {'d': Dummy()}}, 'tagger': Tagger()},
        topology={
            'ag': {'k1': {'d': {'o': ('o',)}}},
            'tagger': {'g': wiring}},
        progress_bar=False,
        display_info=False)
    snapshots = []
    for _ in range(2):
        engine.update(1.0)
        snapshots.append(engine.state.get_value(
            condition=lambda s: not isinstance(s.value, Process)))
    return snapshots


def check(label, wiring):
    try:
        after1, after2 = run(wiring)
    except Exception:  # pylint: disable=broad-except
        print(f'[{label}] VIOLATION: exception')
        traceback.print_exc(limit=-2)
        return False
    ok = True
    k1 = after1['ag']['k1']
    if k1.get('x') != 2:
        print(f"[{label}] after step 1 ag/k1/x is {k1.get('x')}, expected 2")
        ok = False
    if k1.get('tag') != 5:
        print(f"[{label}] after step 1 ag/k1 is {k1}: the '_add' returned "
              "for child k1 was not applied (expected 'tag': 5)")
        ok = False
    k1 = after2['ag']['k1']
    if k1.get('x') != 3 or 'tag' in k1:
        print(f"[{label}] after step 2 ag/k1 is {k1}, expected x=3 and no tag")
        ok = False
    if ok:
        print(f'[{label}] ok')
    return ok


if __name__ == '__main__':
    ok_tuple = check("g wired with ('ag',)", ('ag',))
    ok_dict = check(
        "g wired with {'_path': ('ag',), '*': {'x': ('x',)}}",
        {'_path': ('ag',), '*': {'x': ('x',)}})
    if ok_tuple and ok_dict:
        print('property holds')
        sys.exit(0)
    print('property violated')
    sys.exit(1)
