"""C06 - a `_move` whose target PORT is wired with a '_path' dictionary.

A mover process views two agents stores through glob ports 'src' and 'dst' and moves agent
'k1' from the store behind 'src' into the store behind 'dst' (the form used by the shipped
Engulf / Burst / MoveProcess: {'_move': [{'source': (key,), 'target': <port name>}]}).
Afterwards it adds 1 to the 'x' of every agent it sees through 'dst'.

The port 'dst' is wired once with the tuple path ('B',) and once with the dictionary
{'_path': ('B',), '*': {'x': ('x',)}} - two spellings of the same wiring (this dictionary
form is the one used by test_environment_view_with_division to view an agents store).

Expected (property C06): both spellings name the same hierarchy node ('B',); the move puts k1
under that node, the process then reads k1 through 'dst', and its updates land in B/k1/x.

Observed on the unchanged tree: Store.move resolves the target port with
`process_store.topology[target_port] + extended_path`, which only understands tuple paths:
with the dictionary wiring Engine.update dies with
"TypeError: unsupported operand type(s) for +: 'dict' and 'tuple'".
"""
import copy
import sys
import traceback

from vivarium.core.process import Process
from vivarium.core.engine import Engine


class Dummy(Process):
    def ports_schema(self):
        return {'o': {'own': {'_default': 0}}}

    def next_update(self, timestep, states):
        return {}


class Mover(Process):
    def __init__(self, parameters=None):
        super().__init__(parameters)
        self.seen = []

    def ports_schema(self):
        return {
            'src': {'*': {'x': {'_default': 1}}},
            'dst': {'*': {'x': {'_default': 1}}}}

    def next_update(self, timestep, states):
        self.seen.append(copy.deepcopy(states))
        if len(self.seen) == 1:
            return {'src': {'_move': [
                {'source': ('k1',), 'target': 'dst'}]}}
        return {'dst': {agent: {'x': 1} for agent in states['dst']}}


def run(dst_wiring):
    mover = Mover()
    engine = Engine(
        processes={'A': {'k1': {'d': Dummy()}}, 'mover': mover},
        topology={
            'A': {'k1': {'d': {'o': ('o',)}}},
            'mover': {'src': ('A',), 'dst': dst_wiring}},
        progress_bar=False,
        display_info=False)
    for _ in range(3):
        engine.update(1.0)
    state = engine.state.get_value(
        condition=lambda s: not isinstance(s.value, Process))
    return mover.seen, state


def check(label, dst_wiring):
    try:
        seen, state = run(dst_wiring)
    except Exception:  # pylint: disable=broad-except
        print(f'[{label}] VIOLATION: the update could not be applied:')
        traceback.print_exc(limit=-2)
        return False
    ok = True
    if state.get('A') != {}:
        print(f"[{label}] A is {state.get('A')}, expected empty")
        ok = False
    got = state.get('B', {}).get('k1', {}).get('x')
    if got != 3:
        print(f'[{label}] B/k1/x is {got}, expected 3 (1 + 1 + 1)')
        ok = False
    reads = [s['dst'].get('k1', {}).get('x') for s in seen]
    if reads != [None, 1, 2]:
        print(f'[{label}] k1.x read through dst: {reads}, '
              'expected [None, 1, 2]')
        ok = False
    if ok:
        print(f'[{label}] ok: B/k1/x = {got}, reads through dst = {reads}')
    return ok


if __name__ == '__main__':
    ok_tuple = check("dst wired with ('B',)", ('B',))
    ok_dict = check(
        "dst wired with {'_path': ('B',), '*': {'x': ('x',)}}",
        {'_path': ('B',), '*': {'x': ('x',)}})
    if ok_tuple and ok_dict:
        print('property holds')
        sys.exit(0)
    print('property violated')
    sys.exit(1)
