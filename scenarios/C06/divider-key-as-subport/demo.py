"""C06: a port reads and writes the same node for every well-formed topology,
'ports split or renamed with _path dictionaries' included.

A port schema may carry a branch-level '_divider' (Store docstring: "_divider
is not included in the schema_keys set because it can be applied to any node in
the hierarchy, not just leaves"; vivarium/composites/toys.py Proton declares
'quarks': {'_divider': 'split_dict', '*': {...}}; Store.schema_topology skips
the key explicitly).  With a tuple path such a port works.  Wired through a
'_path' dictionary the same port cannot be built: Store._topology_ports takes
'_divider' for a sub-port and hands its value to _establish_path as a config
(exactly what 53c2fd4 repaired for the '_output' flag).

The same confusion hits a '_divider' declared inside a glob sub-schema
('*': {'_divider': ..., 'x': ...}): children that come with the initial state
are fine (Store.set_value applies the sub-schema as a config) but a child
added at run time goes through _apply_subschema_path -> _topology_ports and
Engine.update raises.
"""
import sys
import traceback
from vivarium.core.process import Process
from vivarium.core.engine import Engine

problems = []


class Cell(Process):
    """port with a branch-level divider, as Proton's 'quarks' port"""
    def ports_schema(self):
        return {
            'pool': {
                '_divider': 'split_dict',
                'x': {'_default': 1},
                'y': {'_default': 10}}}

    def next_update(self, timestep, states):
        self.seen = states
        return {'pool': {'x': 1, 'y': 5}}


def run(topology):
    process = Cell()
    engine = Engine(processes={'cell': process}, topology={'cell': topology})
    engine.update(1)
    return process.seen, engine.state.get_value()


# control: tuple path
seen, state = run({'pool': ('s',)})
print('tuple path  : read', seen, '-> state', state['s'])
if seen != {'pool': {'x': 1, 'y': 10}} or state['s'] != {'x': 2, 'y': 15}:
    problems.append('control with a tuple path failed')

# the same port, variable y renamed / re-routed with a _path dictionary
try:
    seen, state = run({'pool': {'_path': ('s',), 'y': ('..', 't', 'yy')}})
    print('_path dict  : read', seen, '-> state', state)
    if seen != {'pool': {'x': 1, 'y': 10}} \
            or state['s'].get('x') != 2 or state['t'] != {'yy': 15}:
        problems.append(
            f'_path dictionary: read {seen}, state after the update {state}')
    if '_divider' in state['s'] or '_divider' in state:
        problems.append("a store named '_divider' was created")
except Exception as e:  # pylint: disable=broad-except
    traceback.print_exc()
    problems.append(
        "port with a branch-level '_divider' wired through a '_path' "
        f'dictionary could not be built: {e!r}')


class Colony(Process):
    """glob port whose children carry a divider at their root"""
    def ports_schema(self):
        return {
            'agents': {
                '*': {
                    '_divider': 'set',
                    'x': {'_default': 1}}}}

    def next_update(self, timestep, states):
        update = {name: {'x': 1} for name in states['agents']}
        if 'b' not in states['agents']:
            update['_add'] = [{'key': 'b', 'state': {'x': 100}}]
        return {'agents': update}


try:
    engine = Engine(
        processes={'colony': Colony()},
        topology={'colony': {'agents': ('agents',)}},
        initial_state={'agents': {'a': {'x': 5}}})
    engine.update(2)
    agents = engine.state.get_value()['agents']
    print('glob + _add :', agents)
    if agents != {'a': {'x': 7}, 'b': {'x': 101}}:
        problems.append(f'glob children after two steps: {agents}')
except Exception as e:  # pylint: disable=broad-except
    traceback.print_exc()
    problems.append(
        "glob sub-schema with a '_divider': adding a child at run time "
        f'raised {e!r}')

if problems:
    print('PROPERTY C06 VIOLATED:')
    for p in problems:
        print(' -', p)
    sys.exit(1)
print('ok')
sys.exit(0)
