"""C06: several port variables of one process wired to the same node -
every one of their updates must be applied.

This holds for scalar updates (fixed in 0ef3c2f) but not when the colliding
updates are dictionaries, although dictionary-valued updates for ONE variable
are ordinary:
  A. a variable that holds a dict and uses the registered 'merge' updater;
  B. the documented per-update updater override
     {'_value': v, '_updater': name} (Store.apply_update docstring).
inverse_topology cannot tell "dict = branch of the hierarchy" from
"dict = update of one leaf", so deep_merge_multi_update recurses INTO the two
leaf updates and plants '_multi_update' wrappers inside them.  Store.apply_update
only unwraps '_multi_update' at the top of a node's update, so the wrapper is
handed to the updater as data.
"""
import sys
from vivarium.core.process import Process
from vivarium.core.engine import Engine

problems = []


# ---------------------------------------------------------------- case A
class TwoPortsMerge(Process):
    def ports_schema(self):
        var = {'_default': {}, '_updater': 'merge'}
        cnt = {'_default': 0}
        return {
            'pa': {'d': dict(var), 'n': dict(cnt)},
            'pb': {'d': dict(var), 'n': dict(cnt)}}

    def next_update(self, timestep, states):
        return {
            'pa': {'d': {'k': 1}, 'n': 1},
            'pb': {'d': {'k': 2}, 'n': 2}}


engine = Engine(
    processes={'p': TwoPortsMerge()},
    topology={'p': {'pa': ('s',), 'pb': ('s',)}})
engine.update(1)
state = engine.state.get_value()['s']
print('case A, store s after one step:', state)
# control: the scalar variable n receives both updates
if state['n'] != 3:
    problems.append(f"A: control failed, n = {state['n']!r}, expected 3")
# merge({}, {'k': 1}) then merge(., {'k': 2}) (or the other order)
if state['d'] not in ({'k': 2}, {'k': 1}):
    problems.append(
        "A: variable d received neither update as returned: d = "
        f"{state['d']!r}; expected {{'k': 2}} (both merge updates applied "
        "one after the other)")


# ---------------------------------------------------------------- case B
class TwoPortsOverride(Process):
    def ports_schema(self):
        return {
            'pa': {'x': {'_default': 0, '_updater': 'set'}},
            'pb': {'x': {'_default': 0, '_updater': 'set'}}}

    def next_update(self, timestep, states):
        return {
            'pa': {'x': {'_value': 5, '_updater': 'accumulate'}},
            'pb': {'x': {'_value': 7, '_updater': 'accumulate'}}}


# one port alone: the documented override works
single = Engine(
    processes={'p': TwoPortsOverride()},
    topology={'p': {'pa': ('s',), 'pb': ('t',)}})
single.update(1)
print('case B control (ports on different stores):',
      single.state.get_value()['s'], single.state.get_value()['t'])
if single.state.get_value()['s']['x'] != 5 \
        or single.state.get_value()['t']['x'] != 7:
    problems.append('B: control failed')

try:
    engine = Engine(
        processes={'p': TwoPortsOverride()},
        topology={'p': {'pa': ('s',), 'pb': ('s',)}})
    engine.update(1)
    x = engine.state.get_value()['s']['x']
    print('case B, s/x after one step:', x)
    if x != 12:
        problems.append(f'B: s/x = {x!r}, expected 0 + 5 + 7 = 12')
except Exception as e:  # pylint: disable=broad-except
    problems.append(
        'B: two ports on one variable, both using the documented '
        f"{{'_value', '_updater'}} update form, raised: {e!r}"[:400])

if problems:
    print('PROPERTY C06 VIOLATED:')
    for p in problems:
        print(' -', p)
    sys.exit(1)
print('ok')
sys.exit(0)
