"""C06 - glob port whose '*' sub-topology wires a sub-variable of every child to ONE
shared node above the children ('..' segments), process declared BEFORE the children.

Every agent's 'env' sub-variable is wired to the single store variable ('env', 'conc');
every agent's 'local' sub-variable stays inside the agent.  The topology is the same in
both runs below; only the listing order of the processes dictionary differs.

Expected (property C06): the engine can be built for this well-formed topology, the process
reads ('env','conc') as the 'env' of every agent, and every one of the per-agent updates of
'env' is applied to that one node (2 agents x +10 per step), whatever the listing order.

Observed on the unchanged tree: with the glob process listed before the agents' compartments
Store._apply_subschemas raises "RuntimeError: dictionary changed size during iteration" out
of Engine.__init__; with the agents listed first the very same topology works.
"""
import copy
import sys
import traceback

from vivarium.core.process import Process
from vivarium.core.engine import Engine


class Dummy(Process):
    """lives inside an agent, so that the agent exists through the processes dict"""
    def ports_schema(self):
        return {'o': {'own': {'_default': 0}}}

    def next_update(self, timestep, states):
        return {}


class Field(Process):
    def __init__(self, parameters=None):
        super().__init__(parameters)
        self.seen = []

    def ports_schema(self):
        return {'g': {'*': {
            'local': {'_default': 0},
            'env': {'_default': 100}}}}

    def next_update(self, timestep, states):
        self.seen.append(copy.deepcopy(states))
        return {'g': {
            agent: {'local': 1, 'env': 10}
            for agent in states['g']}}


TOPOLOGY = {
    'field': {
        'g': {
            '_path': ('agents',),
            '*': {
                'local': ('local',),
                # relative to each agent ('agents', k): up to the root
                'env': ('..', '..', 'env', 'conc')}}},
    'agents': {
        'k1': {'d': {'o': ('o',)}},
        'k2': {'d': {'o': ('o',)}}}}


def run(field_first):
    field = Field()
    agents = {'k1': {'d': Dummy()}, 'k2': {'d': Dummy()}}
    if field_first:
        processes = {'field': field, 'agents': agents}
    else:
        processes = {'agents': agents, 'field': field}
    engine = Engine(
        processes=processes,
        topology=copy.deepcopy(TOPOLOGY),
        progress_bar=False,
        display_info=False)
    engine.update(1.0)
    engine.update(1.0)
    state = engine.state.get_value(
        condition=lambda s: not isinstance(s.value, Process))
    return field.seen, state


def check(label, field_first):
    try:
        seen, state = run(field_first)
    except Exception:  # pylint: disable=broad-except
        print(f'[{label}] VIOLATION: the engine could not be built / run:')
        traceback.print_exc(limit=-2)
        return False
    ok = True
    expected_reads = [100, 120]
    for step, (states, expect) in enumerate(zip(seen, expected_reads)):
        for agent in ('k1', 'k2'):
            got = states['g'][agent]['env']
            if got != expect:
                print(f'[{label}] step {step}: {agent} read env={got}, '
                      f'expected {expect}')
                ok = False
    conc = state['env']['conc']
    if conc != 140:
        print(f'[{label}] env/conc is {conc}, expected 140')
        ok = False
    for agent in ('k1', 'k2'):
        if state['agents'][agent]['local'] != 2:
            print(f'[{label}] {agent}/local is '
                  f"{state['agents'][agent]['local']}, expected 2")
            ok = False
    if ok:
        print(f'[{label}] ok: env/conc = {conc}')
    return ok


if __name__ == '__main__':
    ok_after = check('agents listed first', field_first=False)
    ok_before = check('glob process listed first', field_first=True)
    if ok_after and ok_before:
        print('property holds')
        sys.exit(0)
    print('property violated')
    sys.exit(1)
