"""C06 - two glob views of ONE agents store whose port-variable names coincide.

Process A views every agent's variable 'xa' under the port-variable name 'x'
(glob port wired {'_path': ('ag',), '*': {'x': ('xa',)}} - the documented renaming form);
process B views every agent's variable 'x' under the port-variable name 'x' (glob port wired
with the plain tuple ('ag',)).  The two names live in two different name spaces (each
process's own ports schema) and are wired to two different nodes of every agent:
    A.g.<agent>.x  ->  ('ag', <agent>, 'xa')
    B.g.<agent>.x  ->  ('ag', <agent>, 'x')
Each process alone is built and runs correctly (checked below).

Expected (property C06): together, A reads and updates ag/k1/xa (default 10, +1 per step),
B reads and updates ag/k1/x (default 20, +100 per step), and no other node changes.

Observed on the unchanged tree: a glob store keeps ONE sub-schema and ONE sub-topology, keyed
by port-variable name and merged over all processes that view it (Store._apply_subschema_config
/ _merge_subtopology, applied by Store._apply_subschema).  A's renaming {'x': ('xa',)} is
therefore applied to B's 'x' as well: the node ag/k1/x that B is wired to is never created and
the engine cannot be built ("('x',) is not a valid path from ('ag', 'k1')"), whatever the
listing order of the two processes.
"""
import copy
import sys
import traceback

from vivarium.core.process import Process
from vivarium.core.engine import Engine


class Dummy(Process):
    def ports_schema(self):
        return {'o': {'own': {'_default': 0}}}

    def next_update(self, timestep, states):
        return {}


class GlobView(Process):
    defaults = {'default': 0, 'delta': 1}

    def __init__(self, parameters=None):
        super().__init__(parameters)
        self.seen = []

    def ports_schema(self):
        return {'g': {'*': {'x': {'_default': self.parameters['default']}}}}

    def next_update(self, timestep, states):
        self.seen.append(copy.deepcopy(states))
        return {'g': {
            agent: {'x': self.parameters['delta']}
            for agent in states['g']}}


A_WIRING = {'g': {'_path': ('ag',), '*': {'x': ('xa',)}}}
B_WIRING = {'g': ('ag',)}


def run(names):
    procs = {
        'A': GlobView({'default': 10, 'delta': 1}),
        'B': GlobView({'default': 20, 'delta': 100})}
    wiring = {'A': A_WIRING, 'B': B_WIRING}
    processes = {'ag': {'k1': {'d': Dummy()}}}
    topology = {'ag': {'k1': {'d': {'o': ('o',)}}}}
    for name in names:
        processes[name] = procs[name]
        topology[name] = copy.deepcopy(wiring[name])
    engine = Engine(
        processes=processes, topology=topology,
        progress_bar=False, display_info=False)
    engine.update(1.0)
    engine.update(1.0)
    state = engine.state.get_value(
        condition=lambda s: not isinstance(s.value, Process))
    return procs, state


def check(names):
    label = ' then '.join(names)
    try:
        procs, state = run(names)
    except Exception:  # pylint: disable=broad-except
        print(f'[{label}] VIOLATION: the engine could not be built / run:')
        traceback.print_exc(limit=-1)
        return False
    ok = True
    k1 = state['ag']['k1']
    expected = {'own': None}
    if 'A' in names:
        reads = [s['g']['k1']['x'] for s in procs['A'].seen]
        if reads != [10, 11] or k1.get('xa') != 12:
            print(f"[{label}] A read {reads} (expected [10, 11]); "
                  f"ag/k1/xa = {k1.get('xa')} (expected 12)")
            ok = False
        expected['xa'] = None
    if 'B' in names:
        reads = [s['g']['k1']['x'] for s in procs['B'].seen]
        if reads != [20, 120] or k1.get('x') != 220:
            print(f"[{label}] B read {reads} (expected [20, 120]); "
                  f"ag/k1/x = {k1.get('x')} (expected 220)")
            ok = False
        expected['x'] = None
    extra = set(k1) - set(expected) - {'o'}
    if extra:
        print(f'[{label}] unexpected nodes under ag/k1: {extra}')
        ok = False
    if ok:
        print(f'[{label}] ok: ag/k1 = {k1}')
    return ok


if __name__ == '__main__':
    alone = check(['A']) and check(['B'])
    if not alone:
        print('a process alone already fails (not the scenario of this demo)')
        sys.exit(1)
    together = [check(['A', 'B']), check(['B', 'A'])]
    if all(together):
        print('property holds')
        sys.exit(0)
    print('property violated')
    sys.exit(1)
