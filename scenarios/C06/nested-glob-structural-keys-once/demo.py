"""Structural keys (_add, _delete) addressed to a child of a glob port that is
wired with a dictionary whose sub-topology holds a glob itself (two levels of
'*': colonies of cells).  The update must reach the colony node once.
Exit 0 when the cell is deleted / added once and the values are right.
"""
import sys
import traceback

from vivarium.core.engine import Engine
from vivarium.core.process import Process
from vivarium.library.topology import inverse_topology


class Manager(Process):
    """Each cell of each colony gains 1; cell 'c1' is removed and a cell
    'new' is added to every colony that lacks one."""

    def ports_schema(self):
        return {
            'colonies': {
                '*': {
                    '*': {
                        'x': {'_default': 0, '_updater': 'accumulate'}}}}}

    def next_update(self, timestep, states):
        update = {}
        for colony, cells in states['colonies'].items():
            update[colony] = {cell: {'x': 1} for cell in cells}
            if 'c1' in cells:
                update[colony]['_delete'] = ['c1']
            if 'new' not in cells:
                update[colony]['_add'] = [{'key': 'new', 'state': {'x': 10}}]
        return {'colonies': update}


topology = {
    'manager': {
        'colonies': {
            '_path': ('colonies',),
            '*': {
                '*': {
                    'x': ('x',)}}}}}

routed = inverse_topology(
    (), {'colonies': {'k1': {'_delete': ['c1'], 'c2': {'x': 1}}}},
    topology['manager'])
print('routed update:', routed)

ok = routed == {'colonies': {'k1': {'_delete': ['c1'], 'c2': {'x': 1}}}}

try:
    engine = Engine(
        processes={'manager': Manager()},
        topology=topology,
        initial_state={
            'colonies': {'k1': {'c1': {'x': 1}, 'c2': {'x': 2}}}},
        progress_bar=False)
    engine.update(1)
    engine.update(1)
    result = engine.state.get_value(
        condition=lambda s: not isinstance(s.value, Process))
    print('state after 2 s:', result)
    ok = ok and result == {
        'colonies': {'k1': {'c2': {'x': 4}, 'new': {'x': 11}}}}
except Exception as error:  # pylint: disable=broad-except
    traceback.print_exc()
    print(f'RAISED {type(error).__name__}: {error}')
    ok = False

print('ok' if ok else 'WRONG')
sys.exit(0 if ok else 1)
