"""C06: the node an update returned for a port modifies is the node the port is
wired to, for every well-formed topology - glob ports wired with a '_path'
dictionary and a '*' sub-topology included (engine_tests._make_proton wires
Proton's 'electrons' port exactly like that).

A glob port is where a process adds and removes children ('_add', '_delete',
'_divide', '_generate', '_move' are documented keys of an update to a branch,
Store.apply_update docstring).  With the tuple topology {'agents': ('s',)} the
structural keys reach the node s.  With the equivalent dictionary topology
{'agents': {'_path': ('s',), '*': {...}}} inverse_topology's '*' branch treats
EVERY key of the port's update as the name of a child, recurses into
'_add' / '_delete' with the sub-topology, finds none of the sub-variables in a
list, and returns nothing: the structural part of the update is silently
dropped while the value part of the same update is applied.
"""
import sys
from vivarium.core.process import Process
from vivarium.core.engine import Engine

problems = []


class Colony(Process):
    def ports_schema(self):
        return {
            'agents': {
                '*': {
                    'x': {'_default': 1},
                    'y': {'_default': 2}}}}

    def next_update(self, timestep, states):
        agents = states['agents']
        update = {name: {'x': 1} for name in agents}
        if 'new' not in agents:
            # add a child ...
            update['_add'] = [{'key': 'new', 'state': {}}]
        if 'old' in agents:
            # ... and remove one
            update['_delete'] = ['old']
        return {'agents': update}


def run(topology):
    engine = Engine(
        processes={'colony': Colony()},
        topology={'colony': topology},
        initial_state={'s': {'old': {}, 'keep': {}}})
    engine.update(1)
    return engine.state.get_value()['s']


expected_children = {'keep', 'new'}

tuple_result = run({'agents': ('s',)})
print('tuple topology      :', tuple_result)
if set(tuple_result) != expected_children:
    problems.append(f'control (tuple topology) failed: {tuple_result}')

def check(name, result):
    print(f'{name}:', result)
    if set(result) != expected_children:
        problems.append(
            f"{name}: after a step whose update carried '_add' of 'new' and "
            f"'_delete' of 'old' the children of s are {sorted(result)}, "
            f'expected {sorted(expected_children)} (as with the tuple '
            'topology); the x += 1 of the same update WAS applied: '
            f"{result}")


check(
    "'_path' + '*' dictionary",
    run({'agents': {'_path': ('s',), '*': {'x': ('x',), 'y': ('y',)}}}))


class TopLevelGlob(Colony):
    """the same process with the glob as a top-level port"""
    def ports_schema(self):
        return {'*': super().ports_schema()['agents']['*']}

    def next_update(self, timestep, states):
        return super().next_update(timestep, {'agents': states})['agents']


def run_top(topology):
    engine = Engine(
        processes={'colony': TopLevelGlob()},
        topology={'colony': topology},
        initial_state={'s': {'old': {}, 'keep': {}}})
    engine.update(1)
    return engine.state.get_value()['s']


top_tuple = run_top({'*': ('s',)})
print("top-level '*', tuple    :", top_tuple)
if set(top_tuple) != expected_children:
    problems.append(f"control (top-level '*', tuple) failed: {top_tuple}")
check(
    "top-level '*', dictionary",
    run_top({'*': {'_path': ('s',), 'x': ('x',), 'y': ('y',)}}))

if problems:
    print('PROPERTY C06 VIOLATED:')
    for p in problems:
        print(' -', p)
    sys.exit(1)
print('ok')
sys.exit(0)
