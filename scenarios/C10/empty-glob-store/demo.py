"""C10 / f4: once the LAST compartment of a population store declared with the
usual open schema {'*': {}} is deleted, the store can no longer take part in any
structural history: the engine raises out of update().

Store.apply_update decides between "branch" and "leaf" with
`if self.inner or self.subschema:`.  A population store declared as
`'agents': {'*': {}}` (the idiom of vivarium/processes/remove.py, engulf.py,
burst.py, swap_processes.py) or as `'agents': {}` (meta_division.py) has the
falsy sub-schema {} and, after its last child was deleted, an empty `inner`, so
every later update addressed to it is treated as a LEAF update of a node that
has no updater:

  (a) history [_delete the last cell ; _generate a new cell]: the _generate is
      not executed, Engine.update raises
      "updater is absent at path ('agents',) ... for update {'_generate': ...}";
  (b) the last cell is deleted while one of its own processes has an update due
      later in the same batch (or in flight): that update, which is silently
      skipped when any other cell is left, now raises
      "updater is absent at path ('agents',) ... for update {'a': {...}}".

With one more (unrelated) cell in the store both histories run fine, which the
demo shows first.

Expected (property): after any sequence of _delete/_generate the engine keeps
running exactly what is in the hierarchy: in (a) cell b exists from t=2 and its
process is invoked from t=2 on; in (b) the run simply continues with the
manager alone.
"""
import sys
from vivarium.core.process import Process
from vivarium.core.engine import Engine
from vivarium.core.composer import Composite

CALLS = []


class Adder(Process):
    defaults = {'time_step': 1.0, 'tag': ''}

    def ports_schema(self):
        return {'s': {'x': {'_default': 0, '_emit': True}}}

    def next_update(self, timestep, states):
        CALLS.append(self.parameters['tag'])
        return {'s': {'x': 1}}


class Manager(Process):
    """1st update: delete cell a.  2nd update: generate cell b."""
    defaults = {'time_step': 1.0, 'regenerate': True}

    def __init__(self, parameters=None):
        super().__init__(parameters)
        self.n = 0

    def ports_schema(self):
        return {'agents': {'*': {}}}   # as in vivarium/processes/remove.py

    def next_update(self, timestep, states):
        self.n += 1
        if self.n == 1:
            return {'agents': {'_delete': ['a']}}
        if self.n == 2 and self.parameters['regenerate']:
            return {'agents': {'_generate': [{
                'key': 'b',
                'processes': {'adder': Adder({'tag': 'b'})},
                'topology': {'adder': {'s': ('s',)}},
                'initial_state': {}}]}}
        return {}


def run(manager_first, regenerate, bystander):
    """Build and run 4 s; returns (error or None, calls of b)."""
    del CALLS[:]
    cells = {'a': {'adder': Adder({'tag': 'a'})}}
    cell_topology = {'a': {'adder': {'s': ('s',)}}}
    if bystander:
        cells['z'] = {'adder': Adder({'tag': 'z'})}
        cell_topology['z'] = {'adder': {'s': ('s',)}}
    manager = Manager({'regenerate': regenerate})
    # the order of the dict is the order in which the updates of one time
    # step are applied
    if manager_first:
        processes = {'manager': manager, 'agents': cells}
    else:
        processes = {'agents': cells, 'manager': manager}
    composite = Composite({
        'processes': processes,
        'topology': {
            'manager': {'agents': ('agents',)},
            'agents': cell_topology},
    })
    engine = Engine(composite=composite, display_info=False)
    try:
        engine.update(4)
    except Exception as e:  # pylint: disable=broad-except
        return f'{type(e).__name__}: {str(e).splitlines()[0][:110]}', None
    live = sorted((engine.state.get_processes() or {}).get('agents', {}))
    return None, (CALLS.count('b'), live)


def main():
    problems = []

    # (a) delete the last cell at t=1, generate a new one at t=2
    error, result = run(manager_first=False, regenerate=True, bystander=True)
    print('(a) with a bystander cell z :', error or result)
    if error or result != (2, ['b', 'z']):
        problems.append(f'(a) with bystander: {error or result}')
    error, result = run(manager_first=False, regenerate=True, bystander=False)
    print('(a) a was the last cell     :', error or result)
    if error or result != (2, ['b']):
        problems.append(
            '(a) [_delete last cell; _generate cell b]: expected b invoked at '
            f't=2 and t=3 and live cells [b], got: {error or result}')

    # (b) the last cell is deleted, its own update is applied after the delete
    error, result = run(manager_first=True, regenerate=False, bystander=True)
    print('(b) with a bystander cell z :', error or result)
    if error or result != (0, ['z']):
        problems.append(f'(b) with bystander: {error or result}')
    error, result = run(manager_first=True, regenerate=False, bystander=False)
    print('(b) a was the last cell     :', error or result)
    if error or result != (0, []):
        problems.append(
            '(b) [_delete last cell while its update is due in the same '
            f'batch]: expected the run to continue, got: {error or result}')

    if problems:
        print('PROPERTY C10 VIOLATED:')
        for p in problems:
            print('  ' + p)
        return 1
    print('ok')
    return 0


if __name__ == '__main__':
    sys.exit(main())
