"""C10 demo f3: two sibling compartments wired from ONE topology / flow
template (the same dictionary object under both keys), then a structural
update inside one of them.

    AGENT_TOPOLOGY = {...};  AGENT_FLOW = {...}
    topology = {'agents': {'a1': AGENT_TOPOLOGY, 'a2': AGENT_TOPOLOGY}, ...}
    flow     = {'agents': {'a1': AGENT_FLOW,     'a2': AGENT_FLOW}}

At t=2 a process removes the process 'secrete' and the step 'summary' of
agent a1 only (`_delete` of process names through a port on the compartment,
as vivarium.processes.swap_processes.SwapProcesses does) and generates a new
process 'decay' into a1.

Expected (C10): the published composite (Engine.processes/steps/flow/topology,
written back into the Composite) describes the hierarchy: agent a2 is
untouched and keeps 'secrete' and 'summary' with their wiring and flow, so
that an engine rebuilt from the published composite continues.

Observed: Engine keeps (and publishes) the caller's nested topology and flow
dictionaries themselves (only the processes / steps trees are rebuilt, by
_parallelize_processes) and edits them in place with delete_in / assoc_path.
The edit meant for agents/a1 therefore hits agents/a2 (and the caller's
templates) as well: the published topology of a2 loses 'secrete' and
'summary' and gains 'decay', its flow loses 'summary'; a new Engine built
from the published composite raises KeyError('secrete').
"""
import copy
import sys

from vivarium.core.composer import Composite
from vivarium.core.engine import Engine
from vivarium.core.process import Process, Step


class Add(Process):
    defaults = {'time_step': 1.0, 'var': 'x'}

    def ports_schema(self):
        return {'v': {self.parameters['var']: {
            '_default': 0, '_emit': True}}}

    def next_update(self, timestep, states):
        return {'v': {self.parameters['var']: 1}}


class Twice(Step):
    defaults = {'src': 'x', 'dst': 'y'}

    def ports_schema(self):
        return {'v': {
            self.parameters['src']: {'_default': 0},
            self.parameters['dst']: {
                '_default': 0, '_updater': 'set', '_emit': True}}}

    def next_update(self, timestep, states):
        return {'v': {
            self.parameters['dst']: 2 * states['v'][self.parameters['src']]}}


class Director(Process):
    defaults = {'time_step': 1.0}

    def __init__(self, parameters=None):
        super().__init__(parameters)
        self.calls = 0

    def ports_schema(self):
        return {'agent': {'*': {}}}

    def next_update(self, timestep, states):
        self.calls += 1
        if self.calls != 2:
            return {}
        return {'agent': {
            '_delete': ['secrete', 'summary'],
            '_generate': [{
                'processes': {'decay': Add({'var': 'z'})},
                'topology': {'decay': {'v': ('v',)}},
                'initial_state': {}}]}}


AGENT_TOPOLOGY = {
    'grow': {'v': ('v',)},
    'secrete': {'v': ('v',)},
    'double': {'v': ('v',)},
    'summary': {'v': ('v',)},
}
AGENT_FLOW = {
    'double': [],
    'summary': [('double',)],
}


def agent_processes():
    return {'grow': Add({'var': 'x'}), 'secrete': Add({'var': 's'})}


def agent_steps():
    return {
        'double': Twice({'src': 'x', 'dst': 'y'}),
        'summary': Twice({'src': 'y', 'dst': 'w'})}


def keys(tree, path):
    for key in path:
        tree = tree.get(key, {})
    return sorted(tree)


def main():
    template_before = copy.deepcopy(AGENT_TOPOLOGY)
    composite = Composite(
        processes={
            'agents': {'a1': agent_processes(), 'a2': agent_processes()},
            'director': Director()},
        steps={'agents': {'a1': agent_steps(), 'a2': agent_steps()}},
        flow={'agents': {'a1': AGENT_FLOW, 'a2': AGENT_FLOW}},
        topology={
            'agents': {'a1': AGENT_TOPOLOGY, 'a2': AGENT_TOPOLOGY},
            'director': {'agent': ('agents', 'a1')}})
    engine = Engine(composite=composite, display_info=False)
    engine.update(4)

    real_topology = engine.state.get_topology()
    real_flow = engine.state.get_flow()
    problems = []
    for agent in ('a1', 'a2'):
        pub = keys(engine.topology, ('agents', agent))
        real = keys(real_topology, ('agents', agent))
        if pub != real:
            problems.append(
                'published topology of agents/%s lists %s, the hierarchy '
                'holds %s' % (agent, pub, real))
        pub = keys(engine.flow, ('agents', agent))
        real = keys(real_flow, ('agents', agent))
        if pub != real:
            problems.append(
                'published flow of agents/%s lists %s, the hierarchy '
                'holds %s' % (agent, pub, real))
    if AGENT_TOPOLOGY != template_before:
        problems.append(
            "the caller's topology template was edited: %s"
            % sorted(AGENT_TOPOLOGY))
    try:
        rebuilt = Engine(
            processes=engine.processes, steps=engine.steps,
            flow=engine.flow, topology=engine.topology,
            display_info=False)
        rebuilt.update(1)
    except Exception as e:  # pylint: disable=broad-except
        problems.append(
            'an engine built from the published composite raises %r' % (e,))

    if problems:
        print('C10 VIOLATED:')
        for p in problems:
            print(' -', p)
        return 1
    print('ok')
    return 0


if __name__ == '__main__':
    sys.exit(main())
