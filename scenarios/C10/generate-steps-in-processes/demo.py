"""C10 / f1: flow steps listed in the 'processes' dict of a _generate lose their flow.

A compartment is described in the (still supported) legacy form in which the
steps sit in the 'processes' dict next to the processes and 'flow' gives their
dependencies.  Handed to the Engine at construction this form is honoured
(Engine._find_process_paths(self.processes, self.flow)): s1 runs before s2.
The very same description handed to the engine through a '_generate' update is
registered by Engine.apply_update with `_add_process_path(process, path, {})`,
i.e. with an EMPTY flow: the steps become legacy sequential derivers and run in
dict order, so s2 runs BEFORE the step it depends on, in every phase.

Expected (property): each step runs exactly once per phase at its place in the
flow -> in every phase s1 runs before s2 for agent 'a' (built at construction)
and for agent 'b' (generated at run time), hence z == 2*x + 1 for both.
"""
import sys
from vivarium.core.process import Process, Step
from vivarium.core.engine import Engine
from vivarium.core.composer import Composite

LOG = []


class Counter(Process):
    defaults = {'time_step': 1.0}

    def ports_schema(self):
        return {'s': {'x': {'_default': 0, '_emit': True}}}

    def next_update(self, timestep, states):
        return {'s': {'x': 1}}


class Double(Step):
    """s1: y = 2 * x"""
    def ports_schema(self):
        return {'s': {
            'x': {'_default': 0},
            'y': {'_default': 0, '_updater': 'set', '_emit': True}}}

    def next_update(self, timestep, states):
        LOG.append(self.parameters['tag'])
        return {'s': {'y': 2 * states['s']['x']}}


class PlusOne(Step):
    """s2: z = y + 1, must see the y of this phase -> depends on s1"""
    def ports_schema(self):
        return {'s': {
            'y': {'_default': 0},
            'z': {'_default': 1, '_updater': 'set', '_emit': True}}}

    def next_update(self, timestep, states):
        LOG.append(self.parameters['tag'])
        return {'s': {'z': states['s']['y'] + 1}}


def agent(name):
    """One compartment, steps in the 'processes' dict (legacy form)."""
    return {
        'processes': {
            'cnt': Counter(),
            # s2 listed first on purpose: only the flow orders the steps
            's2': PlusOne({'tag': name + '.s2'}),
            's1': Double({'tag': name + '.s1'}),
        },
        'flow': {'s2': [('s1',)], 's1': []},
        'topology': {
            'cnt': {'s': ('s',)},
            's1': {'s': ('s',)},
            's2': {'s': ('s',)}},
    }


class Spawner(Process):
    """Generates agent 'b' with its first update."""
    defaults = {'time_step': 1.0}

    def __init__(self, parameters=None):
        super().__init__(parameters)
        self.done = False

    def ports_schema(self):
        return {'agents': {'*': {'s': {'x': {'_default': 0, '_emit': True}}}}}

    def next_update(self, timestep, states):
        if self.done:
            return {}
        self.done = True
        return {'agents': {'_generate': [
            dict(agent('b'), key='b', initial_state={})]}}


def main():
    a = agent('a')
    composite = Composite({
        'processes': {'spawner': Spawner(), 'agents': {'a': a['processes']}},
        'flow': {'agents': {'a': a['flow']}},
        'topology': {
            'spawner': {'agents': ('agents',)},
            'agents': {'a': a['topology']}},
    })
    engine = Engine(composite=composite, display_info=False)

    problems = []
    for _ in range(4):
        del LOG[:]
        engine.update(1)
        t = engine.global_time
        for name in ('a', 'b'):
            ran = [tag for tag in LOG if tag.startswith(name + '.')]
            if not ran:
                continue
            if ran != [name + '.s1', name + '.s2']:
                problems.append(
                    f't={t}: steps of agent {name} ran as {ran}, expected '
                    f"['{name}.s1', '{name}.s2'] (flow: s2 depends on s1)")
            state = engine.state.get_value()['agents'][name]['s']
            if state['z'] != 2 * state['x'] + 1:
                problems.append(
                    f't={t}: agent {name}: x={state["x"]} y={state["y"]} '
                    f'z={state["z"]}, expected z == 2*x+1 == {2*state["x"]+1}')

    print('engine step graph: sequential =',
          engine._step_graph._sequential_steps,
          'edges =', list(engine._step_graph._graph.edges))
    if problems:
        print('PROPERTY C10 VIOLATED:')
        for p in problems:
            print('  ' + p)
        return 1
    print('ok: generated steps run at their place in the flow')
    return 0


if __name__ == '__main__':
    sys.exit(main())
