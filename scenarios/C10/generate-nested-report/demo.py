"""C10 / f2: a _generate whose processes are nested below its insertion point.

'_generate' takes the arguments of Store.generate(): trees of processes, steps,
flow and topology.  'key' is optional (Store.insert: `path = (key,) if key else
tuple()`, used without a key by vivarium/processes/swap_processes.py), so the
trees may start above the new compartment, e.g. an environment process wired to
('world',) that adds a new cell with
    processes = {'agents': {'b': {...}}}, topology = {'agents': {'b': {...}}} ...

Store.generate handles such trees (the store is right afterwards), but
Store.insert reports the topology and the flow to the engine per TOP-LEVEL KEY
of the trees - (root + (key,), subtree) - while processes and steps are reported
per leaf (dict_to_paths).  Engine.apply_update then
  (1) looks up the dependencies of step ('world','agents','b','s2') in a dict
      keyed by ('world','agents') -> None -> the step is registered as a legacy
      sequential deriver: the generated steps ignore the flow (s2 runs before the
      s1 it depends on);
  (2) assoc_path(self.topology, ('world','agents'), {'b': ...}) REPLACES the
      whole published 'agents' topology (same for the flow): the entries of the
      cells that already lived there vanish from Engine.topology / Engine.flow
      and from the Composite the engine was built from; a new engine built from
      the published composite is rejected.

Expected (property): generated steps run at their place in the flow; the
published topology and flow describe the hierarchy (== Store.get_topology() /
get_flow()); a new Engine can be built from the published composite + state.
"""
import sys
from vivarium.core.process import Process, Step
from vivarium.core.engine import Engine
from vivarium.core.composer import Composite

LOG = []


class Counter(Process):
    defaults = {'time_step': 1.0}

    def ports_schema(self):
        return {'s': {'x': {'_default': 0, '_emit': True}}}

    def next_update(self, timestep, states):
        return {'s': {'x': 1}}


class Tag(Step):
    def ports_schema(self):
        return {'s': {'x': {'_default': 0}}}

    def next_update(self, timestep, states):
        LOG.append(self.parameters['tag'])
        return {}


def cell(name):
    return {
        'processes': {'cnt': Counter()},
        # s2 listed first on purpose: only the flow orders the steps
        'steps': {
            's2': Tag({'tag': name + '.s2'}),
            's1': Tag({'tag': name + '.s1'})},
        'flow': {'s2': [('s1',)], 's1': []},
        'topology': {
            'cnt': {'s': ('s',)},
            's1': {'s': ('s',)},
            's2': {'s': ('s',)}},
    }


class Environment(Process):
    """Wired to the 'world' store; adds cell 'b' below world/agents."""
    defaults = {'time_step': 1.0}

    def __init__(self, parameters=None):
        super().__init__(parameters)
        self.done = False

    def ports_schema(self):
        return {'world': {'agents': {
            '*': {'s': {'x': {'_default': 0, '_emit': True}}}}}}

    def next_update(self, timestep, states):
        if self.done:
            return {}
        self.done = True
        b = cell('b')
        return {'world': {'_generate': [{
            # no 'key': the trees are relative to the 'world' store
            'processes': {'agents': {'b': b['processes']}},
            'steps': {'agents': {'b': b['steps']}},
            'flow': {'agents': {'b': b['flow']}},
            'topology': {'agents': {'b': b['topology']}},
            'initial_state': {'agents': {'b': {'s': {'x': 10}}}},
        }]}}


def not_process(store):
    return not isinstance(store.value, Process)


def main():
    a = cell('a')
    composite = Composite({
        'processes': {
            'environment': Environment(),
            'world': {'agents': {'a': a['processes']}}},
        'steps': {'world': {'agents': {'a': a['steps']}}},
        'flow': {'world': {'agents': {'a': a['flow']}}},
        'topology': {
            'environment': {'world': ('world',)},
            'world': {'agents': {'a': a['topology']}}},
    })
    engine = Engine(composite=composite, display_info=False)

    problems = []
    for _ in range(3):
        del LOG[:]
        engine.update(1)
        t = engine.global_time
        for name in ('a', 'b'):
            ran = [tag for tag in LOG if tag.startswith(name + '.')]
            if ran and ran != [name + '.s1', name + '.s2']:
                problems.append(
                    f't={t}: steps of cell {name} ran as {ran}, expected '
                    f"['{name}.s1', '{name}.s2'] (flow: s2 depends on s1)")

    live_topology = engine.state.get_topology()
    live_flow = engine.state.get_flow()
    if engine.topology != live_topology:
        problems.append(
            'published topology differs from the hierarchy:\n'
            f'      published world/agents: '
            f'{sorted(engine.topology["world"]["agents"])}\n'
            f'      hierarchy world/agents: '
            f'{sorted(live_topology["world"]["agents"])}')
    if engine.flow != live_flow:
        problems.append(
            'published flow differs from the hierarchy:\n'
            f'      published: {engine.flow}\n'
            f'      hierarchy: {live_flow}')
    if composite['topology'] != live_topology:
        problems.append(
            'the Composite the engine was built from lost the topology of '
            f'cell a: {sorted(composite["topology"]["world"]["agents"])}')

    # quiescent point: rebuild from the published composite + state
    state = engine.state.get_value(condition=not_process)
    try:
        Engine(
            processes=engine.processes, steps=engine.steps,
            flow=engine.flow, topology=engine.topology,
            initial_state=state, display_info=False,
            initial_global_time=engine.global_time)
    except Exception as e:  # pylint: disable=broad-except
        problems.append(
            'a new Engine cannot be built from the published composite: '
            f'{type(e).__name__}: {e}')

    if problems:
        print('PROPERTY C10 VIOLATED:')
        for p in problems:
            print('  ' + p)
        return 1
    print('ok')
    return 0


if __name__ == '__main__':
    sys.exit(main())
