"""An engine run on one compartment of a larger tree (Engine(store=sub_store)).

5a9ef14 makes the updates of such an engine relative to its own state (they
were all lost before).  That holds only for plain value updates: the paths
Store.apply_update reports for a structural update (_generate, _divide, _move:
processes, steps, topology, flow, deletions) are still absolute from the top of
the tree, and Engine.apply_update resolves them from the engine's own state.
So as soon as a process of the compartment generates a child compartment the
run stops with "... is not a valid path from ('cell',)".

Expected: after update(3) the counter of the cell is 3, the child 'new'
exists below cell/agents, its process is registered at ('agents', 'new', 'q')
and has run (its own counter is > 0).
"""
import sys
import traceback
import warnings
from vivarium.core.process import Process
from vivarium.core.engine import Engine
from vivarium.core.store import generate_state

warnings.simplefilter('ignore')


class Count(Process):
    defaults = {'generate': False}

    def ports_schema(self):
        return {
            'v': {'x': {'_default': 0}},
            'agents': {'*': {'v': {'x': {'_default': 0}}}}}

    def next_update(self, timestep, states):
        update = {'v': {'x': 1}}
        if self.parameters['generate'] and 'new' not in states['agents']:
            update['agents'] = {'_generate': [{
                'key': 'new',
                'processes': {'q': Count()},
                'topology': {'q': {'v': ('v',), 'agents': ('agents',)}},
                'initial_state': {}}]}
        return update


def variables(store):
    return store.get_value(
        condition=lambda child: not isinstance(child.value, Process))


def run(generate):
    top = generate_state(
        {'cell': {'p': Count({'generate': generate})}},
        {'cell': {'p': {'v': ('v',), 'agents': ('agents',)}}},
        {})
    engine = Engine(store=top.get_path(('cell',)), display_info=False)
    engine.update(3)
    return top, engine


ok = True

top, engine = run(False)
state = variables(top)
print('plain updates only:', state)
if state['cell']['v']['x'] != 3:
    print('    WRONG: the updates of the engine on the sub-store are lost')
    ok = False

try:
    top, engine = run(True)
    state = variables(top)
    print('with a _generate  :', state, sorted(engine.process_paths))
    new = state['cell']['agents'].get('new')
    if state['cell']['v']['x'] != 3 or not new or new['v']['x'] < 1 \
            or ('agents', 'new', 'q') not in engine.process_paths:
        print('    WRONG: the generated compartment is missing, not '
              'registered or did not run')
        ok = False
except Exception:  # pylint: disable=broad-except
    traceback.print_exc(limit=2, file=sys.stdout)
    print('    WRONG: the structural update of an engine on a sub-store '
          'raised')
    ok = False

sys.exit(0 if ok else 1)
