"""C10 demo f1: one update that moves compartment 'a1' away AND generates a
new compartment 'a1' in its place.

Store.apply_update handles the two keys in the order _move, _generate: after
the update the hierarchy holds the old compartment under other/a1 and a NEW
compartment, with a new process, under agents/a1.

Expected (C10): exactly the processes present in the hierarchy are the ones
the engine runs - the new process agents/a1/grow is invoked from the time of
its creation on, and the published composite (Engine.processes / topology,
also the Composite handed in) lists it.

Observed: Engine.apply_update first registers everything the store reports
(other/a1/grow and agents/a1/grow) and only then folds the deletions
(agents/a1, the old place of the moved compartment), which removes the
newcomer again: agents/a1/grow sits in the hierarchy but is never invoked and
is missing from the published composite.
"""
import sys

from vivarium.core.composer import Composite
from vivarium.core.engine import Engine
from vivarium.core.process import Process
from vivarium.core.store import hierarchy_depth

CALLS = []


class Grow(Process):
    defaults = {'tag': 'grow', 'time_step': 1.0}

    def ports_schema(self):
        return {'v': {'x': {'_default': 0, '_emit': True}}}

    def next_update(self, timestep, states):
        CALLS.append(self.parameters['tag'])
        return {'v': {'x': 1}}


class Curator(Process):
    """At its 2nd call: archive agent a1 under 'archive' and put a fresh
    agent a1 in its place (one update)."""
    defaults = {'time_step': 1.0}

    def __init__(self, parameters=None):
        super().__init__(parameters)
        self.calls = 0

    def ports_schema(self):
        return {'agents': {'*': {}}, 'archive': {'*': {}}}

    def next_update(self, timestep, states):
        self.calls += 1
        if self.calls != 2:
            return {}
        return {
            'agents': {
                '_move': [{'source': 'a1', 'target': 'archive'}],
                '_generate': [{
                    'key': 'a1',
                    'processes': {'grow': Grow({'tag': 'new'})},
                    'topology': {'grow': {'v': ('v',)}},
                    'initial_state': {'v': {'x': 100}},
                }],
            }}


def main():
    composite = Composite(
        # (the curator is listed last, so that the update of the old
        # process that falls due in the same batch is applied before the
        # move - a different, recorded, matter)
        processes={
            'agents': {'a1': {'grow': Grow({'tag': 'old'})}},
            'curator': Curator()},
        topology={
            'curator': {'agents': ('agents',), 'archive': ('archive',)},
            'agents': {'a1': {'grow': {'v': ('v',)}}}})
    engine = Engine(composite=composite, display_info=False)
    engine.update(2)      # the update is applied at t=2
    del CALLS[:]
    engine.update(3)      # t = 2 .. 5

    in_hierarchy = set(hierarchy_depth(engine.state.get_processes()))
    scheduled = set(engine.process_paths)
    published = set(hierarchy_depth(engine.processes))
    new_path = ('agents', 'a1', 'grow')
    old_path = ('archive', 'a1', 'grow')

    problems = []
    if not {new_path, old_path} <= in_hierarchy:
        print('unexpected hierarchy (demo precondition):', in_hierarchy)
        return 0
    if CALLS.count('new') != 3:
        problems.append(
            'the new process agents/a1/grow is in the hierarchy but was '
            'invoked %d times in [2, 5] (expected 3; the old one, now under '
            'archive/a1, ran %d times)' % (
                CALLS.count('new'), CALLS.count('old')))
    if scheduled != in_hierarchy:
        problems.append(
            'scheduler knows %s, hierarchy holds %s' % (
                sorted(scheduled), sorted(in_hierarchy)))
    if published != in_hierarchy:
        problems.append(
            'published processes %s != hierarchy %s' % (
                sorted(published), sorted(in_hierarchy)))
    if set(hierarchy_depth(composite['processes'])) != in_hierarchy:
        problems.append('the Composite handed in does not list the newcomer')
    x_new = engine.state.get_path(('agents', 'a1', 'v', 'x')).get_value()
    if x_new != 103:
        problems.append(
            'agents/a1/v/x is %s, expected 100 + 3 steps = 103' % (x_new,))

    if problems:
        print('C10 VIOLATED:')
        for p in problems:
            print(' -', p)
        return 1
    print('ok')
    return 0


if __name__ == '__main__':
    sys.exit(main())
