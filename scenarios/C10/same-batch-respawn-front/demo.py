"""C10 / f3: a compartment deleted and created again under the same key in one
time step inherits the schedule and the update in flight of the deleted one.

Engine.front is keyed by path.  When a process is deleted its front entry is
only dropped at the top of the next run_for iteration
(_remove_deleted_processes keeps every path that is in process_paths).  If,
before that, a process with the same path is created - here a 'respawn' step
that re-creates cell 'k' in the step phase that follows the deletion, the same
happens with a second process whose update is applied later in the same batch -
the new process silently takes over the OLD front entry:

  * it does not start at the time of its creation: it is first invoked when
    the deleted process would have been due (t=3 instead of t=1);
  * the update the deleted process had in flight (computed from the deleted
    compartment's state) is applied to the new compartment at that time.

Scenario: cell k holds a process 'old' (timestep 3, +7 on x), invoked at t=0
for [0,3].  At t=1 'killer' deletes k; the step 'respawn' sees that k is gone
and generates a fresh k (x=1000) with process 'new' (timestep 1, +100).

Expected (property: nothing deleted is invoked/applied again, newly created
processes start at the time of their creation): 'new' is invoked at t=1,2,3,4
and x = 1000, 1100, 1200, 1300, 1400 at t = 1..5; no '+7' ever reaches the new k.
"""
import sys
from vivarium.core.process import Process, Step
from vivarium.core.engine import Engine
from vivarium.core.composer import Composite

CALLS = []
ENGINE = []


class Adder(Process):
    defaults = {'time_step': 1.0, 'inc': 1, 'tag': ''}

    def ports_schema(self):
        return {'s': {'x': {'_default': 0, '_emit': True}}}

    def next_update(self, timestep, states):
        CALLS.append((self.parameters['tag'], ENGINE[0].global_time, timestep))
        return {'s': {'x': self.parameters['inc']}}


class Killer(Process):
    """Deletes cell 'k' with its first update (applied at t=1)."""
    defaults = {'time_step': 1.0}

    def __init__(self, parameters=None):
        super().__init__(parameters)
        self.done = False

    def ports_schema(self):
        return {'agents': {'*': {'s': {'x': {'_default': 0, '_emit': True}}}}}

    def next_update(self, timestep, states):
        if self.done:
            return {}
        self.done = True
        return {'agents': {'_delete': ['k']}}


class Respawn(Step):
    """Keeps the population alive: re-creates cell 'k' when it is missing."""

    def ports_schema(self):
        return {'agents': {'*': {'s': {'x': {'_default': 0, '_emit': True}}}}}

    def next_update(self, timestep, states):
        if 'k' in states['agents']:
            return {}
        return {'agents': {'_generate': [{
            'key': 'k',
            'processes': {'adder': Adder(
                {'tag': 'new', 'time_step': 1.0, 'inc': 100})},
            'topology': {'adder': {'s': ('s',)}},
            'initial_state': {'s': {'x': 1000}},
        }]}}


def main():
    composite = Composite({
        'processes': {
            'killer': Killer(),
            'agents': {'k': {'adder': Adder(
                {'tag': 'old', 'time_step': 3.0, 'inc': 7})}}},
        'steps': {'respawn': Respawn()},
        'flow': {'respawn': []},
        'topology': {
            'killer': {'agents': ('agents',)},
            'respawn': {'agents': ('agents',)},
            'agents': {'k': {'adder': {'s': ('s',)}}}},
    })
    engine = Engine(composite=composite, display_info=False)
    ENGINE.append(engine)

    # one call, so that the 3 s interval of 'old' really is in flight at t=1
    engine.update(5)
    data = engine.emitter.get_data()
    xs = {
        t: row['agents']['k']['s']['x']
        for t, row in data.items() if t > 0}

    new_calls = [(t, dt) for tag, t, dt in CALLS if tag == 'new']
    print('invocations (tag, time, timestep):', CALLS)
    print('x of cell k by time:', xs)

    problems = []
    expected_calls = [(1.0, 1.0), (2.0, 1.0), (3.0, 1.0), (4.0, 1.0)]
    if new_calls != expected_calls:
        problems.append(
            f"process 'new' (created at t=1, timestep 1) was invoked at "
            f'{new_calls}, expected {expected_calls}')
    expected_xs = {1.0: 1000, 2.0: 1100, 3.0: 1200, 4.0: 1300, 5.0: 1400}
    if xs != expected_xs:
        problems.append(f'x of the new cell: {xs}, expected {expected_xs}')
    if any((x - 1000) % 100 for x in xs.values()):
        problems.append(
            "the +7 update of the deleted process 'old' was applied to the "
            'new compartment')

    if problems:
        print('PROPERTY C10 VIOLATED:')
        for p in problems:
            print('  ' + p)
        return 1
    print('ok')
    return 0


if __name__ == '__main__':
    sys.exit(main())
