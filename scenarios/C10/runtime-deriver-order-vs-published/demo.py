"""C10 demo f4: legacy derivers (steps without a flow entry) that enter a
running simulation, and an engine rebuilt from the published composite.

Colony: every agent has a process `grow` (x += 1 per second) and a legacy
deriver `mass` (m := 2 * x); at the top a legacy deriver `total` (declared
after the agents, so that it runs after their derivers) sums m over all
agents.  At t=2 a process adds agent a2 with `_generate`.

Expected (C10): each step runs "at its place in the flow", and the composite
the engine publishes describes the hierarchy "so that a new engine built
from it and the current state at a quiescent point continues identically".

Observed: for steps outside the flow the place is the position in
_StepGraph._sequential_steps.  Engine.apply_update appends the newcomer at
the END of that list (after `total`), while the published steps dictionary
files it under 'agents', i.e. BEFORE 'total' in the order in which
Engine._find_step_paths walks the dictionary.  The continued engine runs
[a1.mass, total, a2.mass] (total sees a2's mass of the previous phase), the
engine rebuilt from the published composite and the current state runs
[a1.mass, a2.mass, total]: same hierarchy, same state, different
trajectories.  The published composite cannot say where the step runs.
"""
import copy
import sys

from vivarium.core.composer import Composite
from vivarium.core.engine import Engine
from vivarium.core.process import Process, Deriver


class Grow(Process):
    defaults = {'time_step': 1.0}

    def ports_schema(self):
        return {'v': {'x': {'_default': 0, '_emit': True}}}

    def next_update(self, timestep, states):
        return {'v': {'x': 1}}


class Mass(Deriver):
    def ports_schema(self):
        return {'v': {
            'x': {'_default': 0},
            'm': {'_default': 0, '_updater': 'set', '_emit': True}}}

    def next_update(self, timestep, states):
        return {'v': {'m': 2 * states['v']['x']}}


class Total(Deriver):
    def ports_schema(self):
        return {
            'agents': {'*': {'v': {'m': {'_default': 0}}}},
            'colony': {'total': {
                '_default': 0, '_updater': 'set', '_emit': True}}}

    def next_update(self, timestep, states):
        return {'colony': {'total': sum(
            agent['v']['m'] for agent in states['agents'].values())}}


class Director(Process):
    defaults = {'time_step': 1.0}

    def __init__(self, parameters=None):
        super().__init__(parameters)
        self.calls = 0

    def ports_schema(self):
        return {'agents': {'*': {}}}

    def next_update(self, timestep, states):
        self.calls += 1
        if self.calls != 2:
            return {}
        return {'agents': {'_generate': [{
            'key': 'a2',
            'processes': {'grow': Grow()},
            'steps': {'mass': Mass()},
            'topology': AGENT_TOPOLOGY(),
            'initial_state': {'v': {'x': 10}}}]}}


def AGENT_TOPOLOGY():
    return {'grow': {'v': ('v',)}, 'mass': {'v': ('v',)}}


def variables(store):
    """The values of the variables of the hierarchy (no process nodes)."""
    from vivarium.core.process import Process as P
    if store.inner:
        return {
            key: variables(child) for key, child in store.inner.items()
            if not isinstance(child.value, P)}
    return copy.deepcopy(store.value)


def main():
    composite = Composite(
        processes={
            'agents': {'a1': {'grow': Grow()}},
            'director': Director()},
        steps={
            'agents': {'a1': {'mass': Mass()}},
            'total': Total()},
        topology={
            'agents': {'a1': AGENT_TOPOLOGY()},
            'director': {'agents': ('agents',)},
            'total': {'agents': ('agents',), 'colony': ('colony',)}})
    engine = Engine(composite=composite, display_info=False)
    engine.update(4)                    # quiescent point, t = 4

    # a new engine from the published composite and the current state
    rebuilt = Engine(
        composite=Composite(
            processes=composite['processes'], steps=composite['steps'],
            flow=composite['flow'], topology=composite['topology']),
        initial_state=variables(engine.state),
        initial_global_time=engine.global_time,
        display_info=False)

    trajectory = {'continued': [], 'rebuilt': []}
    for _ in range(3):
        engine.update(1)
        rebuilt.update(1)
        trajectory['continued'].append(variables(engine.state))
        trajectory['rebuilt'].append(variables(rebuilt.state))

    if trajectory['continued'] != trajectory['rebuilt']:
        print('C10 VIOLATED: the engine rebuilt from the published '
              'composite and the current state does not continue like '
              'the running one')
        for a, b in zip(trajectory['continued'], trajectory['rebuilt']):
            masses = sum(agent['v']['m'] for agent in a['agents'].values())
            print(' - sum of the agents\' m = %s; colony/total: continued '
                  '%s, rebuilt %s' % (
                      masses, a['colony']['total'], b['colony']['total']))
        print('   execution layers, continued:',
              engine._step_graph.get_execution_layers())
        print('   execution layers, rebuilt:  ',
              rebuilt._step_graph.get_execution_layers())
        return 1
    print('ok')
    return 0


if __name__ == '__main__':
    sys.exit(main())
