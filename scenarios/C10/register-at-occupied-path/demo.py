"""C10 demo f2: a structural update that places a process / a legacy deriver
at a path where one already lives (the store replaces the node).

Two routes, both through the public update keys:

 A. `_generate` of new versions of the process 'grow' and of the deriver
    'report' into the existing compartment agents/a1 (an in-place swap; the
    store ends up with exactly ONE 'grow' and ONE 'report' in agents/a1).
 B. `_divide` whose daughter ids are formed the way the library forms them
    (vivarium.processes.meta_division.daughter_phylogeny_id: mother id + '0'
    / '1') while an agent with that id exists: mother '1' -> '10', '11' with
    agent '10' alive.  (vivarium/experiments/engine_tests.py::
    test_hyperdivision does exactly this: agents '0'..'99', so the daughters
    of '1', '2', ... land on the living agents '10', '11', '20', ...)

Expected (C10): each step that exists when a step phase begins runs exactly
once in it; a newly created process starts at the time of its creation;
nothing that is gone has any say any more.

Observed:
 * Engine._add_step_path appends the deriver's path to the sequential list a
   second time (the replaced one is never taken out): the single deriver in
   the hierarchy is invoked TWICE in every step phase from then on.
 * Engine.apply_update overwrites process_paths[path] but keeps
   Engine.front[path] of the replaced process: the new process inherits the
   schedule entry (and the update in flight) of the process it replaced - it
   is first invoked when the OLD process would have been due, not at the time
   of its creation, and the update computed by the replaced process is still
   applied.
"""
import sys

from vivarium.core.composer import Composite
from vivarium.core.engine import Engine
from vivarium.core.process import Process, Deriver

LOG = []
ENGINE = [None]


def now():
    return ENGINE[0].global_time if ENGINE[0] is not None else None


class Grow(Process):
    defaults = {'tag': 'grow', 'time_step': 1.0, 'rate': 1}

    def ports_schema(self):
        return {'v': {'x': {'_default': 0, '_emit': True}}}

    def next_update(self, timestep, states):
        LOG.append(('grow', self.parameters['tag'], now()))
        return {'v': {'x': self.parameters['rate'] * timestep}}


class Report(Deriver):
    """A legacy deriver (no flow entry): y := 2 * x."""
    defaults = {'tag': 'report'}

    def ports_schema(self):
        return {'v': {
            'x': {'_default': 0},
            'y': {'_default': 0, '_updater': 'set', '_emit': True}}}

    def next_update(self, timestep, states):
        LOG.append(('report', self.parameters['tag'], now()))
        return {'v': {'y': 2 * states['v']['x']}}


TOPOLOGY = {'grow': {'v': ('v',)}, 'report': {'v': ('v',)}}


def compartment(tag, time_step=1.0, rate=1):
    return {
        'processes': {'grow': Grow({
            'tag': tag, 'time_step': time_step, 'rate': rate})},
        'steps': {'report': Report({'tag': tag})},
        'topology': {'grow': {'v': ('v',)}, 'report': {'v': ('v',)}},
    }


class Director(Process):
    defaults = {'time_step': 1.0, 'script': {}}

    def __init__(self, parameters=None):
        super().__init__(parameters)
        self.calls = 0

    def ports_schema(self):
        return {'agents': {'*': {}}}

    def next_update(self, timestep, states):
        self.calls += 1
        return self.parameters['script'].get(self.calls, {})


def phases(tag, since):
    """number of invocations of the deriver `tag` per time >= since"""
    count = {}
    for kind, who, t in LOG:
        if kind == 'report' and who == tag and t is not None and t >= since:
            count[t] = count.get(t, 0) + 1
    return count


def route_a():
    del LOG[:]
    ENGINE[0] = None
    new = compartment('new', time_step=1.0, rate=10)
    script = {2: {'agents': {'_generate': [dict(
        new, key='a1', initial_state={})]}}}
    old = compartment('old', time_step=3.0, rate=1)
    composite = Composite(
        processes={
            'agents': {'a1': old['processes']},
            'director': Director({'script': script})},
        steps={'agents': {'a1': old['steps']}},
        topology={
            'agents': {'a1': old['topology']},
            'director': {'agents': ('agents',)}})
    engine = Engine(composite=composite, display_info=False)
    ENGINE[0] = engine
    engine.update(6)

    problems = []
    node = engine.state.get_path(('agents', 'a1', 'report'))
    assert node.value.parameters['tag'] == 'new'   # one deriver, the new one
    per_phase = phases('new', 2)
    if any(n != 1 for n in per_phase.values()):
        problems.append(
            'A: the one deriver agents/a1/report is invoked %s times per '
            'step phase (time: count = %s)' % (
                sorted(set(per_phase.values())), per_phase))
    first_new = min(t for k, who, t in LOG if k == 'grow' and who == 'new')
    if first_new != 2.0:
        problems.append(
            'A: the process created at t=2.0 is first invoked at t=%s '
            '(the time at which the process it replaced was due)'
            % first_new)
    return problems


def route_b():
    del LOG[:]
    ENGINE[0] = None
    d10, d11 = compartment('d10'), compartment('d11')
    script = {2: {'agents': {'_divide': {
        'mother': '1',
        'daughters': [
            dict(d10, key='10', initial_state={}),
            dict(d11, key='11', initial_state={})]}}}}
    c1, c10 = compartment('m1'), compartment('r10')
    composite = Composite(
        processes={
            'agents': {'1': c1['processes'], '10': c10['processes']},
            'director': Director({'script': script})},
        steps={'agents': {'1': c1['steps'], '10': c10['steps']}},
        topology={
            'agents': {'1': c1['topology'], '10': c10['topology']},
            'director': {'agents': ('agents',)}})
    engine = Engine(composite=composite, display_info=False)
    ENGINE[0] = engine
    engine.update(5)
    problems = []
    node = engine.state.get_path(('agents', '10', 'report'))
    tag = node.value.parameters['tag']
    per_phase = phases(tag, 2)
    if any(n != 1 for n in per_phase.values()):
        problems.append(
            'B: after the division of agent 1 into 10 and 11 the one deriver '
            'agents/10/report (%s) is invoked %s times per step phase '
            '(time: count = %s)' % (
                tag, sorted(set(per_phase.values())), per_phase))
    return problems


def main():
    problems = route_a() + route_b()
    if problems:
        print('C10 VIOLATED:')
        for p in problems:
            print(' -', p)
        return 1
    print('ok')
    return 0


if __name__ == '__main__':
    sys.exit(main())
