"""C17 - path-addressed edits of the engine's published topology are not local.

Two agents are wired from ONE topology template (the natural way to write
    topology = {'agents': {'1': agent_topology, '2': agent_topology}} ).
A process then removes a process of agent '1' only (`_delete`, as the shipped
SwapProcesses does) and later generates a new process inside agent '1' only.

The engine keeps Engine.topology up to date with the path helpers:
    delete_in(self.topology, ('agents', '1', 'worker'))
    assoc_path(self.topology, ('agents', '1', 'extra'), {...})

Expected (property C17: "get_in reads what assoc_path wrote, delete_in removes
exactly that entry"): after these two edits addressed to paths below
('agents', '1'), every path below ('agents', '2') reads as before, and the
dictionary the caller handed in as a template is what it was.

Exit status 1 if the edits leak to agent '2' / to the caller's template.
"""
import copy
import sys

from vivarium.core.process import Process
from vivarium.core.engine import Engine
from vivarium.library.topology import get_in


class Worker(Process):
    def ports_schema(self):
        return {'c': {'x': {'_default': 0}}}

    def next_update(self, timestep, states):
        return {'c': {'x': 1}}


class Editor(Process):
    """Edits agent '1' only: step 1 deletes its worker, step 2 generates
    a process 'extra' inside it."""

    def __init__(self, parameters=None):
        super().__init__(parameters)
        self.calls = 0

    def ports_schema(self):
        return {'agent': {'*': {}}}

    def next_update(self, timestep, states):
        self.calls += 1
        if self.calls == 1:
            return {'agent': {'_delete': ['worker']}}
        if self.calls == 2:
            return {'agent': {'_generate': [{
                'processes': {'extra': Worker()},
                'topology': {'extra': {'c': ('store',)}},
                'initial_state': {}}]}}
        return {}


def main():
    agent_topology = {'worker': {'c': ('store',)}}
    template_before = copy.deepcopy(agent_topology)

    engine = Engine(
        processes={
            'editor': Editor(),
            'agents': {
                '1': {'worker': Worker()},
                '2': {'worker': Worker()}}},
        topology={
            'editor': {'agent': ('agents', '1')},
            'agents': {
                '1': agent_topology,
                '2': agent_topology}},
        progress_bar=False)

    q = ('agents', '2')
    before = copy.deepcopy(get_in(engine.topology, q))
    problems = []

    engine.update(1)   # _delete of ('agents', '1', 'worker')
    after_delete = copy.deepcopy(get_in(engine.topology, q))
    if after_delete != before:
        problems.append(
            f"after deleting ('agents','1','worker'): topology at {q} "
            f"changed from {before} to {after_delete}")

    engine.update(1)   # _generate of ('agents', '1', 'extra')
    after_generate = copy.deepcopy(get_in(engine.topology, q))
    if 'extra' in (after_generate or {}):
        problems.append(
            f"after generating ('agents','1','extra'): topology at {q} "
            f"now lists a process that agent '2' does not have: "
            f"{after_generate}")

    # the simulation itself still has agent 2's worker, wired as before
    still_there = ('agents', '2', 'worker') in engine.process_paths
    node_topology = engine.state.get_path(('agents', '2', 'worker')).topology
    if still_there and get_in(
            engine.topology, ('agents', '2', 'worker')) != node_topology:
        problems.append(
            f"engine.topology disagrees with the store: process "
            f"('agents','2','worker') is running with topology "
            f"{node_topology} but engine.topology has "
            f"{get_in(engine.topology, ('agents', '2', 'worker'))}")

    if agent_topology != template_before:
        problems.append(
            f"the caller's topology template was modified: "
            f"{template_before} -> {agent_topology}")

    if problems:
        print('VIOLATION:')
        for p in problems:
            print(' -', p)
        return 1
    print('ok: edits below (agents, 1) left (agents, 2) alone')
    return 0


if __name__ == '__main__':
    sys.exit(main())
