"""C17 / f1: normalize_path cancels a leading '..' against another leading '..'.

A relative path that climbs two (four, six, ...) levels above its starting
point - ('..', '..', 'x') - is "normalised" to ('x',): the second '..' pops the
first one off the progress list.  One or three leading '..' are kept, so the
result depends on the parity of the number of leading '..' segments.

Expected (file-system path algebra, property C17): the lexical normal form of
a relative path resolves to the same node as walking the path; '../../x' is
already normal and is NOT the same as 'x'.

Observable consequences checked here:
 1. normalize_path(('..', '..', 'x')) must not be ('x',) and normalising must be
    compatible with prefixing: normalize(a + p) == normalize(a + normalize(p)).
 2. From a node two levels deep, walking ('..', '..', 'x') and walking its
    normal form must reach the same Store node.
 3. Composite.initial_state() of a compartment whose process has one port wired
    to the compartment-local store ('fields',) and another port wired two
    levels up, ('..', '..', 'fields') (the wiring used by vivarium's own
    engulf/burst/meta_division composites for ('..', '..', 'agents')), must
    not put the outer variable into the LOCAL 'fields' store.
"""
import sys

from vivarium.library.topology import normalize_path
from vivarium.core.store import Store
from vivarium.core.process import Process
from vivarium.core.composer import Composer

failures = []

# 1. the pure function ------------------------------------------------------
rel = ('..', '..', 'x')
got = normalize_path(rel)
if got == ('x',):
    failures.append(
        f"normalize_path({rel}) == {got}: the two leading '..' cancelled "
        f"each other (while normalize_path(('..', 'x')) == "
        f"{normalize_path(('..', 'x'))})")
prefix = ('a', 'b', 'c')
whole = normalize_path(prefix + rel)
by_parts = normalize_path(prefix + normalize_path(rel))
if whole != by_parts:
    failures.append(
        f"normalize({prefix}+{rel}) = {whole} but "
        f"normalize({prefix}+normalize({rel})) = {by_parts}")

# 2. Store navigation against the normal form --------------------------------
root = Store({})
for p in [('x',), ('a', 'b', 'x')]:
    root._establish_path(p, {})
node = root.get_path(('a', 'b'))
walked = node.get_path(rel)
via_normal_form = node.get_path(normalize_path(rel))
if walked is not via_normal_form:
    failures.append(
        f"from {node.path_for()}: walking {rel} reaches {walked.path_for()} "
        f"but walking its normal form {normalize_path(rel)} reaches "
        f"{via_normal_form.path_for()}")


# 3. Composite.initial_state ------------------------------------------------
class Sensor(Process):
    def ports_schema(self):
        return {
            'env': {'x': {'_default': 0}},
            'loc': {'y': {'_default': 0}}}

    def initial_state(self, config=None):
        return {'env': {'x': 7}, 'loc': {'y': 3}}

    def next_update(self, timestep, states):
        return {}


class Cell(Composer):
    defaults = {'up': 2}

    def generate_processes(self, config):
        return {'sensor': Sensor()}

    def generate_topology(self, config):
        return {'sensor': {
            'env': ('..',) * config['up'] + ('fields',),
            'loc': ('fields',)}}


states = {
    up: Cell({'up': up}).generate().initial_state() for up in (1, 2, 3)}
for up, state in states.items():
    local = state.get('fields')
    if local != {'y': 3}:
        failures.append(
            f"compartment with 'env' wired {('..',) * up + ('fields',)}: "
            f"initial_state() = {state}; the outer variable x landed in the "
            f"compartment's own 'fields' store (expected 'fields': {{'y': 3}} "
            f"as for up=1: {states[1]})")

if failures:
    print('PROPERTY VIOLATED:')
    for failure in failures:
        print(' -', failure)
    sys.exit(1)
print('ok')
sys.exit(0)
