"""C17 / f4: update_in writes into the dictionary it is given when the path
runs through missing keys.

update_in's docstring: "d: The dictionary path applies to.  This object is not
modified." and "Returns: A copy of d with all the values under path updated".
The implementation starts every level with d.setdefault(head, {}) - on the
caller's dictionary and, one level down, on the caller's nested dictionaries -
before it takes the shallow copy.  So for a path through missing keys the
INPUT grows a chain of empty dictionaries ({'x': {'y': {}}}), i.e. the input
and the result differ from the original input in more than "the addressed
subtree of the returned dictionary", and a later get_in / dict_to_paths /
hierarchy_depth on the input no longer sees what was there before.

Expected: for every d and path, after r = update_in(d, path, f)
  * d is unchanged (== a deep copy taken before the call),
  * r differs from the original d only at `path`.
Paths through existing keys behave that way (checked below as the symmetric
case that works).
"""
import copy
import sys

from vivarium.library.topology import update_in, get_in, dict_to_paths

failures = []

original = {'a': {'b': 1}, 'k': {}}
cases = [
    ('existing keys', ('a', 'b')),
    ('missing leaf', ('a', 'new')),
    ('missing branch', ('x', 'y')),
    ('missing below an existing empty branch', ('k', 'y', 'z')),
]
for label, path in cases:
    d = copy.deepcopy(original)
    result = update_in(d, path, lambda current: 'updated')
    # the returned dictionary: only the addressed subtree differs
    expected = copy.deepcopy(original)
    node = expected
    for step in path[:-1]:
        node = node.setdefault(step, {})
    node[path[-1]] = 'updated'
    if result != expected:
        failures.append(f'{label}: result {result} != {expected}')
    # the input: not modified
    if d != original:
        failures.append(
            f'{label}: update_in(d, {path}, f) modified its input: '
            f'{original} became {d}; get_in(d, {path}) = '
            f'{get_in(d, path)!r}, leaves of d = {dict_to_paths((), d)}')

if failures:
    print('PROPERTY VIOLATED:')
    for failure in failures:
        print(' -', failure)
    sys.exit(1)
print('ok')
sys.exit(0)
