"""store_schema that adds a variable with a '_value' whose == is not a plain
reflexive bool (nan, a Quantity holding an array): accepted before the
series, rejected after it (store_schema is now applied twice and the second
pass compares the value with itself in Store._check_schema)."""
import math
import sys
import numpy as np
from vivarium.core.engine import Engine
from vivarium.core.process import Process
from vivarium.library.units import units


class Grow(Process):
    def ports_schema(self):
        return {'s': {'a': {'_default': 1.0, '_emit': True}}}

    def next_update(self, timestep, states):
        return {'s': {'a': 1.0}}


def build(value):
    return Engine(
        processes={'p': Grow()},
        topology={'p': {'s': ('s',)}},
        # the documented use of store_schema: expand the hierarchy with a
        # new variable (cf. engine_tests.test_add_new_state)
        store_schema={'s': {'extra': {'_value': value, '_emit': True}}},
        display_info=False)


bad = 0
for label, value, check in [
        ('plain float 1.0 (control)', 1.0, lambda v: v == 1.0),
        ('float nan placeholder', float('nan'),
         lambda v: isinstance(v, float) and math.isnan(v)),
        ('Quantity with array magnitude', np.array([1., 2.]) * units.mM,
         lambda v: list(v.magnitude) == [1., 2.]),
]:
    try:
        engine = build(value)
        engine.update(2)
        got = engine.state.get_value()['s']
        ok = check(got['extra']) and got['a'] == 3.0
        print(f'{label}: state {got} -> {"ok" if ok else "WRONG"}')
        bad += not ok
    except Exception as error:  # pylint: disable=broad-except
        print(f'{label}: Engine raised {type(error).__name__}: '
              f'{str(error)[:160]}')
        bad += 1
sys.exit(1 if bad else 0)
