"""C12 / f2: an emit flag turned off through store_schema comes back at run time
when a structural update (_divide / _generate) brings in a process that declares
the same variable: the rows change their set of variables in mid-history.

Expected: 'env'/'big' was switched off with store_schema={'env': {'_emit': False}}
(Engine docstring: store_schema is there "to turn emits on or off"), so NO
history row contains it - the rows before the first division show that the flag
was accepted. Observed: from the row of the first division on, every row
contains env/big.
"""
import random
import sys
from vivarium.core.engine import Engine
from vivarium.core.process import Process

random.seed(0)

TOPOLOGY = {
    'grow': {
        'cell': ('cell',),
        'env': ('..', '..', 'env'),
        'agents': ('..',)}}


class Grow(Process):
    defaults = {'agent_id': '1'}

    def ports_schema(self):
        return {
            'cell': {'m': {'_default': 1, '_emit': True, '_divider': 'split'}},
            # a shared (environment) variable every agent declares
            'env': {'big': {'_default': 0, '_emit': True}},
            'agents': {'*': {}}}

    def next_update(self, timestep, states):
        if states['cell']['m'] >= 3:
            mother = self.parameters['agent_id']
            return {'agents': {'_divide': {
                'mother': mother,
                'daughters': [{
                    'key': key,
                    'processes': {'grow': Grow({'agent_id': key})},
                    'topology': TOPOLOGY,
                    'initial_state': {}}
                    for key in (mother + '0', mother + '1')]}}}
        return {'cell': {'m': 1}, 'env': {'big': 1}}


engine = Engine(
    processes={'agents': {'1': {'grow': Grow({'agent_id': '1'})}}},
    topology={'agents': {'1': TOPOLOGY}},
    store_schema={'env': {'_emit': False}},
    display_info=False)
engine.update(5)
rows = engine.emitter.get_data()

with_big = [t for t, row in rows.items() if 'big' in row.get('env', {})]
without_big = [t for t, row in rows.items() if 'big' not in row.get('env', {})]
for t, row in rows.items():
    print(t, row)

if with_big:
    print(
        "VIOLATION: env/big was turned off through store_schema (rows at "
        f"{without_big} do not have it) but the rows at {with_big} contain it: "
        "the daughters' processes re-applied their port schema to the shared "
        "variable and reset its emit flag")
    sys.exit(1)
print('ok')
sys.exit(0)
