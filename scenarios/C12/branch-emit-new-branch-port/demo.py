"""The case e902897 names: a port whose schema carries a branch-level
'_emit' next to the variables it declares,
{'_emit': True, 'x': {...}, 'y': {'_emit': False, ...}}, wired to a store
that does not exist yet (and the same shape as the '*' sub-schema of an
agents store).

Before: the store became a variable, the first update failed ("failed
update at path ('store',) with value None").  After: the store is a
branch with x (emitted) and y (not emitted) - but the Engine cannot be
built, Store.schema_topology takes the '_emit' key of the port schema
for a child: "('_emit',) is not a valid path from ('store',)".
"""
import sys
import warnings
warnings.simplefilter('ignore')
from vivarium.core.process import Process
from vivarium.core.engine import Engine


class Plain(Process):
    name = 'plain'

    def ports_schema(self):
        return {'p': {
            '_emit': True,
            'x': {'_default': 1},
            'y': {'_default': 2, '_emit': False}}}

    def next_update(self, timestep, states):
        return {'p': {'x': 1, 'y': 1}}


class Agents(Process):
    name = 'agents'

    def ports_schema(self):
        return {'agents': {'*': {
            '_emit': True,
            'x': {'_default': 1},
            'y': {'_default': 2, '_emit': False}}}}

    def next_update(self, timestep, states):
        return {'agents': {k: {'x': 1, 'y': 1} for k in states['agents']}}


def case(label, proc, topology, initial, path, expected_value, expected_emit):
    try:
        engine = Engine(
            processes={'proc': proc}, topology={'proc': topology},
            initial_state=initial)
        engine.update(2)
    except Exception as e:  # pylint: disable=broad-except
        print(f'{label}: raised {type(e).__name__}: {e}')
        return False
    value = engine.state.get_path(path).get_value()
    emitted = engine.emitter.get_data()[2.0]
    for key in path:
        emitted = emitted.get(key, {})
    print(f'{label}: value = {value}, emitted at 2.0 = {emitted}')
    return value == expected_value and emitted == expected_emit


ok = case(
    'plain port', Plain({}), {'p': ('store',)}, {}, ('store',),
    {'x': 3, 'y': 4}, {'x': 3})
ok = case(
    "'*' sub-schema", Agents({}), {'agents': ('agents',)},
    {'agents': {'a0': {}}}, ('agents', 'a0'),
    {'x': 3, 'y': 4}, {'x': 3}) and ok
print('OK' if ok else 'WRONG')
sys.exit(0 if ok else 1)
