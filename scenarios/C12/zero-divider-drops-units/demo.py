"""C12 / f3: the history row of a division cannot be produced when an emitted
variable with units uses the registered 'zero' divider.

'added' is declared as {'_default': 0.0 * units.fg, '_divider': 'zero',
'_emit': True}.  divide_zero returns the plain integers [0, 0]; Store.divide
puts them into the daughters with set_value, and Store.emit_data then calls
self.value.to(self.units) on the int.

Expected: update(5) completes; there is one row per second, and in the rows
after the division (t = 3) the daughters' 'added' is zero.  The very same
simulation with '_emit': False on that variable runs to the end (pint accepts
0 + 1.5 fg), so it is only the snapshot that fails.
"""
import random
import sys
import traceback
from vivarium.core.engine import Engine
from vivarium.core.process import Process
from vivarium.library.units import units

random.seed(0)
TOPOLOGY = {'grow': {'cell': ('cell',), 'agents': ('..',)}}


class Grow(Process):
    defaults = {'agent_id': '1', 'emit_added': True}

    def ports_schema(self):
        return {
            'cell': {
                'm': {'_default': 1, '_emit': True, '_divider': 'split'},
                # mass added since the last division: zeroed on division
                'added': {
                    '_default': 0.0 * units.fg,
                    '_divider': 'zero',
                    '_emit': self.parameters['emit_added']}},
            'agents': {'*': {}}}

    def next_update(self, timestep, states):
        if states['cell']['m'] >= 3:
            mother = self.parameters['agent_id']
            return {'agents': {'_divide': {
                'mother': mother,
                'daughters': [{
                    'key': key,
                    'processes': {'grow': Grow(
                        dict(self.parameters, agent_id=key))},
                    'topology': TOPOLOGY,
                    'initial_state': {}}
                    for key in (mother + '0', mother + '1')]}}}
        return {'cell': {'m': 1, 'added': 1.5 * units.fg}}


def build(emit_added):
    return Engine(
        processes={'agents': {'1': {'grow': Grow(
            {'agent_id': '1', 'emit_added': emit_added})}}},
        topology={'agents': {'1': TOPOLOGY}},
        display_info=False)


# control: not emitting the variable, the simulation is fine
control = build(False)
control.update(5)
assert sorted(control.emitter.get_data()) == [0, 1.0, 2.0, 3.0, 4.0, 5.0]

engine = build(True)
try:
    engine.update(5)
except Exception:  # pylint: disable=broad-except
    traceback.print_exc()
    print('rows emitted before the failure:',
          sorted(engine.emitter.get_data()))
    print(
        'VIOLATION: Engine.update raised out of _emit_store_data at the time '
        'of the division: the updates of t=3 were applied but no row can be '
        'emitted for them (Store.emit_data calls .to(units) on the plain 0 '
        "the 'zero' divider gave the daughters)")
    sys.exit(1)

rows = engine.emitter.get_data()
times = sorted(rows)
if times != [0, 1.0, 2.0, 3.0, 4.0, 5.0]:
    print('VIOLATION: rows at', times)
    sys.exit(1)
print('ok')
sys.exit(0)
