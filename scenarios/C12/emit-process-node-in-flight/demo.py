"""C12 / f1: a branch-level ``_emit: True`` set through ``store_schema`` flags
the nodes that hold the processes too, so every history row serializes the
process objects.  For a ParallelProcess that serialization is a command to
the worker; when the row is emitted while the process has an update in
flight (its timestep is longer than that of another process) the emission
raises and no row can be produced.  The serial run of the same composite
emits a row for every time.

Expected (property C12): one history row for every time at which updates
were applied (0, 1, 2, 3, 4), holding the flagged variables s1/a and s2/a
with the values of the hierarchy - the same rows in the serial and in the
parallel run.
"""
import sys
import traceback

from vivarium.core.process import Process
from vivarium.core.engine import Engine


class Count(Process):
    def ports_schema(self):
        return {'port': {'a': {'_default': 1, '_emit': True}}}

    def next_update(self, timestep, states):
        return {'port': {'a': 1}}


def run(parallel):
    slow = Count({'timestep': 2, '_parallel': parallel})
    fast = Count({'timestep': 1})
    engine = Engine(
        processes={'slow': slow, 'fast': fast},
        topology={'slow': {'port': ('s1',)}, 'fast': {'port': ('s2',)}},
        # exactly the store_schema of engine_tests.py::test_set_branch_emit
        store_schema={'_emit': True},
        display_info=False)
    error = None
    try:
        engine.update(4)
    except Exception as e:  # pylint: disable=broad-except
        error = e
        traceback.print_exc()
        # let the worker finish its update so that it can be ended
        for process in engine.process_paths.values():
            if getattr(process, '_pending_command', None):
                process.get_command_result()
    finally:
        engine.end()
    rows = engine.emitter.get_data()
    variables = {
        time: {'s1': row.get('s1'), 's2': row.get('s2')}
        for time, row in rows.items()}
    return error, variables


def main():
    _, serial = run(False)
    error, parallel = run(True)
    expected = {
        0: {'s1': {'a': 1}, 's2': {'a': 1}},
        1: {'s1': {'a': 1}, 's2': {'a': 2}},
        2: {'s1': {'a': 2}, 's2': {'a': 3}},
        3: {'s1': {'a': 2}, 's2': {'a': 4}},
        4: {'s1': {'a': 3}, 's2': {'a': 5}},
    }
    if serial != expected:
        print('serial run: unexpected rows', serial)
        return 1
    if error is not None or parallel != expected:
        print('VIOLATION: with the slow process run in parallel the history')
        print('  row for time 1 could not be emitted:', repr(error)[:300])
        print('  rows emitted in the parallel run:', parallel)
        print('  rows emitted in the serial run:  ', serial)
        return 1
    print('ok: serial and parallel runs emitted the same rows')
    return 0


if __name__ == '__main__':
    sys.exit(main())
