"""C12 / f1: emit flags set through store_schema are undone by Engine.__init__
itself for every variable that is declared by a glob ('*') sub-schema.

Engine docstring (store_schema): "An optional dictionary to expand the store
hierarchy configuration, and also to turn emits on or off. ... Setting an emit
value for a branch node will set the emits of all the leaves to that value."

Expected: with store_schema={'agents': {'_emit': False}} no history row contains
a variable below 'agents' (and with the leaf-level form
{'agents': {'a1': {'x': {'_emit': False}}}} no row contains agents/a1/x), exactly
as the same request works for the non-glob branch 'plain'.
"""
import sys
from vivarium.core.engine import Engine
from vivarium.core.process import Process


class Glob(Process):
    def ports_schema(self):
        return {
            'agents': {'*': {
                'x': {'_default': 1, '_emit': True},
                'y': {'_default': 2, '_emit': True}}},
            'plain': {
                'g': {'_default': 0, '_emit': True},
                'h': {'_default': 0, '_emit': True}}}

    def next_update(self, timestep, states):
        return {
            'agents': {k: {'x': 1} for k in states['agents']},
            'plain': {'g': 1}}


def run(store_schema):
    engine = Engine(
        processes={'p': Glob()},
        topology={'p': {'agents': ('agents',), 'plain': ('plain',)}},
        initial_state={'agents': {'a1': {}, 'a2': {}}},
        store_schema=store_schema,
        display_info=False)
    engine.update(2)
    return engine.emitter.get_data()


def leaves(tree, path=()):
    if isinstance(tree, dict):
        for key, sub in tree.items():
            yield from leaves(sub, path + (key,))
    else:
        yield path


problems = []

# control: the same request on a branch whose variables are declared by name
rows = run({'plain': {'_emit': False}})
for t, row in rows.items():
    bad = [p for p in leaves(row) if p[0] == 'plain']
    if bad:
        problems.append(f'control failed, t={t}: {bad}')

# branch-level flag on the glob store
rows = run({'agents': {'_emit': False}})
for t, row in rows.items():
    bad = [p for p in leaves(row) if p[0] == 'agents']
    if bad:
        problems.append(
            f"store_schema={{'agents': {{'_emit': False}}}}: row t={t} still "
            f"contains {bad}")

# leaf-level flag on one variable of one child of the glob store
rows = run({'agents': {'a1': {'x': {'_emit': False}}}})
for t, row in rows.items():
    if ('agents', 'a1', 'x') in set(leaves(row)):
        problems.append(
            f"store_schema turning off agents/a1/x: row t={t} still contains "
            f"it: {row}")

if problems:
    print('VIOLATION: emit flags set through store_schema are not honoured')
    for p in problems:
        print('  ', p)
    sys.exit(1)
print('ok')
sys.exit(0)
