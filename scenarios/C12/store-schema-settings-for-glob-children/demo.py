"""store_schema settings other than '_emit' for a child of a glob store.

Engine(store_schema=...) is documented as the way "to expand the store
hierarchy configuration, and also to turn emits on or off".  A process
declares agents/*/x with the 'accumulate' updater and default 1.  The caller
overrides, through store_schema,
  (a) the updater of the existing agent '1' ('set'), and
  (b) adds an agent '2' whose x has its own default (7).
store_schema has the last word: after one update of +5 agent 1 holds 5 (set)
and agent 2 holds 7 + 5 = 12.
"""
import sys
import warnings
from vivarium.core.process import Process
from vivarium.core.engine import Engine

warnings.simplefilter('ignore')


class Plus5(Process):
    def ports_schema(self):
        return {'agents': {'*': {'x': {
            '_default': 1, '_updater': 'accumulate', '_emit': True}}}}

    def next_update(self, timestep, states):
        return {'agents': {key: {'x': 5} for key in states['agents']}}


def run(store_schema):
    engine = Engine(
        processes={'p': Plus5()},
        topology={'p': {'agents': ('agents',)}},
        initial_state={'agents': {'1': {'x': 1}}},
        store_schema=store_schema,
        display_info=False)
    before = engine.state.get_value()['agents']
    engine.update(1)
    after = engine.state.get_value()['agents']
    return before, after


ok = True

before, after = run({'agents': {'1': {'x': {'_updater': 'set'}}}})
print("(a) '_updater': 'set' given in store_schema for agents/1/x:",
      before, '->', after)
if after['1']['x'] != 5:
    print('    WRONG: the update was accumulated (1 + 5), the updater of '
          'store_schema was undone by the sub-schema pass')
    ok = False

before, after = run({'agents': {'2': {'x': {'_default': 7}}}})
print("(b) agent 2 added by store_schema with '_default': 7:",
      before, '->', after)
if before.get('2', {}).get('x') != 7 or after['2']['x'] != 12:
    print('    WRONG: the agent added by store_schema starts from the '
          'default of the sub-schema, not from the one store_schema gives')
    ok = False

sys.exit(0 if ok else 1)
