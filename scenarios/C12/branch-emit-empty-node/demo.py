"""C12 / f4: Store._apply_config recognises a branch-level ``_emit`` only
when the node already has children.  On a branch that has no child yet
``_emit`` is taken for the schema key of a VARIABLE: the branch is marked
as a leaf (and the sub-keys given next to ``_emit`` are ignored).

(1) store_schema={'agents': {'_emit': True}} on an 'agents' store that is
    still empty when the Engine is built: Store.build_topology_views stops
    at the "leaf", so the first agent generated into the branch has no
    view and the run dies (AssertionError: store at path ('agents', 'c0',
    'proc') does not have a topology_view) - no row after time 0.
(2) store_schema that expands the hierarchy by a new branch with a
    branch-level flag, {'extra': {'_emit': True, 'x': {'_value': 4},
    'y': {'_value': 5}}}: x and y are never created, no row holds them.

Expected (property C12): the flag acts on the whole branch and the rows
follow the changing shape of the hierarchy: in (1) the same rows as without
the store_schema (the only variable of the agents, mass, is flagged by its
own schema too), in (2) extra/x = 4 and extra/y = 5 in every row.
"""
import sys
import traceback

from vivarium.core.process import Process
from vivarium.core.engine import Engine


class Cell(Process):
    def ports_schema(self):
        return {'cell': {'mass': {'_default': 1.0, '_emit': True}}}

    def next_update(self, timestep, states):
        return {'cell': {'mass': 1.0}}


class Spawner(Process):
    """Generates an agent into 'agents' at each of its first two steps."""

    def ports_schema(self):
        return {
            'agents': {'*': {'cell': {'mass': {'_default': 1.0}}}},
            'n': {'_default': 0, '_emit': True}}

    def next_update(self, timestep, states):
        n = states['n']
        update = {'n': 1}
        if n < 2:
            update['agents'] = {'_generate': [{
                'key': f'c{n}',
                'processes': {'proc': Cell()},
                'topology': {'proc': {'cell': ('cell',)}},
                'initial_state': {}}]}
        return update


class Count(Process):
    def ports_schema(self):
        return {'cell': {'count': {'_default': 0, '_emit': True}}}

    def next_update(self, timestep, states):
        return {'cell': {'count': 1}}


def spawn_run(store_schema):
    engine = Engine(
        processes={'spawn': Spawner()},
        topology={'spawn': {'agents': ('agents',), 'n': ('n',)}},
        store_schema=store_schema,
        display_info=False)
    error = None
    try:
        engine.update(4)
    except BaseException as e:  # pylint: disable=broad-except
        error = e
        traceback.print_exc()
    return error, engine.emitter.get_data()


def main():
    failed = False

    # (1) a flag for a branch that is still empty
    _, reference = spawn_run(None)
    assert sorted(reference) == [0, 1, 2, 3, 4]
    assert reference[4] == {
        'n': 4,
        'agents': {'c0': {'cell': {'mass': 4.0}},
                   'c1': {'cell': {'mass': 3.0}}}}, reference[4]
    error, rows = spawn_run({'agents': {'_emit': True}})
    if error is not None or rows != reference:
        failed = True
        print("VIOLATION (1): with store_schema={'agents': {'_emit': True}} "
              'the run stops when the first agent arrives:')
        print('  error:', repr(error)[:200])
        print('  rows emitted:', rows)
        print('  rows without the store_schema:', reference)

    # (2) a new branch with a branch-level flag
    engine = Engine(
        processes={'p': Count()},
        topology={'p': {'cell': ('cell',)}},
        store_schema={
            'extra': {'_emit': True, 'x': {'_value': 4}, 'y': {'_value': 5}}},
        display_info=False)
    engine.update(2)
    for time, row in engine.emitter.get_data().items():
        if row.get('extra') != {'x': 4, 'y': 5}:
            failed = True
            print(f'VIOLATION (2) at time {time}: expected '
                  f"extra = {{'x': 4, 'y': 5}} in the row, got {row}; the "
                  f"hierarchy holds extra = "
                  f"{engine.state.get_value().get('extra')!r}")

    if failed:
        return 1
    print('ok: branch-level flags on empty / new branches work')
    return 0


if __name__ == '__main__':
    sys.exit(main())
