"""A port schema {'agents': {'_emit': True, '*': {}}}: "emit what is under
agents" for a store whose children the process does not spell out.

Before e902897 the rows carried the agents ({'agents': {'1': {'x': 5}, ...}});
after it the flag is popped while the store is still empty, nothing keeps it
for the children that the initial state (or _add) creates afterwards, and the
rows carry {'agents': {}}.

exit 0 = the agents are in every emitted row, 1 = they are not.
"""
import sys
import warnings
warnings.filterwarnings('ignore')
from vivarium.core.process import Process
from vivarium.core.engine import Engine


class Observer(Process):
    def ports_schema(self):
        return {'agents': {'_emit': True, '*': {}}}

    def next_update(self, timestep, states):
        self.seen = states
        return {}


obs = Observer()
engine = Engine(
    processes={'obs': obs},
    topology={'obs': {'agents': ('agents',)}},
    initial_state={'agents': {'1': {'x': 5}, '2': {'x': 6}}},
    progress_bar=False, display_info=False)
engine.update(2)
data = engine.emitter.get_data()
print('store value :', {k: v for k, v in engine.state.get_value().items()
                        if k != 'obs'})
print('emitted rows:', data)
print('view        :', obs.seen)
expected = {'agents': {'1': {'x': 5}, '2': {'x': 6}}}
ok = all(row == expected for row in data.values()) and len(data) == 3
print('RIGHT' if ok else 'WRONG: the branch-level _emit had no effect')
sys.exit(0 if ok else 1)
