"""store_schema that adds a variable by '_value' together with '_units'.

The leaf declaration {'_value': q, '_units': u} is legal (Store documents
'_units' as a schema key of a variable) and was accepted before the series.
After cd78d60 the second application of store_schema drops '_value' and is
left with {'_units': u}; '_units' is not in Store.schema_keys, so the
remainder is read as a BRANCH config for a node that is a leaf holding a
value, and Engine.__init__ raises.
"""
import sys
import traceback

from vivarium.core.engine import Engine
from vivarium.composites.toys import PoQo
from vivarium.library.units import units

ok = True
for label, value in [
        ('non-zero value', 1.5 * units.fg),
        ('zero value', 0.0 * units.fg)]:
    store_schema = {
        'extra': {'mass': {'_value': value, '_units': units.fg}}}
    try:
        engine = Engine(
            composite=PoQo({}).generate(),
            store_schema=store_schema)
        engine.update(1)
        node = engine.state.get_path(('extra', 'mass'))
        got = node.get_value()
        print(label, '-> value', got, 'units', node.units)
        if got != value or node.units != units.fg:
            ok = False
    except Exception as error:  # pylint: disable=broad-except
        traceback.print_exc(limit=3)
        print(label, '-> Engine construction raised',
              type(error).__name__, str(error)[:200])
        ok = False

print('OK' if ok else 'WRONG')
sys.exit(0 if ok else 1)
