"""Engine(store=..., store_schema=...) must have the last word on the emit
flags it names, also when the store carries flags that were set explicitly
earlier (store.set_emit_value before the Engine is built, or the store_schema
of a previous Engine over the same store)."""
import sys
from vivarium.core.engine import Engine
from vivarium.core.process import Process


class Grow(Process):
    def ports_schema(self):
        return {'port': {
            'x': {'_default': 1.0, '_emit': True},
            'y': {'_default': 2.0, '_emit': True}}}

    def next_update(self, timestep, states):
        return {'port': {'x': 1.0, 'y': 1.0}}


def build():
    engine = Engine(
        processes={'grow': Grow()},
        topology={'grow': {'port': ('a',)}},
        display_info=False)
    return engine.state


bad = []

# case 1: flags turned off by hand on the store, then an Engine over that
# store whose store_schema turns one of them on again
store = build()
store.set_emit_value(('a',), False)
engine = Engine(
    store=store,
    store_schema={'a': {'x': {'_emit': True}}},
    display_info=False)
engine.update(2.0)
data = engine.emitter.get_data()
print('case 1 rows:', data)
if 'x' not in data[2.0].get('a', {}):
    bad.append('case 1: store_schema {a: {x: {_emit: True}}} ignored')
if 'y' in data[2.0].get('a', {}):
    bad.append('case 1: y emitted')

# case 2: a second Engine over the store of a first one, each with its own
# store_schema (first: nothing below a; second: everything below a)
first = Engine(
    processes={'grow': Grow()},
    topology={'grow': {'port': ('a',)}},
    store_schema={'a': {'_emit': False}},
    display_info=False)
first.update(1.0)
print('case 2 first rows:', first.emitter.get_data())
second = Engine(
    store=first.state,
    store_schema={'a': {'_emit': True}},
    display_info=False)
second.update(1.0)
data = second.emitter.get_data()
print('case 2 second rows:', data)
last = data[max(data)]
if set(last.get('a', {})) != {'x', 'y'}:
    bad.append('case 2: store_schema {a: {_emit: True}} of the second '
               'Engine ignored')

# case 3 (control): set_emit_value after a store_schema still works
third = Engine(
    processes={'grow': Grow()},
    topology={'grow': {'port': ('a',)}},
    store_schema={'a': {'_emit': False}},
    display_info=False)
third.state.set_emit_value(('a', 'y'), True)
third.update(1.0)
data = third.emitter.get_data()
print('case 3 rows:', data)
if set(data[1.0].get('a', {})) != {'y'}:
    bad.append('case 3: set_emit_value after store_schema')

if bad:
    print('WRONG:', bad)
    sys.exit(1)
print('OK')
sys.exit(0)
