"""C13 / f1: Engine.end() after a parallel process crashed in its worker.

Property C13: "Whenever Engine.end() is called ... its worker OS process is
told to stop and is reaped without error or hang" - for all crash points of
a run.  A model that raises in next_update()/calculate_timestep() is the most
ordinary crash point there is; the usual pattern is

    try:     engine.update(t)
    finally: engine.end()

Serial run: the model's exception propagates, end() returns, nothing is left.
Parallel run (expected to be the same): end() must return normally and no
worker may be left alive.

Observed on this tree: the worker of the failing process dies, the parent sees
a bare EOFError, and Engine.end() then raises BrokenPipeError at the dead
worker's proxy.  Because Engine.end() walks the processes with
apply_func_to_leaves and ParallelProcess.end() lets the error escape, every
parallel process listed AFTER the dead one is never told to stop: its worker
stays alive (and the interpreter hangs in multiprocessing's atexit join).
"""
import multiprocessing
import os
import sys

from vivarium.core.process import Process
from vivarium.core.engine import Engine


class Inc(Process):
    """x += timestep; optionally blows up once its variable reaches a limit."""
    defaults = {'var': 'x', 'fail_update_at': None, 'fail_timestep_at': None}

    def ports_schema(self):
        return {'s': {self.parameters['var']: {'_default': 0, '_emit': True}}}

    def calculate_timestep(self, states):
        limit = self.parameters['fail_timestep_at']
        if limit is not None and states['s'][self.parameters['var']] >= limit:
            # e.g. an adaptive timestep 1/rate with rate == 0
            raise ZeroDivisionError('adaptive timestep: rate is 0')
        return self.parameters['timestep']

    def next_update(self, timestep, states):
        limit = self.parameters['fail_update_at']
        if limit is not None and states['s'][self.parameters['var']] >= limit:
            raise ValueError('model blew up')
        return {'s': {self.parameters['var']: timestep}}


def run(parallel, a_config, b_parallel):
    """Returns (exception of update, exception of end, live workers)."""
    engine = Engine(
        processes={
            'a': Inc(dict(a_config, var='x', _parallel=parallel)),
            'b': Inc({'var': 'y', '_parallel': b_parallel}),
        },
        topology={'a': {'s': ('s',)}, 'b': {'s': ('s',)}},
        display_info=False)
    update_exc = end_exc = None
    try:
        engine.update(5)
    except Exception as e:  # the crash point
        # (only the text is kept: no tracebacks are held on to)
        update_exc = f'{type(e).__name__}: {e}'
    try:
        engine.end()
    except Exception as e:
        end_exc = f'{type(e).__name__}: {e}'
    alive = []
    for name, proc in engine.processes.items():
        worker = getattr(proc, 'multiprocess', None)
        if worker is None:
            continue  # a serial process
        try:
            worker.join(3)  # a worker that was told to stop is gone by now
            if worker.is_alive():
                alive.append((name, worker))
        except ValueError:
            pass  # closed by ParallelProcess.end(): reaped
    return update_exc, end_exc, alive


def main():
    problems = []

    scenarios = [
        # (label, config of the failing process, is b parallel too?)
        ('next_update raises, one parallel process',
         {'fail_update_at': 2}, False),
        ('calculate_timestep raises, second parallel process idle',
         {'fail_timestep_at': 2}, True),
    ]
    for label, a_config, b_par in scenarios:
        # serial reference: the legal usage, and what is expected
        u, e, alive = run(False, a_config, False)
        assert u is not None and e is None and not alive, (u, e, alive)

        u, e, alive = run(True, a_config, b_par)
        print(f'[{label}]')
        print(f'   update raised : {u}')
        print(f'   end() raised  : {e}')
        print(f'   workers alive : {[name for name, _ in alive]}')
        if u is None:
            problems.append(f'{label}: update did not raise at all')
        if e is not None:
            problems.append(
                f'{label}: Engine.end() raised {e}')
        if alive:
            problems.append(
                f'{label}: the worker of {[name for name, _ in alive]} is '
                f'still alive after Engine.end()')
        for _, child in alive:  # leave nothing behind
            child.terminate()
            child.join(5)

    if problems:
        print('VIOLATION of C13 (clean shutdown at a crash point):')
        for p in problems:
            print('  -', p)
        code = 1
    else:
        print('OK: Engine.end() shut every worker down after the crash')
        code = 0
    sys.stdout.flush()
    sys.stderr.flush()
    os._exit(code)  # never hang in multiprocessing's atexit join


if __name__ == '__main__':
    main()
