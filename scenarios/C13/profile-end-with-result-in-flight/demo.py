"""ParallelProcess(profile=True): end() while a command is pending.

b038411 made end() collect a result nobody collected before it sends 'end'
(and, with profile=True, then reads the profiler stats).  f5e138d keeps
the collected result for a later get_command_result() - but end() itself
calls get_command_result() to fetch the stats, so it gets the kept UPDATE
back as "stats", and the later caller gets the STATS as its "update".
"""
import sys
from vivarium.core.process import ParallelProcess, Process


class Adder(Process):
    defaults = {}
    def ports_schema(self):
        return {'port': {'x': {'_default': 0}}}
    def next_update(self, timestep, states):
        return {'port': {'x': 1}}


def main():
    stats_objs = []
    proc = ParallelProcess(Adder({}), profile=True, stats_objs=stats_objs)
    proc.send_command('next_update', (1.0, {'port': {'x': 0}}))
    ok = True
    try:
        proc.end()   # e.g. the process is deleted while its update is in flight
    except Exception as e:  # pylint: disable=broad-except
        print('end() raised', type(e).__name__, e)
        ok = False
    update = None
    try:
        update = proc.get_command_result()
    except Exception as e:  # pylint: disable=broad-except
        print('get_command_result() raised', type(e).__name__, e)
        ok = False
    print('update handed out after end():', repr(update)[:120])
    print('number of stats objects:', len(stats_objs))
    if stats_objs:
        s = stats_objs[0].stats
        print('stats object holds:', repr(s)[:120])
        # profiler stats are keyed by (file, line, function) tuples
        if not (isinstance(s, dict) and s
                and all(isinstance(k, tuple) for k in s)):
            print('WRONG: the stats are not profiler stats')
            ok = False
    else:
        ok = False
    if update != {'port': {'x': 1}}:
        print('WRONG: the update is not the process update')
        ok = False
    try:
        if not proc._ended:
            proc._pending_command = None
            proc.multiprocess.kill()
            proc.multiprocess.join()
            proc._ended = True
    except Exception:  # pylint: disable=broad-except
        pass
    return 0 if ok else 1


if __name__ == '__main__':
    sys.exit(main())
