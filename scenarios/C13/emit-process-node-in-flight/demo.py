"""C13 - emitting while a parallel process has an update in flight.

`store_schema={'cell': {'_emit': True}}` is the documented way to switch on the
emits of a whole branch ("Setting an emit value for a branch node will set the
emits of all the leaves to that value").  The leaves of a compartment include
its process nodes, which are emitted through ProcessSerializer.serialize, i.e.
`dict(process.parameters, _name=process.name)`.  For a ParallelProcess
`.parameters` is a command to the worker, so the first row emitted while the
process is still computing (its timestep is longer than a neighbour's) raises
RuntimeError "Trying to send command ('parameters', ...) but command
('next_update', ...) is still pending" out of Engine.update; Engine.end() then
raises as well and the worker is left running.  The serial run emits
'!ProcessSerializer[...]' for the process in every row and finishes.

Expected (property): same rows as the serial run (the serialized parameters
differ only by the '_parallel' flag itself), no command sent to a process with
one pending, every worker reaped by end().
"""
import multiprocessing
import os
import sys
import traceback

from vivarium.core.engine import Engine
from vivarium.core.process import Process


class Inc(Process):
    defaults = {'timestep': 1}

    def ports_schema(self):
        return {'p': {'x': {'_default': 0}}}

    def next_update(self, timestep, states):
        return {'p': {'x': 1}}


def run(par):
    engine = Engine(
        processes={'cell': {
            'fast': Inc({'timestep': 1}),
            'slow': Inc({'timestep': 3, '_parallel': par})}},
        topology={'cell': {
            'fast': {'p': ('a',)},
            'slow': {'p': ('b',)}}},
        store_schema={'cell': {'_emit': True}},
        display_info=False)
    error = None
    data = None
    try:
        engine.update(6)
        data = engine.emitter.get_data()
    except Exception as e:  # pylint: disable=broad-except
        traceback.print_exc()
        cause = e
        while cause.__cause__ is not None:
            cause = cause.__cause__
        error = 'Engine.update raised %r (root cause %r)' % (e, cause)
    try:
        engine.end()
    except Exception as e:  # pylint: disable=broad-except
        error = (error or '') + ' | Engine.end raised %r' % (e,)
    return data, error


def strip_flag(data):
    """Remove the one intended difference: the _parallel flag itself."""
    text = repr(data)
    return text.replace("'_parallel': True, ", '').replace(
        "'_parallel': False, ", '')


def main():
    serial, serial_error = run(False)
    assert serial_error is None, serial_error
    assert serial[2.0]['cell']['slow'].startswith('!ProcessSerializer['), serial
    assert serial[6.0]['cell']['b'] == {'x': 2}, serial
    parallel, parallel_error = run(True)
    left = multiprocessing.active_children()
    problems = []
    if parallel_error:
        problems.append(parallel_error)
    elif strip_flag(parallel) != strip_flag(serial):
        problems.append('trajectories differ:\n serial   %r\n parallel %r'
                        % (serial, parallel))
    if left:
        problems.append('workers still alive after Engine.end(): %r' % (left,))
    for child in left:
        child.kill()
    if problems:
        print('VIOLATION (C13): emitting a branch that holds a _parallel '
              'process with an update in flight:')
        for problem in problems:
            print('  -', problem)
        return 1
    print('ok: parallel run identical to serial run, all workers reaped')
    return 0


if __name__ == '__main__':
    code = main()
    sys.stdout.flush()
    sys.stderr.flush()
    os._exit(code)
