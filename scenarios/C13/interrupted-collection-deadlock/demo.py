"""C13 / f4: Engine.end() dead-locks when the collection of a result was
interrupted.

Property C13: "Whenever Engine.end() is called ... - even with an update
still in flight - its worker OS process is told to stop and is reaped without
error or hang", for all crash points of a run.

ParallelProcess.get_command_result (process.py) clears self._pending_command
BEFORE it blocks in self.parent.recv().  The engine spends nearly all its
waiting time exactly there (Defer.get() in Engine._send_updates), so that is
where an asynchronous exception in the main process lands: a wall-clock
budget enforced with signal.alarm (as pytest-timeout does), or
KeyboardInterrupt.  After the interruption the proxy claims that nothing is
pending while the worker is still computing the update.  Engine.end() - the
documented clean-up, typically in a `finally:` - then passes the pending
check, writes 'end' into the pipe and joins the worker.  The worker finishes
next_update and tries to send its result first; a result larger than the
pipe buffer (64 KiB: any field / array valued variable) blocks until somebody
reads it - and the only reader is blocked in join().  Engine.end() never
returns.  (With a small result end() happens to return, leaving the unread
result in the pipe.)

Serial run of the same composite with the same time budget: the alarm
interrupts next_update, end() returns at once.
"""
import multiprocessing
import os
import signal
import sys
import threading
import time

import numpy as np

from vivarium.core.process import Process
from vivarium.core.engine import Engine

SIZE = 300000       # floats in the field: a 2.4 MB update
COMPUTE = 1.5       # seconds one update takes
BUDGET = 0.5        # seconds of wall clock we are ready to wait
PATIENCE = 8.0      # seconds given to Engine.end()


class Field(Process):
    """A slow process whose update is a whole field."""
    def ports_schema(self):
        return {'f': {'field': {
            '_default': np.zeros(SIZE), '_updater': 'set'}}}

    def next_update(self, timestep, states):
        time.sleep(COMPUTE)
        return {'f': {'field': states['f']['field'] + 1.0}}


class OutOfTime(Exception):
    pass


def on_alarm(signum, frame):
    raise OutOfTime('wall-clock budget exceeded')


def run(parallel):
    engine = Engine(
        processes={'field': Field({'_parallel': parallel})},
        topology={'field': {'f': ('f',)}},
        display_info=False)
    interrupted = False
    signal.signal(signal.SIGALRM, on_alarm)
    signal.setitimer(signal.ITIMER_REAL, BUDGET)
    try:
        engine.update(3)
    except OutOfTime:  # the crash point: an update is in flight
        interrupted = True
    finally:
        signal.setitimer(signal.ITIMER_REAL, 0)
    assert interrupted

    # engine.end(), watched from outside so that the demo cannot hang
    outcome = {}

    def end():
        try:
            engine.end()
            outcome['end'] = 'returned'
        except Exception as e:
            outcome['end'] = f'raised {type(e).__name__}: {e}'
    started = time.time()
    thread = threading.Thread(target=end, daemon=True)
    thread.start()
    thread.join(PATIENCE)
    if thread.is_alive():
        outcome['end'] = f'STILL BLOCKED after {PATIENCE} s'
    outcome['seconds'] = round(time.time() - started, 1)
    return outcome


def main():
    serial = run(False)
    print('serial  : Engine.end()', serial['end'],
          f"({serial['seconds']} s)")
    assert serial['end'] == 'returned'

    parallel = run(True)
    print('parallel: Engine.end()', parallel['end'],
          f"({parallel['seconds']} s)")
    alive = multiprocessing.active_children()
    print('          workers alive:', len(alive))
    for child in alive:  # leave nothing behind
        child.terminate()
    for child in alive:
        child.join(5)

    if parallel['end'] != 'returned' or alive:
        print('VIOLATION of C13: Engine.end(), called with an update in '
              'flight, did not stop and reap the worker: '
              + parallel['end'])
        code = 1
    else:
        print('OK: Engine.end() stopped the worker')
        code = 0
    sys.stdout.flush()
    sys.stderr.flush()
    os._exit(code)  # the blocked thread must not keep us here


if __name__ == '__main__':
    main()
