"""C13 / f3: a command that could not be SENT is recorded as pending for ever.

Property C13: "the engine never sends a command to a process that still has
one pending.  Whenever Engine.end() is called ... its worker OS process is
told to stop and is reaped without error or hang" - for all crash points.

ParallelProcess.send_command (process.py) first runs pre_send_command(),
which sets self._pending_command, and only then self.parent.send(...).  When
send() raises - the arguments cannot be pickled - nothing went down the pipe,
but the proxy says a command is pending.  From then on
  * every command, including 'end', raises "... is still pending", so
    Engine.end() (and ParallelProcess.__del__) fail and the worker - idle,
    waiting for its next command - is never told to stop: it outlives the
    engine and blocks interpreter exit (multiprocessing joins it at exit);
  * get_command_result(), the only call that clears the flag, blocks for
    ever: no result will come for a command that was never sent.

Here a store variable is set (by another, serial process) to a value that
cannot be pickled - a function; any lock, generator, open file or local class
instance does the same.  The serial run of the composite works.  That the
parallel run stops with a pickling error at that tick may be acceptable; that
the engine cannot be shut down afterwards is not: the error message of end()
blames a 'calculate_timestep' command that no worker ever received.
"""
import multiprocessing
import os
import sys

from vivarium.core.process import Process
from vivarium.core.engine import Engine


class Reader(Process):
    """Counts its invocations; looks at the current 'rule'."""
    def ports_schema(self):
        return {'s': {
            'rule': {'_default': None, '_updater': 'set'},
            'n': {'_default': 0, '_emit': True}}}

    def next_update(self, timestep, states):
        return {'s': {'n': 1}}


class Setter(Process):
    """Installs a rule (a function) once n has reached 2."""
    def ports_schema(self):
        return {'s': {
            'rule': {'_default': None, '_updater': 'set'},
            'n': {'_default': 0}}}

    def next_update(self, timestep, states):
        if states['s']['n'] >= 2 and states['s']['rule'] is None:
            return {'s': {'rule': lambda n: n > 3}}
        return {}


def run(parallel):
    engine = Engine(
        processes={
            'reader': Reader({'_parallel': parallel}),
            'setter': Setter()},
        topology={
            'reader': {'s': ('s',)},
            'setter': {'s': ('s',)}},
        display_info=False)
    update_exc = end_exc = None
    try:
        engine.update(5)
    except Exception as e:  # the crash point
        update_exc = f'{type(e).__name__}: {e}'
    try:
        engine.end()
    except Exception as e:
        end_exc = f'{type(e).__name__}: {e}'
    alive = []
    worker = getattr(engine.processes['reader'], 'multiprocess', None)
    if worker is not None:
        try:
            worker.join(3)
            if worker.is_alive():
                alive.append(worker)
        except ValueError:
            pass  # closed by ParallelProcess.end(): reaped
    pending = engine.processes['reader']._pending_command
    return update_exc, end_exc, alive, pending, engine


def main():
    u, e, alive, _, _ = run(False)
    assert u is None and e is None and not alive, (u, e, alive)
    print('serial  : update ok, end() ok')

    u, e, alive, pending, engine = run(True)
    print(f'parallel: update raised : {u}')
    print(f'          end() raised  : {str(e)[:160]}')
    print(f'          worker alive  : {bool(alive)}')
    problems = []
    if e is not None:
        problems.append(
            'Engine.end() raised although no command is in flight '
            f'(phantom pending command {str(pending)[:60]}...)')
    if alive:
        problems.append(
            'the worker of the parallel process was not stopped by '
            'Engine.end()')
    for child in alive:  # leave nothing behind
        child.terminate()
        child.join(5)

    if problems:
        print('VIOLATION of C13 (clean shutdown at a crash point):')
        for p in problems:
            print('  -', p)
        code = 1
    else:
        print('OK: Engine.end() stopped the worker after the failed send')
        code = 0
    sys.stdout.flush()
    sys.stderr.flush()
    os._exit(code)  # never hang in multiprocessing's atexit join


if __name__ == '__main__':
    main()
