"""C13 - a parallel process that ENTERS a running simulation (_generate; the same
holds for the daughters of a _divide) is wrapped by Engine.apply_update AFTER the
store set its schema on the bare process, so ParallelProcess._schema stays None
and every later read of `.schema` is a command to the worker.  The next
structural update (here a plain `_add` by another process) that arrives while
that process has an update in flight makes Store.build_topology_views read
`.schema` -> RuntimeError "Trying to send command ('schema', ...) but command
('next_update', ...) is still pending" out of Engine.update.  The serial run of
the same composite works.

Expected (property): the parallel run emits exactly the serial trajectory, no
command is sent to a process with one pending, and end() reaps every worker.
"""
import multiprocessing
import os
import sys
import traceback

from vivarium.core.engine import Engine
from vivarium.core.process import Process


class Inc(Process):
    defaults = {'timestep': 1}

    def ports_schema(self):
        return {'p': {'x': {'_default': 0, '_emit': True}}}

    def next_update(self, timestep, states):
        return {'p': {'x': 1}}


class Spawner(Process):
    """tick 1: generates compartment agents/a1 holding a process with a
    5 s timestep; tick 3: adds a plain state node agents/extra."""
    defaults = {'timestep': 1, 'par': False}

    def __init__(self, parameters=None):
        super().__init__(parameters)
        self.n = 0

    def ports_schema(self):
        return {'agents': {}, 'g': {'n': {'_default': 0, '_emit': True}}}

    def next_update(self, timestep, states):
        self.n += 1
        if self.n == 1:
            child = Inc({
                'timestep': 5, 'name': 'inc',
                '_parallel': self.parameters['par']})
            return {
                'agents': {'_generate': [{
                    'key': 'a1',
                    'processes': {'inc': child},
                    'topology': {'inc': {'p': ('s',)}},
                    'initial_state': {}}]},
                'g': {'n': 1}}
        if self.n == 3:
            return {
                'agents': {'_add': [{'key': 'extra', 'state': {}}]},
                'g': {'n': 1}}
        return {'g': {'n': 1}}


def run(par):
    engine = Engine(
        processes={
            'sp': Spawner({'par': par}),
            'agents': {'a0': {'inc': Inc({'timestep': 2})}}},
        topology={
            'sp': {'agents': ('agents',), 'g': ('g',)},
            'agents': {'a0': {'inc': {'p': ('s',)}}}},
        display_info=False)
    error = None
    data = None
    try:
        engine.update(12)
        data = engine.emitter.get_data()
    except Exception as e:  # pylint: disable=broad-except
        traceback.print_exc()
        error = 'Engine.update raised %r' % (e,)
    try:
        engine.end()
    except Exception as e:  # pylint: disable=broad-except
        error = (error or '') + ' | Engine.end raised %r' % (e,)
    return data, error


def main():
    serial, serial_error = run(False)
    assert serial_error is None, serial_error
    parallel, parallel_error = run(True)
    left = multiprocessing.active_children()
    problems = []
    if parallel_error:
        problems.append(parallel_error)
    elif parallel != serial:
        problems.append('trajectories differ:\n serial   %r\n parallel %r'
                        % (serial, parallel))
    if left:
        problems.append('workers still alive after Engine.end(): %r' % (left,))
    for child in left:
        child.kill()
    if problems:
        print('VIOLATION (C13): generated process marked _parallel is not '
              'transparent:')
        for problem in problems:
            print('  -', problem)
        return 1
    print('ok: parallel run identical to serial run, all workers reaped')
    return 0


if __name__ == '__main__':
    code = main()
    sys.stdout.flush()
    sys.stderr.flush()
    os._exit(code)
