"""C13 / f2: a Composite is unusable after ONE parallel run of it.

Property C13: "Marking any subset of processes or steps as parallel changes
nothing observable: the emitted trajectory, the final state and the
published composite are identical to the serial run".

Engine._make_store writes the ParallelProcess proxies BACK into the caller's
composite (engine.py: "put the parallelized processes back in the
composite": composite['processes'] = self.processes).  Engine.end() - which
"MUST be called at the end of any simulation with parallel processes" - then
stops the workers, so the caller's composite is left holding dead proxies.

Serial: a composite can be simulated, inspected and simulated again
(vivarium.core.composition.simulate_composite(composite) does exactly
Engine(composite=...), update, end).  With '_parallel': True on a process the
second use fails: Composite.get_parameters(), Composite.initial_state() and
Engine(composite=composite) all raise
RuntimeError("Trying to send command (...) but command ('end', None, None)
is still pending").  With Engine(processes=..., topology=...) instead of
composite=... the very same re-use works in parallel mode, because that
branch does not write the proxies back.
"""
import multiprocessing
import os
import sys

from vivarium.core.process import Process
from vivarium.core.composer import Composite
from vivarium.core.engine import Engine


class Inc(Process):
    """A stateless process: x += timestep."""
    def ports_schema(self):
        return {'s': {'x': {'_default': 0, '_emit': True}}}

    def next_update(self, timestep, states):
        return {'s': {'x': timestep}}


def make_composite(parallel):
    return Composite({
        'processes': {'inc': Inc({'_parallel': parallel})},
        'topology': {'inc': {'s': ('s',)}},
    })


def simulate(composite):
    """What vivarium.core.composition.simulate_composite does."""
    engine = Engine(composite=composite, display_info=False)
    engine.update(3)
    engine.end()
    return engine.emitter.get_data()


def use_twice(parallel):
    composite = make_composite(parallel)
    first = simulate(composite)
    report = {'first': first}
    try:
        report['parameters'] = composite.get_parameters()
    except Exception as e:
        report['parameters'] = f'RAISED {type(e).__name__}: {e}'
    try:
        report['second'] = simulate(composite)
    except Exception as e:
        report['second'] = f'RAISED {type(e).__name__}: {e}'
    report['process type'] = type(composite['processes']['inc']).__name__
    return report


def symmetric_case_works():
    """The same re-use through Engine(processes=, topology=) is fine."""
    processes = {'inc': Inc({'_parallel': True})}
    topology = {'inc': {'s': ('s',)}}
    rows = []
    for _ in range(2):
        engine = Engine(
            processes=processes, topology=topology, display_info=False)
        engine.update(3)
        engine.end()
        rows.append(engine.emitter.get_data())
    return rows[0] == rows[1] and type(processes['inc']) is Inc


def main():
    assert symmetric_case_works()
    print('re-use through Engine(processes=, topology=), parallel: works')
    serial = use_twice(False)
    parallel = use_twice(True)
    problems = []
    for key in ('first', 'parameters', 'second'):
        s, p = serial[key], parallel[key]
        if key == 'parameters' and isinstance(p, dict):
            # the flag itself is of course different
            s = {k: dict(v, _parallel=None) for k, v in s.items()}
            p = {k: dict(v, _parallel=None) for k, v in p.items()}
        print(f'{key:>10} serial  : {s}')
        print(f'{key:>10} parallel: {p}')
        if s != p:
            problems.append(f'{key}: serial {s!r} != parallel {p!r}')
    print('composite holds, after the run:',
          serial['process type'], '(serial) /',
          parallel['process type'], '(parallel)')

    for child in multiprocessing.active_children():
        child.terminate()
        child.join(5)
    if problems:
        print('VIOLATION of C13 (parallel is not transparent: the '
              'composite handed to the engine is dead after end()):')
        for p in problems:
            print('  -', p)
        code = 1
    else:
        print('OK: the composite can be used again after a parallel run')
        code = 0
    sys.stdout.flush()
    sys.stderr.flush()
    os._exit(code)


if __name__ == '__main__':
    main()
