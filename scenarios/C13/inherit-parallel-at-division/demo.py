"""C13 - `_divide` whose daughters INHERIT the mother's processes (no
'processes' key in the daughter entries: Store.divide copies the mother's with
copy.deepcopy(mother.get_processes())) cannot be applied when a mother process
is marked `_parallel`: the store then holds a ParallelProcess, whose
multiprocessing.Process / Connection members cannot be deep-copied ->
TypeError "Pickling an AuthenticationString object is disallowed for security
reasons" out of Engine.update.  The mother's worker is idle at that moment (the
division is issued by a step, after every update was collected).  The serial
run of the same composite divides and carries on.

Expected (property): the parallel run emits exactly the serial trajectory and
end() reaps every worker.
"""
import multiprocessing
import os
import sys
import traceback

from vivarium.core.engine import Engine
from vivarium.core.process import Process, Step


class Grow(Process):
    defaults = {'timestep': 1}

    def ports_schema(self):
        return {'p': {'x': {
            '_default': 0, '_emit': True, '_divider': 'split'}}}

    def next_update(self, timestep, states):
        return {'p': {'x': 2}}


class DivideAtFour(Step):
    """Divides agent a0 once its x reaches 4; daughters inherit."""

    def ports_schema(self):
        return {'agents': {'*': {'s': {'x': {'_default': 0}}}}}

    def next_update(self, timestep, states):
        a0 = states['agents'].get('a0')
        if a0 is not None and a0['s']['x'] >= 4:
            return {'agents': {'_divide': {
                'mother': 'a0',
                'daughters': [{'key': 'a00'}, {'key': 'a01'}]}}}
        return {}


def run(par):
    engine = Engine(
        processes={'agents': {'a0': {'grow': Grow({'_parallel': par})}}},
        steps={'div': DivideAtFour()},
        flow={'div': []},
        topology={
            'div': {'agents': ('agents',)},
            'agents': {'a0': {'grow': {'p': ('s',)}}}},
        display_info=False)
    error = None
    data = None
    try:
        engine.update(5)
        data = engine.emitter.get_data()
    except Exception as e:  # pylint: disable=broad-except
        traceback.print_exc()
        error = 'Engine.update raised %r' % (e,)
    try:
        engine.end()
    except Exception as e:  # pylint: disable=broad-except
        error = (error or '') + ' | Engine.end raised %r' % (e,)
    return data, error


def main():
    serial, serial_error = run(False)
    assert serial_error is None, serial_error
    assert 'a00' in serial[5.0]['agents'], serial  # the serial run divided
    parallel, parallel_error = run(True)
    left = multiprocessing.active_children()
    problems = []
    if parallel_error:
        problems.append(parallel_error)
    elif parallel != serial:
        problems.append('trajectories differ:\n serial   %r\n parallel %r'
                        % (serial, parallel))
    if left:
        problems.append('workers still alive after Engine.end(): %r' % (left,))
    for child in left:
        child.kill()
    if problems:
        print('VIOLATION (C13): a mother with a _parallel process cannot be '
              'divided into inheriting daughters:')
        for problem in problems:
            print('  -', problem)
        return 1
    print('ok: parallel run identical to serial run, all workers reaped')
    return 0


if __name__ == '__main__':
    code = main()
    sys.stdout.flush()
    sys.stderr.flush()
    os._exit(code)
