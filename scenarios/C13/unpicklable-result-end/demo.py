"""ParallelProcess.end() hangs after a result that could not be unpickled.

b038411 keeps the command pending until parent.recv() has RETURNED.  When
recv() raises after it consumed the message (the result arrived but cannot
be unpickled in the main process - here the classic exception class whose
__init__ takes two arguments), the command stays pending although nothing
is on its way any more; end() (b038411) then "collects the uncollected
result" with a blocking recv() on a pipe whose other end sits in recv()
too: dead-lock in Engine.end() / ParallelProcess.end() / __del__.
Before the series the failed get_command_result left nothing pending and
end() stopped the worker.
"""
import os
import signal
import sys
import threading

from vivarium.core.process import Process
from vivarium.core.engine import Engine


class SolverError(Exception):
    """pickles in the worker, does not unpickle in the parent"""
    def __init__(self, code, detail):
        super().__init__(f'{code}: {detail}')
        self.code = code
        self.detail = detail


class Solver(Process):
    def ports_schema(self):
        return {'port': {
            'x': {'_default': 0},
            'last_error': {'_default': None, '_updater': 'set'}}}

    def next_update(self, timestep, states):
        # reports a failed step as a value instead of raising
        return {'port': {'x': 1, 'last_error': SolverError(3, 'stiff')}}


def main():
    sim = Engine(
        processes={'solver': Solver({'_parallel': True})},
        topology={'solver': {'port': ('store',)}})
    worker = sim.processes['solver'].multiprocess
    try:
        sim.update(1)
        print('update went through')
    except Exception as error:  # pylint: disable=broad-except
        print('Engine.update raised', type(error).__name__, error)

    ended = threading.Event()

    def watchdog():
        if not ended.wait(15):
            print('WRONG: Engine.end() still blocked after 15 s')
            sys.stdout.flush()
            try:
                worker.kill()
            except Exception:  # pylint: disable=broad-except
                pass
            os._exit(1)
    threading.Thread(target=watchdog, daemon=True).start()

    try:
        sim.end()
        print('Engine.end() returned')
    except Exception as error:  # pylint: disable=broad-except
        print('Engine.end() raised', type(error).__name__, error)
        ended.set()
        return 1
    ended.set()
    return 0


if __name__ == '__main__':
    sys.exit(main())
