"""C13 - a parallel process with a '**' port over a branch that holds a
parallel process.

'**' is the documented way to "connect to an entire sub-branch, including child
nodes, grandchild nodes, etc." (Process.ports_schema docstring).  The view of
such a port is Store.get_value() of the branch, which returns
`(process, topology)` for every process node below it.  Serially that is
harmless.  When the viewing process is marked `_parallel`, the state is sent
to the worker through a pipe; if the branch holds a ParallelProcess (another
one, or the viewer itself when the port covers its own compartment) pickling
raises TypeError "Pickling an AuthenticationString object is disallowed for
security reasons" out of Engine.update.  ParallelProcess.send_command has
already recorded the command as pending before parent.send() failed, so the
proxy is wedged: Engine.end() raises "... is still pending" and the workers
are left running.

Expected (property): the parallel run emits exactly the serial trajectory and
end() reaps every worker.
"""
import multiprocessing
import os
import sys
import traceback

from vivarium.core.engine import Engine
from vivarium.core.process import Process


class Grow(Process):
    defaults = {'timestep': 1}

    def ports_schema(self):
        return {'p': {'x': {'_default': 0, '_emit': True}}}

    def next_update(self, timestep, states):
        return {'p': {'x': 1}}


class Census(Process):
    """Reads the whole 'cells' branch and publishes the sum of x."""
    defaults = {'timestep': 1}

    def ports_schema(self):
        return {
            'cells': '**',
            'out': {'total': {
                '_default': 0, '_emit': True, '_updater': 'set'}}}

    def next_update(self, timestep, states):
        total = sum(
            cell['s']['x'] for cell in states['cells'].values())
        return {'out': {'total': total}}


def run(par):
    engine = Engine(
        processes={
            'census': Census({'_parallel': par}),
            'cells': {
                'c1': {'grow': Grow({'_parallel': par})},
                'c2': {'grow': Grow()}}},
        topology={
            'census': {'cells': ('cells',), 'out': ('out',)},
            'cells': {
                'c1': {'grow': {'p': ('s',)}},
                'c2': {'grow': {'p': ('s',)}}}},
        display_info=False)
    error = None
    data = None
    try:
        engine.update(4)
        data = engine.emitter.get_data()
    except Exception as e:  # pylint: disable=broad-except
        traceback.print_exc()
        error = 'Engine.update raised %r' % (e,)
    try:
        engine.end()
    except Exception as e:  # pylint: disable=broad-except
        error = (error or '') + ' | Engine.end raised %r' % (e,)
    return data, error


def main():
    serial, serial_error = run(False)
    assert serial_error is None, serial_error
    assert serial[4.0]['out']['total'] == 6, serial
    parallel, parallel_error = run(True)
    left = multiprocessing.active_children()
    problems = []
    if parallel_error:
        problems.append(parallel_error[:600])
    elif parallel != serial:
        problems.append('trajectories differ:\n serial   %r\n parallel %r'
                        % (serial, parallel))
    if left:
        problems.append('workers still alive after Engine.end(): %r' % (left,))
    for child in left:
        child.kill()
    if problems:
        print("VIOLATION (C13): _parallel process with a '**' port over a "
              "branch holding a _parallel process:")
        for problem in problems:
            print('  -', problem)
        return 1
    print('ok: parallel run identical to serial run, all workers reaped')
    return 0


if __name__ == '__main__':
    code = main()
    sys.stdout.flush()
    sys.stderr.flush()
    os._exit(code)
