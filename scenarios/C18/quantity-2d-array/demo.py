"""C18: a variable holding a 2-D array quantity (e.g. positions in um) is
corrupted by the timeseries / deserialized views of the RAM emitter.

Expected (property C18): the embedded timeseries lists, for each variable,
its emitted values, one per emitted time.  The process below keeps a 2x2
array of positions with units and shifts it by 1 um per step, so at every
time the view must give back the four numbers that were emitted.

Observed on the unchanged tree: QuantitySerializer.serialize iterates over
the quantity, so each ROW is printed as '!units[[1.0 2.0] micrometer]';
UnitsSerializer.deserialize hands '[1.0 2.0] micrometer' to pint's expression
parser, which reads '[1.0 2.0]' as the product 1.0*2.0.  get_timeseries() /
get_data_deserialized() / get_data_unitless() therefore return 2 um and 12 um
instead of the rows [1, 2] um and [3, 4] um (and raise DimensionalityError as
soon as one entry is negative: '[1.5 -2.0] um' is read as 1.5 - 2.0 um).
"""
import sys
import warnings

import numpy as np

from vivarium.core.process import Process
from vivarium.core.engine import Engine
from vivarium.library.units import units, remove_units

warnings.simplefilter('ignore')

START = np.array([[1.0, 2.0], [3.0, 4.0]])


class Mover(Process):
    defaults = {'start': START}

    def ports_schema(self):
        return {
            'cells': {
                'positions': {
                    '_default': self.parameters['start'] * units.um,
                    '_updater': 'set',
                    '_emit': True,
                },
            },
        }

    def next_update(self, timestep, states):
        return {
            'cells': {
                'positions': states['cells']['positions']
                + timestep * units.um}}


def magnitudes(value):
    """Numbers held by whatever the view returned for one time."""
    return np.array(remove_units(value), dtype=float)


def run(start):
    engine = Engine(
        processes={'mover': Mover({'start': start})},
        topology={'mover': {'cells': ('cells',)}},
    )
    engine.update(2)
    return engine


def main():
    failures = []

    engine = run(START)
    expected = {float(t): START + t for t in range(3)}

    ts = engine.emitter.get_timeseries()
    print('time vector      :', ts['time'])
    print('cells timeseries :', ts['cells'])
    series = None
    for key, values in ts['cells'].items():
        name = key[0] if isinstance(key, tuple) else key
        if name == 'positions':
            series = values
    if series is None or len(series) != len(ts['time']):
        failures.append('positions series missing or not aligned with time')
    else:
        for t, value in zip(ts['time'], series):
            got = magnitudes(value)
            if got.shape != expected[t].shape or not np.allclose(
                    got, expected[t]):
                failures.append(
                    f't={t}: emitted {expected[t].tolist()} um, '
                    f'timeseries gives {value}')

    unitless = engine.emitter.get_data_unitless([('cells', 'positions')])
    for t, row in unitless.items():
        got = np.array(row['cells']['positions'], dtype=float)
        if got.shape != expected[t].shape or not np.allclose(
                got, expected[t]):
            failures.append(
                f't={t}: get_data_unitless(query) gives '
                f'{row["cells"]["positions"]}, emitted '
                f'{expected[t].tolist()}')

    # the same views raise when an entry is negative
    engine = run(np.array([[1.5, -2.0], [3.0, 4.0]]))
    try:
        engine.emitter.get_timeseries()
    except Exception as error:  # pylint: disable=broad-except
        failures.append(
            f'get_timeseries() raised {type(error).__name__}: {error} '
            f'for positions [[1.5, -2.0], [3.0, 4.0]] um')

    if failures:
        print('PROPERTY VIOLATED:')
        for failure in failures:
            print('  -', failure)
        return 1
    print('ok: 2-D array quantities survive the timeseries views')
    return 0


if __name__ == '__main__':
    sys.exit(main())
