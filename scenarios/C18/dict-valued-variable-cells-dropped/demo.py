"""C18: the timeseries views drop the cells of a dict-valued variable.

vivarium.library.wrappers.make_logging_process (shipped with the library)
adds the variable

    log_update: {'_default': {}, '_updater': 'set', '_emit': True}

to a process and stores the process's last update in it.  The variable exists
in every emitted row: {} at time 0 (its default) and whenever the wrapped
process returns an empty update, the update dictionary otherwise.

Expected (property C18): the embedded timeseries / path timeseries list, for
every variable, one cell per emitted time, aligned with the 'time' vector, and
reading the view back cell by cell reproduces the raw rows.

Observed: value_in_embedded_dict takes the dict VALUE for a branch of the
hierarchy; an empty dict contributes nothing, so the cells at the times where
the variable is {} vanish and all later cells shift towards time 0.
"""
import sys
import copy
import warnings

warnings.simplefilter('ignore')

from vivarium.core.process import Process
from vivarium.core.engine import Engine
from vivarium.core.emitter import RAMEmitter
from vivarium.core.registry import emitter_registry
from vivarium.library.topology import assoc_path
from vivarium.library.wrappers import make_logging_process

ROWS = {}


class RecordingEmitter(RAMEmitter):
    """A user emitter: RAMEmitter that also keeps the rows it is handed."""

    def emit(self, data):
        if data['table'] == 'history':
            row = copy.deepcopy(data['data'])
            ROWS[row.pop('time')] = row
        super().emit(data)


emitter_registry.register('recording', RecordingEmitter)


class Pulse(Process):
    """Adds 1 to pool/mass at every second call, nothing at the others."""

    def __init__(self, parameters=None):
        super().__init__(parameters)
        self.calls = 0

    def ports_schema(self):
        return {'pool': {'mass': {'_default': 0, '_emit': True}}}

    def next_update(self, timestep, states):
        self.calls += 1
        if self.calls % 2 == 0:
            return {}
        return {'pool': {'mass': 1}}


LoggingPulse = make_logging_process(Pulse)

sim = Engine(
    processes={'pulse': LoggingPulse({})},
    topology={'pulse': {'pool': ('pool',), 'log_update': ('log',)}},
    emitter='recording',
    progress_bar=False,
    display_info=False,
)
sim.update(4)

times = list(ROWS.keys())
print('rows recorded by the user emitter:')
for t, row in ROWS.items():
    print('  ', t, row)

raw = sim.emitter.get_data_deserialized()
assert {t: raw[t] for t in times} == ROWS, 'raw data differ from the rows'

embedded = sim.emitter.get_timeseries()
paths = sim.emitter.get_path_timeseries()
print('embedded timeseries:', embedded)
print('path timeseries    :', paths)

failures = []
if paths['time'] != times:
    failures.append('time vector %r != emitted times %r' % (paths['time'], times))

# 1. one cell per emitted time for every series
for path, series in paths.items():
    if path == 'time':
        continue
    if len(series) != len(times):
        failures.append(
            'series %r has %d cells for %d emitted times: %r'
            % (path, len(series), len(times), series))

# 2. reading the path timeseries back cell by cell reproduces the rows
rebuilt = {t: {} for t in times}
for path, series in paths.items():
    if path == 'time':
        continue
    for t, cell in zip(times, series):
        assoc_path(rebuilt[t], path, cell)
for t in times:
    if rebuilt[t] != ROWS[t]:
        failures.append(
            'time %r: row %r is read back from the view as %r'
            % (t, ROWS[t], rebuilt[t]))

if failures:
    print('PROPERTY C18 VIOLATED:')
    for failure in failures:
        print('  -', failure)
    sys.exit(1)
print('ok: timeseries views are aligned with the time vector')
sys.exit(0)
