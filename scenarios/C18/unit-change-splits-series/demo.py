"""C18: a quantity variable whose units change during the run is split into
several shorter series that are no longer aligned with the time vector.

Expected (property C18): the embedded timeseries and the path timeseries
list, for each variable, its emitted values in time order and aligned
one-to-one with the time vector; reading the series back cell by cell
reproduces the raw data.

The process below reports a mass that grows tenfold per step and stores it in
a readable unit (pint's Quantity.to_compact(): 5 fg, 50 fg, 500 fg, 5 pg,
50 pg).  The schema declares a unit-less default and the initial state
supplies the quantity, so the Store does not pin a unit (it only does so when
the _default itself is a Quantity).  The variable 'mass' exists, with a
value, at each of the 5 emitted times.  The same is shown on hand-written raw
data handed to timeseries_from_data / path_timeseries_from_data.

Observed on the unchanged tree: value_in_embedded_dict
(vivarium/library/dict_utils.py) files a quantity under the key
(name, str(value.units)) and appends only the magnitude.  The history above
becomes {('mass','femtogram'): [5, 50, 500], ('mass','picogram'): [5, 50]}
against time = [0, 1, 2, 3, 4]: no series has one cell per time, and nothing
tells which times the picogram cells belong to (here they happen to be the
last two; with units going back and forth they interleave), so the raw data
cannot be rebuilt from either timeseries form.
"""
import sys
import warnings

from vivarium.core.process import Process
from vivarium.core.engine import Engine
from vivarium.library.units import units

warnings.simplefilter('ignore')


class Mass(Process):
    def ports_schema(self):
        return {
            'cell': {
                'mass': {
                    # no unit is imposed by the schema: the initial state
                    # supplies the quantity (with a Quantity _default the
                    # Store converts every new value to the default's unit)
                    '_default': 0.0,
                    '_updater': 'set',
                    '_emit': True,
                },
                'count': {'_default': 0, '_emit': True},
            },
        }

    def next_update(self, timestep, states):
        mass = states['cell']['mass'] * 10 ** timestep
        return {'cell': {'mass': mass.to_compact(), 'count': 1}}


def series_of(container, name):
    """All series the view holds for the variable called ``name``."""
    found = {}
    for key, values in container.items():
        if key == name or (isinstance(key, tuple) and key[0] == name):
            found[key] = values
    return found


def check(label, times, found, raw, failures):
    print(f'{label}: time = {times}')
    for key, values in found.items():
        print(f'{label}: {key!r} -> {values}')
    aligned = {
        key: values for key, values in found.items()
        if len(values) == len(times)}
    if len(found) != 1 or len(aligned) != 1:
        failures.append(
            f'{label}: variable mass was emitted at {len(times)} times but '
            f'is listed as {len(found)} series of lengths '
            f'{[len(v) for v in found.values()]}; none/more than one is '
            f'aligned with the time vector')
        return
    (key, values), = aligned.items()
    for t, cell in zip(times, values):
        emitted = raw[t]['cell']['mass']
        value = cell * units(key[1]) if isinstance(key, tuple) else cell
        # the same physical value, in whatever unit the view chose
        if not (hasattr(value, 'to') and abs(
                value.to(emitted.units).magnitude - emitted.magnitude)
                <= 1e-9 * abs(emitted.magnitude)):
            failures.append(
                f'{label}: t={t} emitted {emitted}, read back {value}')


def main():
    engine = Engine(
        processes={'mass': Mass()},
        topology={'mass': {'cell': ('cell',)}},
        initial_state={'cell': {'mass': 5.0 * units.fg}},
    )
    engine.update(4)

    raw = engine.emitter.get_data_deserialized()
    print('raw data:')
    for t, row in raw.items():
        print('   ', t, row)

    failures = []
    ts = engine.emitter.get_timeseries()
    check('embedded', ts['time'], series_of(ts['cell'], 'mass'), raw,
          failures)

    pts = engine.emitter.get_path_timeseries()
    found = {
        path: values for path, values in pts.items()
        if isinstance(path, tuple) and path[0] == 'cell'
        and (path[1] == 'mass'
             or (isinstance(path[1], tuple) and path[1][0] == 'mass'))}
    check('path', pts['time'],
          {path[1]: values for path, values in found.items()}, raw,
          failures)

    # the conversion functions alone, on hand-written raw data in which the
    # units go back and forth
    from vivarium.core.emitter import (
        timeseries_from_data, path_timeseries_from_data)
    hand = {
        0.0: {'cell': {'mass': 1.0 * units.mL}},
        1.0: {'cell': {'mass': 1.0 * units.L}},
        2.0: {'cell': {'mass': 2.0 * units.mL}},
    }
    hand_ts = timeseries_from_data(hand)
    check('hand-written embedded', hand_ts['time'],
          series_of(hand_ts['cell'], 'mass'), hand, failures)
    hand_pts = path_timeseries_from_data(hand)
    check('hand-written path', hand_pts['time'],
          {path[1]: values for path, values in hand_pts.items()
           if isinstance(path, tuple)}, hand, failures)

    # the sibling without units is aligned, as a reference
    assert len(ts['cell']['count']) == len(ts['time'])

    if failures:
        print('PROPERTY VIOLATED:')
        for failure in failures:
            print('  -', failure)
        return 1
    print('ok: the mass series is aligned with the time vector')
    return 0


if __name__ == '__main__':
    sys.exit(main())
