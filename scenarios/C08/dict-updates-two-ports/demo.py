"""C08: several updates to one variable in one batch are applied one after the other.

One process has two ports whose variables are wired to the SAME store variable
(the case that works for scalar updates: 0 + 1 + 2 gives 3).  Here the variable
holds a dictionary and the updates are dictionaries ('merge' / 'set' updaters,
or updates that carry their own '_updater').

Expected (property): the value is f(f(v, u1), u2), u1 = the first port's update,
u2 = the second port's update.
"""
import sys

from vivarium.core.process import Process
from vivarium.core.engine import Engine
from vivarium.core.registry import updater_registry


class TwoPorts(Process):
    defaults = {'updater': 'merge', 'default': {}, 'u1': None, 'u2': None}

    def ports_schema(self):
        leaf = {
            '_default': self.parameters['default'],
            '_updater': self.parameters['updater']}
        return {'pa': {'v': dict(leaf)}, 'pb': {'w': dict(leaf)}}

    def next_update(self, timestep, states):
        return {
            'pa': {'v': self.parameters['u1']},
            'pb': {'w': self.parameters['u2']}}


def run(updater, default, u1, u2):
    process = TwoPorts({
        'updater': updater, 'default': default, 'u1': u1, 'u2': u2})
    engine = Engine(
        processes={'p': process},
        topology={'p': {
            'pa': {'v': ('s', 'x')},
            'pb': {'w': ('s', 'x')}}},
        display_info=False, progress_bar=False)
    engine.update(1)
    return engine.state.get_value()['s']['x']


def expected(updater, default, u1, u2):
    f = updater_registry.access(updater)
    return f(f(default, u1), u2)


failures = []

# sanity: the scalar case of the same wiring is applied one after the other
got = run('accumulate', 0, 1, 2)
if got != 3:
    failures.append(f'accumulate scalars: expected 3, got {got!r}')

cases = [
    # (updater, default, u1, u2)
    ('merge', {}, {'k': 1}, {'k': 2}),
    ('set', {}, {'k': 1}, {'k': 2}),
    ('set', {}, {'a': 1}, {'b': 2}),
    ('merge', {'k': {'i': 0}}, {'k': {'i': 1}}, {'k': {'i': 2}}),
]
for updater, default, u1, u2 in cases:
    want = expected(updater, default, u1, u2)
    try:
        got = run(updater, default, u1, u2)
    except Exception as e:  # pylint: disable=broad-except
        got = f'raised {e!r}'
    if got != want:
        failures.append(
            f'{updater}: v={default!r} u1={u1!r} u2={u2!r}: '
            f'expected {want!r}, got {got!r}')

# updates that name their own updater: set to 5, then set to 7 -> 7
try:
    got = run(
        'accumulate', 0,
        {'_updater': 'set', '_value': 5},
        {'_updater': 'set', '_value': 7})
except Exception as e:  # pylint: disable=broad-except
    got = f'raised {e!r}'
if got != 7:
    failures.append(
        f"two updates carrying '_updater': 'set' (5 then 7): "
        f'expected 7, got {got!r}')

if failures:
    print('C08 VIOLATED: dictionary-valued updates of two ports to one '
          'variable are deep-merged into one another instead of being '
          'applied one after the other:')
    for failure in failures:
        print('  -', failure)
    sys.exit(1)
print('ok')
sys.exit(0)
