"""C08: an update u to a variable holding v leaves it holding f(v, u), where f
is the declared updater ... or a user function.

doc/guides/processes.rst ("New updaters can be easily defined and passed into
a port schema") declares a user function as

    '_updater': {'updater': random_updater}

and Store._check_schema_support_defaults has a branch for exactly this form
(it even resolves a registered name given under the 'updater' key).

Expected (property): with f = max, v = 1.0 and u = 5.0 the variable holds 5.0;
with {'updater': 'set'} it holds the update.
"""
import sys

from vivarium.core.process import Process
from vivarium.core.engine import Engine


def update_max(current_value, new_value):
    return max(current_value, new_value)


class UserUpdater(Process):
    defaults = {'updater': None}

    def ports_schema(self):
        return {
            'port1': {
                'variable1': {
                    '_default': 1.0,
                    '_updater': self.parameters['updater']}}}

    def next_update(self, timestep, states):
        return {'port1': {'variable1': 5.0}}


def run(updater):
    engine = Engine(
        processes={'p': UserUpdater({'updater': updater})},
        topology={'p': {'port1': ('store1',)}},
        display_info=False, progress_bar=False)
    engine.update(1)
    return engine.state.get_value()['store1']['variable1']


failures = []

# the bare function works
got = run(update_max)
if got != 5.0:
    failures.append(f'bare function: expected 5.0, got {got!r}')

for label, updater in [
        ("{'updater': update_max}", {'updater': update_max}),
        ("{'updater': 'set'}", {'updater': 'set'})]:
    try:
        got = run(updater)
    except Exception as e:  # pylint: disable=broad-except
        got = f'raised {e!r}'
    if got != 5.0:
        failures.append(f"'_updater': {label}: expected 5.0, got {got}")

if failures:
    print('C08 VIOLATED: the documented dictionary form of a user updater is '
          'accepted when the schema is applied but no update can be applied:')
    for failure in failures:
        print('  -', failure)
    sys.exit(1)
print('ok')
sys.exit(0)
