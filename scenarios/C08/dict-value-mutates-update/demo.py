"""C08 / f1: the registered 'dict_value' updater works in place on an object
that Store.add took BY REFERENCE from the '_add' entry of an update.

A process keeps the initial state of the agents it spawns as a template and
hands it over in an '_add' update (the documented structural update, key
'state').  The agents have a variable 'tags' with the registered 'dict_value'
updater.  Later, ordinary 'dict_value' updates to ONE agent's 'tags' are
applied.

Expected by the property:
  * the update objects handed in (and the template inside them) are not
    modified by the engine;
  * a variable that an update does not mention is untouched: an update to
    a1/tags does not change a2/tags and vice versa;
  * a2, added with state {'tags': {}}, starts with empty tags.
"""
import copy
import sys

from vivarium.core.engine import Engine
from vivarium.core.process import Process


class Spawner(Process):
    defaults = {'time_step': 1.0}

    def __init__(self, parameters=None):
        super().__init__(parameters)
        # what every new agent starts with
        self.template = {'tags': {}}
        self.calls = 0
        self.returned = []      # (update object, snapshot at return time)

    def ports_schema(self):
        return {
            'agents': {
                '*': {
                    'tags': {
                        '_default': {},
                        '_updater': 'dict_value',
                    }}}}

    def next_update(self, timestep, states):
        self.calls += 1
        if self.calls == 1:
            update = {'agents': {'_add': [
                {'key': 'a1', 'state': self.template}]}}
        elif self.calls == 2:
            update = {'agents': {'a1': {'tags': {
                '_add': [{'key': 'seen', 'state': {'t': 2}}]}}}}
        elif self.calls == 3:
            update = {'agents': {'_add': [
                {'key': 'a2', 'state': self.template}]}}
        elif self.calls == 4:
            update = {'agents': {'a2': {'tags': {
                '_add': [{'key': 'late', 'state': {'t': 4}}]}}}}
        else:
            update = {}
        self.returned.append((update, copy.deepcopy(update)))
        return update


def main():
    spawner = Spawner()
    engine = Engine(
        processes={'spawner': spawner},
        topology={'spawner': {'agents': ('agents',)}},
        emitter='null',
        display_info=False,
        progress_bar=False)
    engine.update(4)
    agents = engine.state.get_value()['agents']

    problems = []
    for i, (update, snapshot) in enumerate(spawner.returned):
        if update != snapshot:
            problems.append(
                f'update object #{i + 1} handed to the engine was modified: '
                f'returned {snapshot}, now {update}')
    if spawner.template != {'tags': {}}:
        problems.append(
            f'the process\'s template was modified: {spawner.template}')
    if agents['a1']['tags'] != {'seen': {'t': 2}}:
        problems.append(
            "a1/tags should be {'seen': {'t': 2}} (the update of step 4 "
            f"mentions only a2), got {agents['a1']['tags']}")
    if agents['a2']['tags'] != {'late': {'t': 4}}:
        problems.append(
            "a2/tags should be {'late': {'t': 4}} (added with empty tags at "
            f"step 3, one update at step 4), got {agents['a2']['tags']}")

    if problems:
        print('C08 VIOLATED')
        for problem in problems:
            print(' -', problem)
        return 1
    print('ok')
    return 0


if __name__ == '__main__':
    sys.exit(main())
