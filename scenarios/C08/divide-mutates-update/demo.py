"""C08 / f4: Store.divide writes into the update object it is handed.

A '_divide' update whose daughters name their processes AND their steps (the
form Store.divide supports: `if 'processes' in daughter or 'steps' in
daughter`) comes back changed: the daughters' 'steps' have been merged into
the daughters' 'processes' dictionaries of the caller's update.

Expected by the property ("the update object handed in is not modified";
Store.apply_update copies the caller's dict for exactly this reason before it
pops '_divide' from it): after Engine.update the update object the process
returned still lists, for every daughter, the processes it listed when it was
returned.
"""
import sys

from vivarium.core.engine import Engine
from vivarium.core.process import Process, Step


class Grow(Process):
    defaults = {'time_step': 1.0}

    def ports_schema(self):
        return {'cell': {'mass': {'_default': 1.0, '_divider': 'split'}}}

    def next_update(self, timestep, states):
        return {'cell': {'mass': 1.0}}


class Observe(Step):
    def ports_schema(self):
        return {'cell': {
            'mass': {'_default': 1.0, '_divider': 'split'},
            'seen': {'_default': 0.0, '_updater': 'set'}}}

    def next_update(self, timestep, states):
        return {'cell': {'seen': states['cell']['mass']}}


class DivideOnce(Process):
    defaults = {'time_step': 1.0}

    def __init__(self, parameters=None):
        super().__init__(parameters)
        self.returned = None
        self.listed = None

    def ports_schema(self):
        return {'agents': {'*': {}}}

    def next_update(self, timestep, states):
        if self.returned is not None or 'm' not in states['agents']:
            return {}
        daughters = []
        for key in ('d1', 'd2'):
            daughters.append({
                'key': key,
                'processes': {'grow': Grow()},
                'steps': {'observe': Observe()},
                'flow': {'observe': []},
                'topology': {
                    'grow': {'cell': ('cell',)},
                    'observe': {'cell': ('cell',)}},
                'initial_state': {}})
        update = {'agents': {'_divide': {
            'mother': 'm', 'daughters': daughters}}}
        self.returned = update
        self.listed = [
            (sorted(d['processes']), sorted(d['steps'])) for d in daughters]
        return update


def main():
    divide = DivideOnce()
    engine = Engine(
        processes={
            'divide': divide,
            'agents': {'m': {'grow': Grow()}}},
        steps={'agents': {'m': {'observe': Observe()}}},
        flow={'agents': {'m': {'observe': []}}},
        topology={
            'divide': {'agents': ('agents',)},
            'agents': {'m': {
                'grow': {'cell': ('cell',)},
                'observe': {'cell': ('cell',)}}}},
        emitter='null',
        display_info=False,
        progress_bar=False)
    engine.update(2)

    agents = engine.state.get_value()['agents']
    if sorted(agents) != ['d1', 'd2']:
        print('unexpected: division did not take place', sorted(agents))
        return 2

    daughters = divide.returned['agents']['_divide']['daughters']
    now = [(sorted(d['processes']), sorted(d['steps'])) for d in daughters]
    if now != divide.listed:
        print('C08 VIOLATED: the _divide update handed to the engine was '
              'modified')
        print('   (processes, steps) per daughter when returned:',
              divide.listed)
        print('   (processes, steps) per daughter after update():',
              now)
        return 1
    print('ok')
    return 0


if __name__ == '__main__':
    sys.exit(main())
