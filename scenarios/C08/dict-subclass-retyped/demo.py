"""C08 / f3: Engine.update rebuilds every dict-like update VALUE as a plain
dict before the updater sees it, so f(v, u) is computed on something else
than the u the process returned.

A variable holds a collections.Counter (molecule counts by name) and uses the
default 'accumulate' updater, current + update; Counter + Counter is defined.
A second variable uses the 'set' updater and is given a
collections.defaultdict.  One process, one port, ordinary tuple topology.

Expected by the property:
  * counts == Counter() + Counter(a=1, b=2) + Counter(a=1, b=2) after two
    steps - which is what Store.apply_update gives when it is handed the
    same updates directly;
  * lookup holds the value that was set: a defaultdict(list).
"""
import collections
import sys

from vivarium.core.engine import Engine
from vivarium.core.process import Process
from vivarium.core.store import Store

def make_update():
    return {
        'counts': collections.Counter(a=1, b=2),
        'lookup': collections.defaultdict(list, {'a': [1]}),
    }


class Count(Process):
    defaults = {'time_step': 1.0}

    def ports_schema(self):
        return {'cell': {
            'counts': {'_default': collections.Counter()},
            'lookup': {'_default': {}, '_updater': 'set'}}}

    def next_update(self, timestep, states):
        return {'cell': make_update()}


def main():
    expected_counts = collections.Counter(a=2, b=4)

    # reference: the same two updates given to the store directly
    store = Store({'cell': {
        'counts': {'_default': collections.Counter()},
        'lookup': {'_default': {}, '_updater': 'set'}}})
    store.apply_defaults()
    store.apply_update({'cell': make_update()})
    store.apply_update({'cell': make_update()})
    direct = store.get_value()['cell']
    assert direct['counts'] == expected_counts
    assert isinstance(direct['counts'], collections.Counter)
    assert isinstance(direct['lookup'], collections.defaultdict)

    engine = Engine(
        processes={'count': Count()},
        topology={'count': {'cell': ('cell',)}},
        emitter='null',
        display_info=False,
        progress_bar=False)
    try:
        engine.update(2)
    except Exception as error:  # pylint: disable=broad-except
        print('C08 VIOLATED: Engine.update could not apply updates that '
              'Store.apply_update applies:')
        print('   ', type(error).__name__, error)
        return 1

    cell = engine.state.get_value()['cell']
    problems = []
    if cell['counts'] != expected_counts or not isinstance(
            cell['counts'], collections.Counter):
        problems.append(f"counts: {cell['counts']!r}")
    if not isinstance(cell['lookup'], collections.defaultdict):
        problems.append(
            f"lookup: set to a defaultdict, holds {type(cell['lookup'])}")
    if problems:
        print('C08 VIOLATED:', problems)
        return 1
    print('ok')
    return 0


if __name__ == '__main__':
    sys.exit(main())
