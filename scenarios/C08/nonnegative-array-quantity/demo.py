"""C08 / f2: the registered 'nonnegative_accumulate' updater cannot be applied
to a quantity whose magnitude is an array.

A variable holds the masses of three pools as one pint quantity with an
array magnitude, [1, 2, 3] g, declared with the registered updater
'nonnegative_accumulate'.  A process returns the change [-3, 1, -0.5] g
(and, in a second variable, the same change expressed in mg).

Expected by the property: the variable holds f(v, u) = the element-wise sum
with negative entries set to 0, in the declared unit: [0, 3, 2.5] g - this is
what the same updater gives for the plain arrays and what it gives entry by
entry for scalar quantities.
"""
import sys

import numpy as np

from vivarium.core.engine import Engine
from vivarium.core.process import Process
from vivarium.library.units import units


class Drain(Process):
    defaults = {'time_step': 1.0}

    def ports_schema(self):
        return {
            'pools': {
                'plain': {
                    '_default': np.array([1.0, 2.0, 3.0]),
                    '_updater': 'nonnegative_accumulate'},
                'scalar_mass': {
                    '_default': 1.0 * units.g,
                    '_updater': 'nonnegative_accumulate'},
                'mass': {
                    '_default': np.array([1.0, 2.0, 3.0]) * units.g,
                    '_updater': 'nonnegative_accumulate'},
                'mass_mg': {
                    '_default': np.array([1.0, 2.0, 3.0]) * units.g,
                    '_updater': 'nonnegative_accumulate'},
            }}

    def next_update(self, timestep, states):
        change = np.array([-3.0, 1.0, -0.5])
        return {
            'pools': {
                'plain': change,
                'scalar_mass': -3.0 * units.g,
                'mass': change * units.g,
                'mass_mg': 1000 * change * units.mg,
            }}


def main():
    engine = Engine(
        processes={'drain': Drain()},
        topology={'drain': {'pools': ('pools',)}},
        emitter='null',
        display_info=False,
        progress_bar=False)
    try:
        engine.update(1)
    except Exception as error:  # pylint: disable=broad-except
        print('C08 VIOLATED: Engine.update raised instead of applying '
              'nonnegative_accumulate to an array quantity:')
        print('   ', type(error).__name__, error)
        return 1

    pools = engine.state.get_value()['pools']
    expected = np.array([0.0, 3.0, 2.5])
    problems = []
    if not np.array_equal(pools['plain'], expected):
        problems.append(f"plain: {pools['plain']}")
    if not (pools['scalar_mass'].units == units.g
            and pools['scalar_mass'].magnitude == 0):
        problems.append(f"scalar_mass: {pools['scalar_mass']}")
    for name in ('mass', 'mass_mg'):
        value = pools[name]
        if not (value.units == units.g
                and np.allclose(value.magnitude, expected)):
            problems.append(f'{name}: expected {expected} gram, got {value}')
    if problems:
        print('C08 VIOLATED:', problems)
        return 1
    print('ok')
    return 0


if __name__ == '__main__':
    sys.exit(main())
