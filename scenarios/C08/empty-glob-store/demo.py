"""C08: applying an update leaves every mentioned variable holding f(v, u);
variables not mentioned are untouched (for all hierarchy shapes).

A process has a port over a store of agents declared the way the shipped
processes declare it ('agents': {'*': {}} in vivarium/processes/remove.py,
'agents': {} in meta_division.py) and a counter.  The store has no children
(no agent yet / the last agent was removed).

Case 1: the process returns {'agents': {}, 'n': 1}: an update that mentions no
        variable below 'agents'.  Expected: n == 1, agents unchanged (empty).
Case 2: the only agent (a real child store: it holds a process) is removed by
        '_delete' in the first step; the agent's own process has computed an
        update for the same step, which arrives after the deletion, and from
        then on the keeper returns {'agents': {}, 'n': 1}.  Expected after 3
        steps: n == 3, no agents.  (Control: with a second agent 'b' that
        stays, the very same run works.)
Case 3: the process adds the first agent with '_add'.  Expected: the agent is
        there with its state and n == 1.
"""
import sys

from vivarium.core.process import Process
from vivarium.core.engine import Engine


class Keeper(Process):
    defaults = {'schema': {'*': {}}, 'mode': 'idle'}

    def ports_schema(self):
        return {
            'agents': self.parameters['schema'],
            'n': {'_default': 0}}

    def next_update(self, timestep, states):
        mode = self.parameters['mode']
        agents = {}
        if mode == 'reap' and states['agents']:
            agents = {'_delete': ['a']} if 'a' in states['agents'] else {}
        elif mode == 'spawn' and not states['agents']:
            agents = {'_add': [{'key': 'a', 'state': {'x': 1}}]}
        return {'agents': agents, 'n': 1}


class Grow(Process):
    """Lives inside an agent, so that the agent is a real child store."""

    def ports_schema(self):
        return {'inner': {'x': {'_default': 1}}}

    def next_update(self, timestep, states):
        return {'inner': {'x': 1}}


def run(schema, mode, with_agent, steps):
    processes = {'keeper': Keeper({'schema': schema, 'mode': mode})}
    topology = {'keeper': {'agents': ('agents',), 'n': ('n',)}}
    if with_agent:
        processes['agents'] = {
            agent: {'grow': Grow()} for agent in with_agent}
        topology['agents'] = {
            agent: {'grow': {'inner': ()}} for agent in with_agent}
    engine = Engine(
        processes=processes,
        topology=topology,
        display_info=False, progress_bar=False)
    for _ in range(steps):
        engine.update(1)
    state = engine.state.get_value()
    agents = {
        agent: {'x': inner['x']}
        for agent, inner in (state['agents'] or {}).items()}
    return state['n'], agents


failures = []

# control: deleting one of two agents works
got = run({'*': {}}, 'reap', ['a', 'b'], 3)
if got != (3, {'b': {'x': 4}}):
    failures.append(f"control (agent b stays): expected (3, {{'b': {{'x': 4}}}}), got {got!r}")

cases = [
    ("idle, 'agents': {'*': {}}", {'*': {}}, 'idle', False, 1, (1, {})),
    ("idle, 'agents': {}", {}, 'idle', False, 1, (1, {})),
    ("last agent deleted, then idle", {'*': {}}, 'reap',
        ['a'], 3, (3, {})),
    ("first agent added", {'*': {}}, 'spawn', False, 1, (1, {'a': {'x': 1}})),
]
for label, schema, mode, with_agent, steps, want in cases:
    try:
        got = run(schema, mode, with_agent, steps)
    except Exception as e:  # pylint: disable=broad-except
        got = f'raised {e!r}'
    if got != want:
        failures.append(f'{label}: expected (n, agents) == {want!r}, got {got}')

if failures:
    print('C08 VIOLATED: Store.apply_update takes a store without children '
          'for a variable and looks for its updater:')
    for failure in failures:
        print('  -', failure)
    sys.exit(1)
print('ok')
sys.exit(0)
