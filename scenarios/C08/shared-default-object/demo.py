"""C08: variables not mentioned in an update are untouched.

A glob port declares, for every agent under 'agents', a dictionary variable 'd'
with the registered 'dict_value' updater and the default {}.  A process updates
agent a's 'd' only.

Expected (property): agents/a/d == {'k': {'q': 1}} and agents/b/d (never
mentioned in any update) still == {}.
"""
import sys

from vivarium.core.process import Process
from vivarium.core.engine import Engine


class Tagger(Process):
    def ports_schema(self):
        return {
            'agents': {
                '*': {
                    'd': {'_default': {}, '_updater': 'dict_value'},
                    'n': {'_default': 0}}}}

    def next_update(self, timestep, states):
        return {
            'agents': {
                'a': {
                    'd': {'_add': [{'key': 'k', 'state': {'q': 1}}]},
                    'n': 1}}}


engine = Engine(
    processes={'tagger': Tagger()},
    topology={'tagger': {'agents': ('agents',)}},
    initial_state={'agents': {'a': {'n': 0}, 'b': {'n': 0}}},
    display_info=False, progress_bar=False)

before = engine.state.get_value()['agents']
assert before == {'a': {'d': {}, 'n': 0}, 'b': {'d': {}, 'n': 0}}, before

engine.update(1)
after = engine.state.get_value()['agents']

failures = []
if after['a'] != {'d': {'k': {'q': 1}}, 'n': 1}:
    failures.append(f"agents/a: expected d={{'k': {{'q': 1}}}}, n=1; got {after['a']!r}")
if after['b'] != {'d': {}, 'n': 0}:
    failures.append(
        f"agents/b was not mentioned in the update and must stay "
        f"{{'d': {{}}, 'n': 0}}; got {after['b']!r}")

if failures:
    print('C08 VIOLATED: the dict_value updater changes the current value in '
          'place, and the children of a glob store share one default object:')
    for failure in failures:
        print('  -', failure)
    sys.exit(1)
print('ok')
sys.exit(0)
