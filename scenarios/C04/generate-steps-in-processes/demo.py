"""C04: steps that enter the simulation through the 'processes' entry of a
`_generate` update lose their flow: they are run one after the other in the
order in which they are LISTED, not by dependency layer.

The compartment consists of a process `clock` (x += 1) and two steps with the
flow  {'double': [], 'plus': [('double',)]}:

* `double` sets  y = 2 * x
* `plus`   sets  z = y + 1      (depends on `double`)

so that after every instant z == 2 * x + 1, whatever the listing order.

Part 1 (reference): the compartment given to the Engine constructor, the steps
listed in the processes dictionary (supported: Engine._add_process_path looks
up their flow) - both listing orders give z == 2 * x + 1.

Part 2: the very same compartment created at run time by a `_generate` update
(the documented keys of `_generate` are processes / topology / initial_state,
plus flow).  Expected: the same.  Observed: listed (double, plus) z == 2x + 1,
listed (plus, double) z lags one instant behind (z == 2 * (x - 1) + 1):
Engine.apply_update registers the steps found among the process updates with
`self._add_process_path(process, path, {})` - an empty flow - so they become
legacy sequential steps that run in insertion order.
"""
import sys

from vivarium.core.engine import Engine
from vivarium.core.process import Process, Step


class Clock(Process):
    defaults = {'timestep': 1}

    def ports_schema(self):
        return {'p': {'x': {'_default': 0, '_emit': True}}}

    def next_update(self, timestep, states):
        return {'p': {'x': 1}}


SET = {'_default': 0, '_emit': True, '_updater': 'set'}


class Double(Step):
    def ports_schema(self):
        return {'p': {'x': {'_default': 0, '_emit': True}, 'y': dict(SET)}}

    def next_update(self, timestep, states):
        return {'p': {'y': 2 * states['p']['x']}}


class PlusOne(Step):
    def ports_schema(self):
        return {'p': {'y': dict(SET), 'z': dict(SET)}}

    def next_update(self, timestep, states):
        return {'p': {'z': states['p']['y'] + 1}}


def compartment(order):
    processes = {'clock': Clock(), 'double': Double(), 'plus': PlusOne()}
    return {
        'processes': {name: processes[name] for name in order},
        'topology': {name: {'p': ('s',)} for name in order},
        'flow': {'double': [], 'plus': [('double',)]}}


class Generator(Process):
    defaults = {'timestep': 1, 'order': None}

    def ports_schema(self):
        return {'agents': {'*': {'s': {'x': {'_default': 0, '_emit': True}}}}}

    def next_update(self, timestep, states):
        if 'c' in states['agents']:
            return {}
        generate = compartment(self.parameters['order'])
        generate['key'] = 'c'
        generate['initial_state'] = {}
        return {'agents': {'_generate': [generate]}}


def at_construction(order):
    parts = compartment(order)
    engine = Engine(
        processes=parts['processes'], topology=parts['topology'],
        flow=parts['flow'], display_info=False, emitter='timeseries')
    engine.update(3)
    return {t: row['s'] for t, row in engine.emitter.get_data().items()}


def at_run_time(order):
    engine = Engine(
        processes={'generator': Generator({'order': order})},
        topology={'generator': {'agents': ('agents',)}},
        display_info=False, emitter='timeseries')
    engine.update(4)
    return {
        t: row['agents']['c']['s']
        for t, row in engine.emitter.get_data().items()
        if 'c' in row.get('agents', {})}


def check(label, data):
    ok = True
    for t, s in sorted(data.items()):
        if s['z'] != 2 * s['x'] + 1:
            print('  %s: at t=%s x=%s y=%s z=%s, expected z == 2*x+1 == %s' % (
                label, t, s['x'], s['y'], s['z'], 2 * s['x'] + 1))
            ok = False
    return ok


def main():
    orders = (['clock', 'double', 'plus'], ['clock', 'plus', 'double'])
    failed = False

    reference = [at_construction(order) for order in orders]
    print('at construction:', reference[0] == reference[1] and all(
        check('construction ' + ','.join(order), data)
        for order, data in zip(orders, reference)))
    if reference[0] != reference[1]:
        failed = True

    generated = [at_run_time(order) for order in orders]
    for order, data in zip(orders, generated):
        if not check('_generate, listed ' + ','.join(order), data):
            failed = True
    if generated[0] != generated[1]:
        failed = True
        print('VIOLATION: the trajectory of the generated compartment '
              'depends on the order in which its steps are listed')
        print('  listed double,plus :', generated[0])
        print('  listed plus,double :', generated[1])
    if failed:
        return 1
    print('OK')
    return 0


if __name__ == '__main__':
    sys.exit(main())
