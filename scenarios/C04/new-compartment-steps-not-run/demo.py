"""C04 - 'the state after every update due at or before that instant AND THE
ENSUING STEPS'.

An agent holds a process (Grow: mass += 1 per second), a deriver step
(Doubler: double := 2 * mass, 'set' updater) and the library's own division
step (vivarium.processes.division.Division, which depends on Doubler in the
flow).  The derivers exist so that every state that is handed to a process -
and every emitted row - satisfies  double == 2 * mass.

Expected (property C04): every process started at an instant is shown the
state after the updates due at that instant and the ensuing steps, i.e. a
state in which Doubler has run: double == 2 * mass in every `states` given to
Grow.next_update and in every emitted row.  That is what happens at
construction, at every ordinary tick, and when the very same division is
issued by a Process instead of a Step (control run below).

Observed: when the `_divide` is issued by a Step (the way the library's
Division / MetaDivision do it), the daughters' steps are registered in the
step graph but Engine.run_steps goes on with the list of layers it took at
the start of the phase; the daughters' Doubler never runs in that phase.  The
daughters' Grow processes are started, and the row of that instant is
emitted, with double == 2 * (mother's mass) next to mass == mother's mass/2.
"""
import sys

from vivarium.core.composer import Composer
from vivarium.core.engine import Engine
from vivarium.core.process import Process, Step
from vivarium.processes.division import Division, get_divide_update

SEEN = []


class Grow(Process):
    defaults = {'timestep': 1.0, 'agent_id': None}

    def ports_schema(self):
        return {
            'mass': {'_default': 4.0, '_emit': True, '_divider': 'split'},
            'double': {'_default': 0.0, '_emit': True}}

    def next_update(self, timestep, states):
        SEEN.append(
            (self.parameters['agent_id'], states['mass'], states['double']))
        return {'mass': 1.0}


class Doubler(Step):
    def ports_schema(self):
        return {
            'mass': {'_default': 4.0},
            'double': {'_default': 0.0, '_updater': 'set', '_emit': True}}

    def next_update(self, timestep, states):
        return {'double': 2 * states['mass']}


class DivideProcess(Process):
    """Control: the same _divide, issued by a process."""
    defaults = {'timestep': 1.0}

    def ports_schema(self):
        return {'mass': {'_default': 4.0}, 'agents': {}}

    def next_update(self, timestep, states):
        # mass seen + the 1.0 Grow adds in the same interval
        if states['mass'] + 1.0 >= 6:
            agent_id = self.parameters['agent_id']
            return {'agents': get_divide_update(
                self.parameters['composer'], agent_id,
                [agent_id + '0', agent_id + '1'])}
        return {}


class Agent(Composer):
    defaults = {'agent_id': 'a', 'divide_with_step': True}

    def generate_processes(self, config):
        processes = {'grow': Grow({'agent_id': config['agent_id']})}
        if not config['divide_with_step']:
            processes['division'] = DivideProcess({
                'agent_id': config['agent_id'], 'composer': self})
        return processes

    def generate_steps(self, config):
        steps = {'doubler': Doubler()}
        if config['divide_with_step']:
            steps['division'] = Division({
                'agent_id': config['agent_id'],
                'composer': self,
                'condition_config': {'threshold': 6}})
        return steps

    def generate_flow(self, config):
        flow = {'doubler': []}
        if config['divide_with_step']:
            flow['division'] = [('doubler',)]
        return flow

    def generate_topology(self, config):
        return {
            'grow': {'mass': ('mass',), 'double': ('double',)},
            'doubler': {'mass': ('mass',), 'double': ('double',)},
            'division': {
                ('variable' if config['divide_with_step'] else 'mass'):
                    ('mass',),
                'agents': ('..',)}}


def run(divide_with_step):
    del SEEN[:]
    composer = Agent({'divide_with_step': divide_with_step})
    composite = composer.generate({'agent_id': 'a'}, path=('agents', 'a'))
    engine = Engine(composite=composite, display_info=False)
    engine.update(4)
    problems = []
    for agent_id, mass, double in SEEN:
        if double != 2 * mass:
            problems.append(
                'process grow of agent %r was started with mass=%r, '
                'double=%r (steps not run on this state)'
                % (agent_id, mass, double))
    for time, row in sorted(engine.emitter.get_data().items()):
        for agent_id, values in row['agents'].items():
            if values['double'] != 2 * values['mass']:
                problems.append(
                    'row at time %r, agent %r: mass=%r double=%r'
                    % (time, agent_id, values['mass'], values['double']))
    divided = any(agent_id != 'a' for agent_id, _, _ in SEEN)
    return divided, problems


def main():
    divided, problems = run(divide_with_step=False)
    assert divided, 'control run did not divide'
    print('control (division issued by a process): %d problems'
          % len(problems))
    if problems:
        print('\n'.join(problems))
        return 1
    divided, problems = run(divide_with_step=True)
    assert divided, 'run did not divide'
    print('division issued by the library Division step: %d problems'
          % len(problems))
    if problems:
        print('\n'.join(problems))
        print('VIOLATION: processes were started on (and a row was emitted '
              'of) a state on which the ensuing steps had not run')
        return 1
    print('OK')
    return 0


if __name__ == '__main__':
    sys.exit(main())
