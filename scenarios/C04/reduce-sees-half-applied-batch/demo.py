"""C04: a `_reduce` update is evaluated when it is APPLIED, against a store
that already holds the updates of the processes listed earlier in the same
batch (and not those of the processes listed later).

Two processes with the same timestep are started together at every instant:

* `grow`  adds 1 to each of the two counters  cells/a/count, cells/b/count
  (accumulating updates);
* `total` returns the documented `_reduce` update (the form used by
  vivarium.processes.tree_mass.TreeMass) that sums the counters below `cells`
  and stores the sum in  summary/total  (a `set` update to a variable nobody
  else writes).

The two updates go to distinct variables, so by the property the emitted
trajectory must not depend on the order in which the two processes are listed.
Expected: identical trajectories.  Observed: listed (grow, total) the total at
time t is the sum AFTER grow's update of that instant; listed (total, grow) it
is the sum BEFORE it - the reducer is given a view of a half-applied batch.
"""
import sys

from vivarium.core.engine import Engine
from vivarium.core.process import Process


def add_counts(value, path, node):
    # reducer: sum every leaf called 'count' below the start node
    if path and path[-1] == 'count':
        return value + node.value
    return value


class Grow(Process):
    defaults = {'timestep': 1}

    def ports_schema(self):
        return {'cells': {'*': {'count': {'_default': 0, '_emit': True}}}}

    def next_update(self, timestep, states):
        return {'cells': {key: {'count': 1} for key in states['cells']}}


class Total(Process):
    defaults = {'timestep': 1}

    def ports_schema(self):
        return {
            'summary': {
                'total': {'_default': 0, '_updater': 'set', '_emit': True}}}

    def next_update(self, timestep, states):
        return {
            'summary': {
                'total': {
                    '_reduce': {
                        'reducer': add_counts,
                        'from': ('..', '..', 'cells'),  # relative to the variable
                        'initial': 0}}}}


def run(order):
    processes = {'grow': Grow(), 'total': Total()}
    topology = {
        'grow': {'cells': ('cells',)},
        'total': {'summary': ('summary',)}}
    engine = Engine(
        processes={name: processes[name] for name in order},
        topology={name: topology[name] for name in order},
        initial_state={
            'cells': {'a': {'count': 0}, 'b': {'count': 0}}},
        display_info=False,
        emitter='timeseries')
    engine.update(3)
    return engine.emitter.get_data()


def main():
    first = run(['grow', 'total'])
    second = run(['total', 'grow'])
    print('listed grow,total :',
          {t: row['summary']['total'] for t, row in first.items()})
    print('listed total,grow :',
          {t: row['summary']['total'] for t, row in second.items()})
    if first != second:
        for t in sorted(first):
            if first[t] != second.get(t):
                print('VIOLATION: trajectories differ at time', t)
                print('  listed grow,total :', first[t])
                print('  listed total,grow :', second.get(t))
                break
        print('the _reduce update of `total` was evaluated between the '
              'application of two updates of one batch')
        return 1
    print('OK: the trajectory does not depend on the listing order')
    return 0


if __name__ == '__main__':
    sys.exit(main())
