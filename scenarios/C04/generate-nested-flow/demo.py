"""C04: the flow of a `_generate` update is only read one level deep: steps of
a NESTED compartment of the generated subtree lose their dependencies and are
run in listing order.

The generate directive creates  agents/c  with an inner compartment `inner`:

    'processes': {'inner': {'clock': Clock()}},
    'steps':     {'inner': {'double': Double(), 'plus': PlusOne()}},
    'flow':      {'inner': {'double': [], 'plus': [('double',)]}},

`double` sets y = 2 * x, `plus` sets z = y + 1 and depends on `double`, so
z == 2 * x + 1 must hold after every instant in either listing order of the
two steps.

Reference 1: the same nested dictionaries given to the Engine constructor work
in both listing orders.  Reference 2: the flat form of the same `_generate`
(no inner compartment) works in both listing orders.

Observed for the nested form: listed (double, plus) z == 2x+1; listed
(plus, double) z lags one instant behind.  Store.insert builds
`flow_paths = [(root + (key,), flow) for key, flow in insertion['flow'].items()]`
- one entry ('agents','c','inner') -> {...} - while the step updates carry the
full paths ('agents','c','inner','plus'); Engine.apply_update looks the
dependencies up with `flow_update_dict.get(path)`, finds None and registers
both steps as legacy sequential steps (insertion order).
"""
import sys

from vivarium.core.engine import Engine
from vivarium.core.process import Process, Step


class Clock(Process):
    defaults = {'timestep': 1}

    def ports_schema(self):
        return {'p': {'x': {'_default': 0, '_emit': True}}}

    def next_update(self, timestep, states):
        return {'p': {'x': 1}}


SET = {'_default': 0, '_emit': True, '_updater': 'set'}


class Double(Step):
    def ports_schema(self):
        return {'p': {'x': {'_default': 0, '_emit': True}, 'y': dict(SET)}}

    def next_update(self, timestep, states):
        return {'p': {'y': 2 * states['p']['x']}}


class PlusOne(Step):
    def ports_schema(self):
        return {'p': {'y': dict(SET), 'z': dict(SET)}}

    def next_update(self, timestep, states):
        return {'p': {'z': states['p']['y'] + 1}}


def parts(order, nested):
    steps = {'double': Double(), 'plus': PlusOne()}
    steps = {name: steps[name] for name in order}
    processes = {'clock': Clock()}
    topology = {
        name: {'p': ('s',)} for name in ['clock'] + list(order)}
    flow = {'double': [], 'plus': [('double',)]}
    if nested:
        return {
            'processes': {'inner': processes}, 'steps': {'inner': steps},
            'topology': {'inner': topology}, 'flow': {'inner': flow}}
    return {
        'processes': processes, 'steps': steps,
        'topology': topology, 'flow': flow}


class Generator(Process):
    defaults = {'timestep': 1, 'order': None, 'nested': True}

    def ports_schema(self):
        return {'agents': {'*': {'tag': {'_default': 0}}}}

    def next_update(self, timestep, states):
        if 'c' in states['agents']:
            return {}
        generate = parts(self.parameters['order'], self.parameters['nested'])
        generate['key'] = 'c'
        generate['initial_state'] = {}
        return {'agents': {'_generate': [generate]}}


def at_construction(order):
    composite = parts(order, nested=True)
    engine = Engine(
        processes=composite['processes'], steps=composite['steps'],
        topology=composite['topology'], flow=composite['flow'],
        display_info=False, emitter='timeseries')
    engine.update(3)
    return {
        t: row['inner']['s'] for t, row in engine.emitter.get_data().items()}


def at_run_time(order, nested):
    engine = Engine(
        processes={
            'generator': Generator({'order': order, 'nested': nested})},
        topology={'generator': {'agents': ('agents',)}},
        display_info=False, emitter='timeseries')
    engine.update(4)
    data = {}
    for t, row in engine.emitter.get_data().items():
        node = row.get('agents', {}).get('c')
        if node:
            data[t] = node['inner']['s'] if nested else node['s']
    return data


def consistent(label, data):
    ok = True
    for t, s in sorted(data.items()):
        if s['z'] != 2 * s['x'] + 1:
            print('  %s: at t=%s x=%s y=%s z=%s, expected z == 2*x+1 == %s' % (
                label, t, s['x'], s['y'], s['z'], 2 * s['x'] + 1))
            ok = False
    return ok


def main():
    orders = (['double', 'plus'], ['plus', 'double'])
    failed = False

    for label, runner in (
            ('constructor, nested', at_construction),
            ('_generate, flat', lambda order: at_run_time(order, False))):
        results = [runner(order) for order in orders]
        good = results[0] == results[1] and all(
            consistent(label, data) for data in results)
        print('reference (%s): %s' % (
            label, 'order-independent' if good else 'BROKEN'))
        if not good:
            failed = True

    results = [at_run_time(order, True) for order in orders]
    for order, data in zip(orders, results):
        if not consistent(
                '_generate, nested, listed ' + ','.join(order), data):
            failed = True
    if results[0] != results[1]:
        failed = True
        print('VIOLATION: the trajectory of the generated nested compartment '
              'depends on the order in which its steps are listed')
        print('  listed double,plus :', results[0])
        print('  listed plus,double :', results[1])
    if failed:
        return 1
    print('OK')
    return 0


if __name__ == '__main__':
    sys.exit(main())
