"""C04: an accumulating update that is due at the same instant as a `_divide`
(or `_move`) of the compartment it points into is applied or silently dropped
depending on the order in which the two processes are listed.

Compartment agents/m holds two processes with the same timestep, so both are
started together at every instant and both updates are due together:

* `grow`   adds 2 to  agents/m/store/mass  (accumulate, divider 'split');
* `divide` returns the `_divide` update for its own compartment once the mass
  it is shown has reached 12.

At t=1 both are shown mass=12; at t=2 both updates are due.  The state the
daughters start from must be "the state after every update due at or before
that instant", i.e. the mother's 12 + 2 = 14 split into 7 + 7, whatever the
listing order.

Observed: listed (grow, divide) the daughters get 7 + 7; listed (divide, grow)
the division is applied first, grow's update {'agents': {'m': ...}} no longer
finds agents/m, Store.apply_update skips the unknown key without a word, and
the daughters get 6 + 6: two units of mass that a live process returned are
lost and the trajectory depends on the listing order.

The second part shows the same for `_move` (a compartment moved from store ga
to store gb by an outside process while the process inside it adds 1 to its
own counter at the same instant).
"""
import sys

from vivarium.core.engine import Engine
from vivarium.core.process import Process

MASS = {'_default': 10, '_emit': True, '_divider': 'split'}


class Grow(Process):
    defaults = {'timestep': 1}

    def ports_schema(self):
        return {'p': {'mass': dict(MASS)}}

    def next_update(self, timestep, states):
        return {'p': {'mass': 2}}


def daughter(key):
    return {
        'key': key,
        'processes': {'grow': Grow()},
        'topology': {'grow': {'p': ('store',)}}}


class Divide(Process):
    defaults = {'timestep': 1}

    def ports_schema(self):
        return {
            'p': {'mass': dict(MASS)},
            'agents': {'*': {'store': {'mass': dict(MASS)}}}}

    def next_update(self, timestep, states):
        if states['p']['mass'] >= 12:
            return {
                'agents': {
                    '_divide': {
                        'mother': 'm',
                        'daughters': [daughter('d1'), daughter('d2')]}}}
        return {}


def run_divide(order):
    processes = {'grow': Grow(), 'divide': Divide()}
    topology = {
        'grow': {'p': ('store',)},
        'divide': {'p': ('store',), 'agents': ('..',)}}
    engine = Engine(
        processes={'agents': {'m': {k: processes[k] for k in order}}},
        topology={'agents': {'m': {k: topology[k] for k in order}}},
        display_info=False,
        emitter='timeseries')
    engine.update(3)
    return engine.emitter.get_data()


class Count(Process):
    defaults = {'timestep': 1}

    def ports_schema(self):
        return {'p': {'x': {'_default': 0, '_emit': True}}}

    def next_update(self, timestep, states):
        return {'p': {'x': 1}}


class Mover(Process):
    defaults = {'timestep': 1}

    def ports_schema(self):
        child = {'x': {'_default': 0, '_emit': True}}
        return {'src': {'*': child}, 'dst': {'*': child}}

    def next_update(self, timestep, states):
        if 'k1' in states['src'] and states['src']['k1']['x'] >= 1:
            return {'src': {'_move': [{'source': ('k1',), 'target': 'dst'}]}}
        return {}


def run_move(order):
    processes = {'ga': {'k1': {'count': Count()}}, 'mover': Mover()}
    topology = {
        'ga': {'k1': {'count': {'p': ()}}},
        'mover': {'src': ('ga',), 'dst': ('gb',)}}
    engine = Engine(
        processes={k: processes[k] for k in order},
        topology={k: topology[k] for k in order},
        display_info=False,
        emitter='timeseries')
    engine.update(3)
    return engine.emitter.get_data()


def first_difference(first, second):
    for t in sorted(set(first) | set(second)):
        if first.get(t) != second.get(t):
            return t, first.get(t), second.get(t)
    return None


def main():
    failed = False

    first = run_divide(['grow', 'divide'])
    second = run_divide(['divide', 'grow'])
    for name, data in (('grow,divide', first), ('divide,grow', second)):
        agents = data[2]['agents']
        total = sum(a['store']['mass'] for a in agents.values())
        print('_divide, listed %-12s: at t=2 %s (total %s, expected 14)' % (
            name, agents, total))
        if total != 14:
            failed = True
    diff = first_difference(first, second)
    if diff:
        failed = True
        print('VIOLATION (_divide): trajectories differ at time', diff[0])

    first = run_move(['ga', 'mover'])
    second = run_move(['mover', 'ga'])
    for name, data in (('ga,mover', first), ('mover,ga', second)):
        print('_move,   listed %-12s: at t=2 %s (expected gb/k1/x == 2)' % (
            name, data[2]))
        if data[2].get('gb', {}).get('k1', {}).get('x') != 2:
            failed = True
    diff = first_difference(first, second)
    if diff:
        failed = True
        print('VIOLATION (_move): trajectories differ at time', diff[0])

    if failed:
        print('an update due at the same instant as the structural update '
              'was dropped, depending on the listing order')
        return 1
    print('OK')
    return 0


if __name__ == '__main__':
    sys.exit(main())
