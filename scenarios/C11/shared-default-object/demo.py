"""C11 - daughters are completed by schema defaults and hold separate state.

An environment process declares, through a glob ('*') port over the agents
store, a per-agent event log:
    events: {'_default': {}, '_updater': 'dict_value', '_divider': 'null'}
('null' = the variable is skipped at division, so each daughter starts from
the schema default; 'dict_value' is the built-in dictionary updater).

Store.apply_defaults assigns the declared default OBJECT itself
(`self.value = self.default`), and under a glob schema every child is
configured from the one sub-schema dictionary, so all children share one
default object.  After the division both daughters' `events` value is the
very same dict (which is also the sub-schema's '_default'), so the event
that the environment records for daughter 'a' alone appears in daughter
'b', in the bystander agent 'c' outside the divided compartment, and in
the schema default that later-born agents will start from.

Expected (property): after the division a.events == b.events == {}; after
the environment logs an event for 'a' only, b.events and c.events are
still {}.
"""
import sys

from vivarium.core.process import Process
from vivarium.core.engine import Engine


class Cell(Process):
    def ports_schema(self):
        return {'s': {'x': {'_default': 0, '_divider': 'split'}}}

    def next_update(self, timestep, states):
        return {}


class Environment(Process):
    """Logs an event for every agent named in `watch`."""
    defaults = {'watch': ['a']}

    def __init__(self, parameters=None):
        super().__init__(parameters)
        self.t = 0

    def ports_schema(self):
        return {'agents': {'*': {'s': {'events': {
            '_default': {},
            '_updater': 'dict_value',
            '_divider': 'null'}}}}}

    def next_update(self, timestep, states):
        self.t += timestep
        return {'agents': {
            agent: {'s': {'events': {'_add': [{
                'key': 'seen@%d' % self.t, 'state': {'t': self.t}}]}}}
            for agent in states['agents'] if agent in self.parameters['watch']}}


class Splitter(Process):
    """Divides agent 'm' at t=1 into 'a' and 'b'."""

    def __init__(self, parameters=None):
        super().__init__(parameters)
        self.t = 0

    def ports_schema(self):
        return {'agents': {}}

    def next_update(self, timestep, states):
        self.t += timestep
        if self.t != 1:
            return {}
        daughters = [{
            'key': key,
            'processes': {'cell': Cell()},
            'topology': {'cell': {'s': ('s',)}}} for key in ('a', 'b')]
        return {'agents': {'_divide': {'mother': 'm', 'daughters': daughters}}}


def main():
    engine = Engine(
        processes={
            'agents': {'m': {'cell': Cell()}, 'c': {'cell': Cell()}},
            'environment': Environment(),
            'splitter': Splitter()},
        topology={
            'agents': {
                'm': {'cell': {'s': ('s',)}},
                'c': {'cell': {'s': ('s',)}}},
            'environment': {'agents': ('agents',)},
            'splitter': {'agents': ('agents',)}},
        initial_state={'agents': {
            'm': {'s': {'x': 7, 'events': {'old': {'t': -1}}}}}},
        progress_bar=False)
    engine.update(1)   # 'm' divides into 'a' and 'b'
    agents = engine.state.get_value()['agents']
    after_division = {k: dict(agents[k]['s']['events']) for k in 'abc'}
    print('events right after the division:', after_division)
    engine.update(1)   # the environment logs an event for 'a' only
    agents = engine.state.get_value()['agents']
    later = {k: agents[k]['s']['events'] for k in 'abc'}
    print('events one step later         :', later)

    problems = []
    if after_division != {'a': {}, 'b': {}, 'c': {}}:
        problems.append(
            'daughters should start from the schema default {}: %r'
            % (after_division,))
    if set(later['a']) != {'seen@2'}:
        problems.append('daughter a should hold the one event logged for it')
    if later['b'] != {}:
        problems.append(
            'nothing was logged for daughter b but it holds %r: what was '
            'done to daughter a changed daughter b' % (later['b'],))
    if later['c'] != {}:
        problems.append(
            'agent c is outside the divided compartment and nothing was '
            'logged for it, but it holds %r' % (later['c'],))
    if problems:
        print('VIOLATION:')
        for p in problems:
            print(' -', p)
        return 1
    print('OK: daughters start from independent defaults')
    return 0


if __name__ == '__main__':
    sys.exit(main())
