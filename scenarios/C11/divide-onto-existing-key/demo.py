"""C11: division builds two NEW daughters from the mother's shares; nothing
outside the divided compartment is changed by it.

Ten-agent style numbering: the agents store holds the shipped ToyAgent
composites '1' and '10'.  Agent '1' divides through the shipped MetaDivision
step with its default daughter_ids_function (daughter_phylogeny_id:
mother id + '0' / '1'), so its daughters are called '10' and '11'.

Expected: three agents afterwards; the resident agent '10' keeps its own
process instances and its own state (500 + 100 units of A), the daughters
carry copies of the mother's 3 + 1.
Observed: Store.divide generates daughter '10' INTO the resident compartment
without any check (Store.add refuses an existing key): the resident's
processes are replaced, its state is overwritten with the mother's share,
and only two agents remain.
"""
import sys
from vivarium.core.engine import Engine
from vivarium.core.process import Process
from vivarium.processes.meta_division import ToyAgent


class RaiseFlag(Process):
    """outside the agents: tells agent '1' to divide"""
    def ports_schema(self):
        return {'agents': {'*': {'global': {'divide': {
            '_default': False, '_updater': 'set'}}}}}

    def next_update(self, timestep, states):
        if '1' in states['agents']:
            return {'agents': {'1': {'global': {'divide': True}}}}
        return {}


def total_a(agent):
    return agent['internal']['A'] + agent['external']['A']


def main():
    composite = ToyAgent({'agent_id': '1'}).generate(path=('agents', '1'))
    composite.merge(
        composite=ToyAgent({'agent_id': '10'}).generate(
            path=('agents', '10')))
    composite.merge(
        processes={'flag': RaiseFlag()},
        topology={'flag': {'agents': ('agents',)}})
    engine = Engine(
        composite=composite,
        initial_state={'agents': {
            '1': {'internal': {'A': 3.0}, 'external': {'A': 1.0}},
            '10': {'internal': {'A': 500.0}, 'external': {'A': 100.0}}}},
        display_info=False)
    resident_exchange = engine.processes['agents']['10']['exchange']
    resident_node = engine.state.get_path(('agents', '10'))
    assert total_a(engine.state.get_value()['agents']['10']) == 600.0

    # RaiseFlag sets the mother's flag, MetaDivision of agent '1' fires in
    # the step phase that follows
    try:
        engine.update(1)
    except Exception as error:  # the collision is refused loudly
        if 'already present' not in str(error):
            raise
        print('the division was rejected:', error)
        agents = engine.state.get_value()['agents']
        ok = (engine.state.get_path(('agents', '10')) is resident_node
              and engine.processes['agents']['10']['exchange']
              is resident_exchange
              and abs(total_a(agents['10']) - 600.0) < 1e-9)
        engine.end()
        if not ok:
            print('PROPERTY VIOLATED: the rejected division changed the '
                  "resident agent '10'")
            return 1
        print('ok')
        return 0

    agents = engine.state.get_value()['agents']
    print('agents after the division of 1:', sorted(agents))
    bad = []
    if len(agents) != 3 or '1' in agents:
        bad.append('expected the resident and two daughters, found %s' % (
            sorted(agents),))
    if engine.state.get_path(('agents', '10')) is not resident_node or \
            engine.processes['agents']['10']['exchange'] \
            is not resident_exchange:
        bad.append("the resident agent '10' lost its process instances")
    if abs(total_a(agents['10']) - 600.0) > 1e-9:
        bad.append(
            "the resident agent '10' held 600 units of A, now %r" % (
                total_a(agents['10']),))
    engine.end()
    if bad:
        print('PROPERTY VIOLATED:', '; '.join(bad))
        return 1
    print('ok')
    return 0


if __name__ == '__main__':
    sys.exit(main())
