"""C11 - the divided share is "overridden only by an explicit daughter
initial state".

The mother keeps a dict-valued variable `events` (one leaf variable whose
value is a dictionary, built-in 'dict_value' updater, default 'set'
divider).  The dividing process wants the daughters to start with a fresh
log and says so with an explicit daughter initial state
{'s': {'events': {}}} for daughter 'a' and {'s': {'events': {'born': 1}}}
for daughter 'b'.

Everywhere else an initial state SETS a leaf variable (Engine(initial_state
=...), _generate, _add all go through Store.set_value, which replaces the
leaf's value).  Store.divide instead deep_merge()s the explicit state into
the divided state, and deep_merge cannot tell a dict-valued leaf from a
branch: the explicit value is merged key by key into the mother's share, so
the mother's entries survive in the daughters and an explicit {} has no
effect at all.

Expected (property): a.events == {} and b.events == {'born': 1}.
"""
import sys

from vivarium.core.process import Process
from vivarium.core.engine import Engine


class Recorder(Process):
    defaults = {'active': False, 'label': ''}

    def __init__(self, parameters=None):
        super().__init__(parameters)
        self.n = 0

    def ports_schema(self):
        return {'s': {
            'events': {'_default': {}, '_updater': 'dict_value'},
            'x': {'_default': 0, '_divider': 'split'}}}

    def next_update(self, timestep, states):
        if not self.parameters['active']:
            return {}
        self.n += 1
        return {'s': {'events': {'_add': [{
            'key': '%s-%d' % (self.parameters['label'], self.n),
            'state': {'n': self.n}}]}}}


class Splitter(Process):
    """Divides agent 'm' at t=2."""

    def __init__(self, parameters=None):
        super().__init__(parameters)
        self.t = 0

    def ports_schema(self):
        return {'agents': {}}

    def next_update(self, timestep, states):
        self.t += timestep
        if self.t != 2:
            return {}
        explicit = {'a': {'s': {'events': {}}},
                    'b': {'s': {'events': {'born': 1}}}}
        daughters = [{
            'key': key,
            'processes': {'rec': Recorder({'active': False, 'label': key})},
            'topology': {'rec': {'s': ('s',)}},
            'initial_state': explicit[key]} for key in ('a', 'b')]
        return {'agents': {'_divide': {'mother': 'm', 'daughters': daughters}}}


def main():
    engine = Engine(
        processes={
            'agents': {'m': {'rec': Recorder({'active': True, 'label': 'm'})}},
            'splitter': Splitter()},
        topology={
            'agents': {'m': {'rec': {'s': ('s',)}}},
            'splitter': {'agents': ('agents',)}},
        initial_state={'agents': {'m': {'s': {'x': 7}}}},
        progress_bar=False)
    engine.update(1)
    mother = engine.state.get_value()['agents']['m']['s']
    print('mother before division:', mother)
    engine.update(1)   # 'm' divides into 'a' and 'b'
    state = engine.state.get_value()['agents']
    a, b = state['a']['s'], state['b']['s']
    print('daughter a:', a)
    print('daughter b:', b)

    problems = []
    if a['x'] + b['x'] != 7:
        problems.append('x is not conserved')
    if a['events'] != {}:
        problems.append(
            "daughter a was given the explicit initial state events={} but "
            "starts with %r" % (a['events'],))
    if b['events'] != {'born': 1}:
        problems.append(
            "daughter b was given the explicit initial state "
            "events={'born': 1} but starts with %r" % (b['events'],))
    if problems:
        print('VIOLATION:')
        for p in problems:
            print(' -', p)
        return 1
    print('OK: the explicit daughter initial state overrides the share')
    return 0


if __name__ == '__main__':
    sys.exit(main())
