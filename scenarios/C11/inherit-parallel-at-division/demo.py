"""C11 - the two daughters hold separate process instances.

A compartment whose process runs in parallel ('_parallel': True) divides
and the daughters are given only their keys, i.e. they inherit the
mother's processes (the form used by vivarium/experiments/bigraph_view.py;
Store.divide: "if no processes provided, copy the mother's processes").
The parallel process has NO update in flight when the division is applied
(it is listed before the dividing process and has the same timestep, so
its result has already been collected).

Store.divide copies the mother's processes with copy.deepcopy.  For a
ParallelProcess that tries to deep-copy the multiprocessing.Process handle
and the pipe: it raises "TypeError: Pickling an AuthenticationString
object is disallowed for security reasons" out of Engine.update, and the
half-built copy's __del__ closes the file descriptor of the MOTHER's pipe,
so the engine cannot even be ended cleanly afterwards.  The serial run of
the same composite divides fine.

Expected (property): both runs divide; x (divider 'split') is conserved;
each daughter owns its own process instance (for the parallel run: its own
worker), and each daughter keeps growing on its own.
"""
import sys

from vivarium.core.process import Process, ParallelProcess
from vivarium.core.engine import Engine


class Grow(Process):
    defaults = {'rate': 1}

    def ports_schema(self):
        return {'s': {'x': {'_default': 0, '_divider': 'split'}}}

    def next_update(self, timestep, states):
        return {'s': {'x': self.parameters['rate'] * timestep}}


class Splitter(Process):
    """Divides agent 'm' at t=2; the daughters inherit everything."""

    def __init__(self, parameters=None):
        super().__init__(parameters)
        self.t = 0

    def ports_schema(self):
        return {'agents': {}}

    def next_update(self, timestep, states):
        self.t += timestep
        if self.t != 2:
            return {}
        return {'agents': {'_divide': {
            'mother': 'm', 'daughters': [{'key': 'a'}, {'key': 'b'}]}}}


def run(parallel):
    engine = Engine(
        processes={
            'agents': {'m': {'grow': Grow({'_parallel': parallel})}},
            'splitter': Splitter()},
        topology={
            'agents': {'m': {'grow': {'s': ('s',)}}},
            'splitter': {'agents': ('agents',)}},
        initial_state={'agents': {'m': {'s': {'x': 5}}}},
        progress_bar=False)
    problems = []
    try:
        engine.update(1)
        engine.update(1)   # x = 7, then 'm' divides into 'a' and 'b'
        agents = engine.state.get_value()['agents']
        if set(agents) != {'a', 'b'}:
            problems.append('no division: %r' % (sorted(agents),))
        else:
            xa, xb = agents['a']['s']['x'], agents['b']['s']['x']
            print('  after division: a.x=%r b.x=%r' % (xa, xb))
            if xa + xb != 7:
                problems.append('x not conserved: %r + %r != 7' % (xa, xb))
            pa = engine.state.get_path(('agents', 'a', 'grow')).value
            pb = engine.state.get_path(('agents', 'b', 'grow')).value
            if pa is pb:
                problems.append('daughters share one process instance')
            if parallel:
                if not (isinstance(pa, ParallelProcess)
                        and isinstance(pb, ParallelProcess)):
                    problems.append('daughter processes are not parallel')
                elif pa.multiprocess.pid == pb.multiprocess.pid:
                    problems.append('daughters share one worker')
            engine.update(2)
            agents = engine.state.get_value()['agents']
            ya, yb = agents['a']['s']['x'], agents['b']['s']['x']
            print('  two steps later: a.x=%r b.x=%r' % (ya, yb))
            if (ya, yb) != (xa + 2, xb + 2):
                problems.append('daughters do not grow independently')
    except Exception as exc:  # pylint: disable=broad-except
        problems.append(
            'Engine.update raised %s: %s' % (type(exc).__name__, exc))
    finally:
        try:
            engine.end()
        except Exception as exc:  # pylint: disable=broad-except
            problems.append(
                'Engine.end raised %s: %s' % (type(exc).__name__, exc))
    return problems


def main():
    print('serial run')
    serial = run(False)
    print('  problems:', serial)
    print('parallel run')
    parallel = run(True)
    print('  problems:', parallel)
    if serial or parallel:
        print('VIOLATION:')
        for p in serial:
            print(' - serial:', p)
        for p in parallel:
            print(' - parallel:', p)
        return 1
    print('OK: daughters inherit separate process instances')
    return 0


if __name__ == '__main__':
    sys.exit(main())
