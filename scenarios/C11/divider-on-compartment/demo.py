"""C11: every variable of the mother is passed through ITS declared divider.

The process below declares, as toys.Proton does for its 'quarks' port, a
glob port with a branch-level divider ('_divider': 'split_dict' next to '*'),
plus two counters with the 'split' divider.  The glob port is wired in three
equivalent ways to the store 'q' of the compartment:

    ('q',)                          tuple path
    {'_path': ('q',), '*': ()}      dictionary with _path
    {'*': ('q',)}                   dictionary that wires the glob itself

Expected for each wiring: the records of q are partitioned between the
daughters, mass and n are split so that the daughters' values sum to the
mother's.
Observed for {'*': ('q',)}: Store._topology_ports puts the port's _divider
on the node it was called on - the COMPARTMENT - so split_dict is applied to
the whole compartment: one daughter receives mass, n and all records
unsplit, the other gets an empty q and the schema defaults.
"""
import sys
from vivarium.core.process import Process
from vivarium.core.engine import Engine


class Cell(Process):
    def ports_schema(self):
        return {
            'quarks': {
                '_divider': 'split_dict',
                '*': {'color': {'_default': 'r', '_updater': 'set'}}},
            'g': {
                'mass': {'_default': 0, '_divider': 'split'},
                'n': {'_default': 0, '_divider': 'split'}}}

    def next_update(self, timestep, states):
        return {}


class Trigger(Process):
    def ports_schema(self):
        return {'agents': {'*': {}}}

    def next_update(self, timestep, states):
        if 'm' not in states['agents']:
            return {}
        return {'agents': {'_divide': {
            'mother': 'm',
            'daughters': [{'key': 'd1'}, {'key': 'd2'}]}}}


def run(quarks_wiring):
    engine = Engine(
        processes={'trigger': Trigger(), 'agents': {'m': {'cell': Cell()}}},
        topology={
            'trigger': {'agents': ('agents',)},
            'agents': {'m': {'cell': {
                'quarks': quarks_wiring, 'g': ('g',)}}}},
        initial_state={'agents': {'m': {
            'g': {'mass': 10, 'n': 7},
            'q': {'a': {'color': 'g'}, 'b': {'color': 'b'},
                  'c': {'color': 'r'}}}}},
        display_info=False)
    mother = engine.state.get_value()['agents']['m']
    assert mother['g'] == {'mass': 10, 'n': 7}
    assert set(mother['q']) == {'a', 'b', 'c'}
    engine.update(1)
    agents = engine.state.get_value()['agents']
    d1, d2 = agents['d1'], agents['d2']
    bad = []
    for var, total in (('mass', 10), ('n', 7)):
        got = d1['g'][var] + d2['g'][var]
        if got != total or abs(d1['g'][var] - d2['g'][var]) > 1:
            bad.append('%s: daughters hold %r and %r, not the halves of %r' % (
                var, d1['g'][var], d2['g'][var], total))
    k1, k2 = set(d1['q']), set(d2['q'])
    if (k1 | k2) != {'a', 'b', 'c'} or (k1 & k2) or \
            abs(len(k1) - len(k2)) > 1:
        bad.append('q not partitioned: %s / %s' % (sorted(k1), sorted(k2)))
    engine.end()
    return bad


def main():
    status = 0
    for wiring in (('q',), {'_path': ('q',), '*': ()}, {'*': ('q',)}):
        bad = run(wiring)
        print('quarks wired as %r: %s' % (
            wiring, 'ok' if not bad else 'VIOLATED: ' + '; '.join(bad)))
        if bad:
            status = 1
    return status


if __name__ == '__main__':
    sys.exit(main())
