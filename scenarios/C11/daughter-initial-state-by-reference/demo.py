"""C11 - daughters must hold separate state.

The event log of a cell is not inherited (divider 'null'); the dividing
process gives both daughters a birth record through an explicit daughter
initial state and (naturally) builds that state once, handing the same
dictionary to both daughters.  Store.divide merges the explicit
initial state into the divided state BY REFERENCE and Store.set_value
stores the leaf object itself, so both daughters' `events` variable is one
and the same dict object - the one that belongs to the dividing process.
The variable uses the built-in in-place 'dict_value' updater, so an event
recorded by daughter 'a' shows up in daughter 'b' and in the template kept
by the dividing process (which therefore pollutes every later division).

Expected (property): after the division only 'a' (the only daughter whose
process records events) gains events; 'b' keeps just its birth record and
the divider's template is unchanged.
"""
import sys

from vivarium.core.process import Process
from vivarium.core.engine import Engine


class Recorder(Process):
    """Records one event per step when active."""
    defaults = {'active': False, 'label': ''}

    def __init__(self, parameters=None):
        super().__init__(parameters)
        self.n = 0

    def ports_schema(self):
        return {'s': {
            'events': {
                '_default': {}, '_updater': 'dict_value',
                '_divider': 'null'},
            'x': {'_default': 0, '_divider': 'split'}}}

    def next_update(self, timestep, states):
        if not self.parameters['active']:
            return {}
        self.n += 1
        return {'s': {'events': {'_add': [{
            'key': '%s-%d' % (self.parameters['label'], self.n),
            'state': {'n': self.n}}]}}}


class Splitter(Process):
    """Divides agent 'm' at t=1; daughters start with a birth record."""
    defaults = {'daughter_state': {'s': {'events': {'born': {'t': 1}}}}}

    def __init__(self, parameters=None):
        super().__init__(parameters)
        self.t = 0

    def ports_schema(self):
        return {'agents': {}}

    def next_update(self, timestep, states):
        self.t += timestep
        if self.t != 1:
            return {}
        template = self.parameters['daughter_state']
        daughters = []
        for key, active in (('a', True), ('b', False)):
            daughters.append({
                'key': key,
                'processes': {
                    'rec': Recorder({'active': active, 'label': key})},
                'topology': {'rec': {'s': ('s',)}},
                'initial_state': template})
        return {'agents': {'_divide': {'mother': 'm', 'daughters': daughters}}}


def main():
    splitter = Splitter()
    engine = Engine(
        processes={
            'agents': {'m': {'rec': Recorder({'active': True, 'label': 'm'})}},
            'splitter': splitter},
        topology={
            'agents': {'m': {'rec': {'s': ('s',)}}},
            'splitter': {'agents': ('agents',)}},
        initial_state={'agents': {'m': {'s': {'x': 7}}}},
        progress_bar=False)
    engine.update(1)   # 'm' divides into 'a' and 'b'
    engine.update(2)   # only daughter 'a' records events
    state = engine.state.get_value()
    events_a = state['agents']['a']['s']['events']
    events_b = state['agents']['b']['s']['events']
    template = splitter.parameters['daughter_state']
    print('a.events =', events_a)
    print('b.events =', events_b)
    print('divider template =', template)

    problems = []
    if set(events_a) != {'born', 'a-1', 'a-2'}:
        problems.append(
            'daughter a should hold its birth record and its own two events')
    if events_b != {'born': {'t': 1}}:
        problems.append(
            'daughter b never recorded anything but holds %r: what daughter '
            'a did changed daughter b' % (events_b,))
    if template != {'s': {'events': {'born': {'t': 1}}}}:
        problems.append(
            'the explicit initial state owned by the dividing process was '
            'modified through the daughters: %r' % (template,))
    if problems:
        print('VIOLATION:')
        for p in problems:
            print(' -', p)
        return 1
    print('OK: daughters are independent')
    return 0


if __name__ == '__main__':
    sys.exit(main())
