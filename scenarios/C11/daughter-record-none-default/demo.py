"""C11: a daughter's state is the divided share, overridden by the explicit
daughter initial state and COMPLETED BY SCHEMA DEFAULTS.

An environment process declares, through a glob port over the agents store,
that every agent has a store 'bag' of records {n (split), w (default 1.5)}.
The mother holds one record.  The dividing process gives daughter d1 an
explicit initial state that puts one more record into its bag and spells out
only 'n'.  Expected: the new record is completed with the declared default
(w == 1.5), exactly as happens for the same initial state at Engine
construction and for a bag declared by the daughter's own process.
Observed: w is None in the daughter (the record is created by the second
set_value of Store.divide, which runs AFTER apply_defaults).
"""
import sys
from vivarium.core.process import Process
from vivarium.core.engine import Engine

RECORD = {
    'n': {'_default': 0, '_divider': 'split'},
    'w': {'_default': 1.5}}


class Env(Process):
    """outside the agents; declares what every agent carries"""
    def ports_schema(self):
        return {'agents': {'*': {'bag': {'*': RECORD}}}}

    def next_update(self, timestep, states):
        return {}


class Cell(Process):
    def ports_schema(self):
        return {'s': {'x': {'_default': 1}}}

    def next_update(self, timestep, states):
        return {}


class Trigger(Process):
    def ports_schema(self):
        return {'agents': {'*': {}}}

    def next_update(self, timestep, states):
        if 'm' not in states['agents']:
            return {}
        return {'agents': {'_divide': {
            'mother': 'm',
            'daughters': [
                {'key': 'd1',
                 'initial_state': {'bag': {'kid': {'n': 1}}}},
                {'key': 'd2'}]}}}


def main():
    initial_state = {'agents': {'m': {'bag': {'p1': {'n': 5}}}}}
    engine = Engine(
        processes={
            'env': Env(), 'trigger': Trigger(),
            'agents': {'m': {'cell': Cell()}}},
        topology={
            'env': {'agents': ('agents',)},
            'trigger': {'agents': ('agents',)},
            'agents': {'m': {'cell': {'s': ('s',)}}}},
        initial_state=initial_state,
        display_info=False)
    before = engine.state.get_value()['agents']['m']['bag']
    # at construction a record given only by 'n' is completed: w == 1.5
    assert before == {'p1': {'n': 5, 'w': 1.5}}, before

    engine.update(1)
    agents = engine.state.get_value()['agents']
    bag1 = agents['d1']['bag']
    bag2 = agents['d2']['bag']
    print('d1 bag:', bag1)
    print('d2 bag:', bag2)
    bad = []
    if bag1['p1']['n'] + bag2['p1']['n'] != 5:
        bad.append('split share of p1.n not conserved')
    if bag1.get('kid', {}).get('n') != 1:
        bad.append('explicit initial state of d1 not applied')
    if bag1.get('kid', {}).get('w') != 1.5:
        bad.append(
            "d1/bag/kid/w is %r, expected the schema default 1.5" % (
                bag1.get('kid', {}).get('w'),))
    if bad:
        print('PROPERTY VIOLATED:', '; '.join(bad))
        return 1
    print('ok')
    return 0


if __name__ == '__main__':
    sys.exit(main())
