"""C03 / f4: with progress_bar=True a run_for()/update() whose interval ends
at time 0 raises ZeroDivisionError out of the scheduler loop at the first
event (print_progress_bar(self.global_time, end_time) divides by end_time),
after the clock was advanced and the updates applied but before the row of
that event is emitted; the call does not reach the end of its interval.

An engine started at a negative time (initial_global_time=-2: time counted
relative to an event at t = 0) runs fine without the progress bar.

Expected (property C03): the call returns with the clock on start + interval.
"""
import contextlib
import io
import sys

from vivarium.core.engine import Engine
from vivarium.core.process import Process


class Counter(Process):
    def ports_schema(self):
        return {'s': {'n': {
            '_default': 0, '_updater': 'accumulate', '_emit': True}}}

    def next_update(self, timestep, states):
        return {'s': {'n': 1}}


def run(progress_bar):
    engine = Engine(
        processes={'p': Counter({'timestep': 1.0})},
        topology={'p': {'s': ('store',)}},
        display_info=False,
        initial_global_time=-2,
        progress_bar=progress_bar)
    error = None
    with contextlib.redirect_stdout(io.StringIO()):
        try:
            engine.update(2)
        except Exception as e:  # pylint: disable=broad-except
            error = e
    return engine, error


failures = []

engine, error = run(False)
assert error is None and engine.global_time == 0, (error, engine.global_time)
assert sorted(engine.emitter.saved_data) == [-2, -1.0, 0.0]

engine, error = run(True)
if error is not None:
    failures.append(
        f'update(2) from -2 with progress_bar=True raised {error!r}; '
        f'clock left at {engine.global_time} (expected 0), rows at '
        f'{sorted(engine.emitter.saved_data)}, n = '
        f'{engine.state.get_path(("store", "n")).get_value()}')
elif engine.global_time != 0:
    failures.append(f'clock at {engine.global_time}')

if failures:
    print('C03 VIOLATED:')
    for f in failures:
        print(' -', f)
    sys.exit(1)
print('ok')
sys.exit(0)
