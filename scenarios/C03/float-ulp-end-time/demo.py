"""C03 / f1: without global_time_precision, run_for advances the clock with
global_time + (event_time - global_time), which in floating point is not always
event_time.  When the next event is exactly the end of the requested interval
and the sum comes out one ulp ABOVE it, run_for takes the 'all processes have
run past the interval' branch: the clock jumps to end_time, the due updates are
not applied, quiet processes are not advanced, and Engine.update() does not
return (AssertionError from _check_complete); run_for(force_complete=True)
returns with processes that did not complete.

Expected (property C03): update(interval) returns, with the clock on
start + interval, for every composite whose processes ask for positive
timesteps, whatever (adaptive) timesteps / condition outcomes they produce.
"""
import sys

from vivarium.core.engine import Engine
from vivarium.core.process import Process


class Counter(Process):
    """Adds 1 to its counter per invocation; timesteps come from a list
    (adaptive timestep: the last entry is repeated)."""
    defaults = {'timesteps': [1.0]}

    def __init__(self, parameters=None):
        super().__init__(parameters)
        self.calls = 0

    def ports_schema(self):
        return {'s': {'n': {
            '_default': 0, '_updater': 'accumulate', '_emit': True}}}

    def calculate_timestep(self, states):
        steps = self.parameters['timesteps']
        return steps[min(self.calls, len(steps) - 1)]

    def next_update(self, timestep, states):
        self.calls += 1
        return {'s': {'n': 1}}


class OneShot(Process):
    """Fixed timestep; runs while its `go` variable is True and switches
    it off in its first update (the documented `_condition` parameter)."""
    defaults = {'_condition': ('s', 'go')}

    def ports_schema(self):
        return {'s': {
            'go': {'_default': True, '_updater': 'set'},
            'n': {'_default': 0, '_updater': 'accumulate'}}}

    def next_update(self, timestep, states):
        return {'s': {'go': False, 'n': 1}}


failures = []


def check(label, engine, interval, expected):
    start = engine.global_time
    try:
        engine.update(interval)
    except AssertionError as e:
        failures.append(
            f'{label}: update({interval}) did not return: AssertionError: {e}')
    except Exception as e:  # pylint: disable=broad-except
        failures.append(f'{label}: update({interval}) raised {e!r}')
    if engine.global_time != start + interval:
        failures.append(
            f'{label}: clock at {engine.global_time}, '
            f'expected {start + interval}')
    for path, want in expected.items():
        got = engine.state.get_path(path).get_value()
        if got != want:
            failures.append(
                f'{label}: {path} is {got} when update() is over, '
                f'expected {want} (an update that was due at the end of '
                f'the interval was not applied)')


# (a) one process with an adaptive timestep: 0.6 s first, then 2 s.
#     update(1.7): invoked for [0, 0.6], then forced to complete on [0.6, 1.7].
e = Engine(
    processes={'p': Counter({'timesteps': [0.6, 2.0]})},
    topology={'p': {'s': ('store',)}},
    display_info=False)
check('adaptive 0.6 then 2.0, update(1.7)', e, 1.7, {('store', 'n'): 2})

# control: the same composite over an interval where the float sum is exact
e = Engine(
    processes={'p': Counter({'timesteps': [0.6, 2.0]})},
    topology={'p': {'s': ('store',)}},
    display_info=False)
before = len(failures)
check('control update(1.6)', e, 1.6, {('store', 'n'): 2})
assert len(failures) == before, failures[before:]

# (b) fixed timesteps only: a 0.3 s process that stops meeting its update
#     condition after its first update, next to a 0.9 s process; update(0.9).
e = Engine(
    processes={'a': OneShot({'timestep': 0.3}),
               'b': Counter({'timesteps': [0.9]})},
    topology={'a': {'s': ('sa',)}, 'b': {'s': ('sb',)}},
    display_info=False)
check('0.3 s one-shot + 0.9 s process, update(0.9)', e, 0.9,
      {('sa', 'n'): 1, ('sb', 'n'): 1})

# (c) run_for(force_complete=True) returns, but nothing completed
e = Engine(
    processes={'p': Counter({'timesteps': [0.7, 5.0]})},
    topology={'p': {'s': ('store',)}},
    display_info=False)
e.run_for(2.9, force_complete=True)
front = e.front[('p',)]
if front['update'] or e.state.get_path(('store', 'n')).get_value() != 2:
    failures.append(
        'run_for(2.9, force_complete=True) returned at '
        f'{e.global_time} with the update of the process still in the '
        f'front (n = {e.state.get_path(("store", "n")).get_value()}, '
        'expected 2)')

if failures:
    print('C03 VIOLATED:')
    for f in failures:
        print(' -', f)
    sys.exit(1)
print('ok')
sys.exit(0)
