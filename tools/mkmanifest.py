#!/usr/bin/env python3
"""Regenerate MANIFEST.json from tools/registry.json (one entry per claimed property)."""
import json, os
HERE = os.path.dirname(os.path.dirname(os.path.abspath(__file__)))
reg = json.load(open(os.path.join(HERE, 'tools', 'registry.json')))
props = [json.loads(l)['id'] for l in open(os.path.join(HERE, 'properties.jsonl'))]
checks = []
for pid in props:
    r = reg['claimed'].get(pid)
    if not r:
        continue
    checks.append({
        'property_id': pid,
        'quick_cmd': './check %s --tier quick' % pid,
        'thorough_cmd': './check %s --tier thorough' % pid,
        'evidence_file': '/verif/evidence/%s.json' % pid,
        'replay_cmd_template': './check %s --replay {path}' % pid,
        'engine': 'coq+correspondence',
        'level_claimed': {'category': 'proof', 'text': r['text'], 'design_ref': r.get('design_ref', 'DESIGN.md section 5')},
        'level_note': r['note'],
        'technique': r['technique'],
    })
na = [{'property_id': pid, 'reason': reg['not_applicable'].get(pid, 'machinery for this property is not finished yet; see DESIGN.md status appendix')}
      for pid in props if pid not in reg['claimed']]
m = {
    'version': 1,
    'setup_cmd': 'cd /verif && ./setup.sh',
    'hooks': {
        'guard': 'VIVARIUM_CORE_VERIF',
        'enable': 'no hooks are needed: every observation point is reachable through the public API (user Process/Step/Emitter subclasses, registered updaters)',
        'baseline_off_cmd': 'cd /repo && /venv/bin/python -m pytest -ra -q -p no:cacheprovider --timeout=900 --continue-on-collection-errors',
        'source_commits': [],
        'add_only': True,
    },
    'engines': [{
        'name': 'coq+correspondence', 'path': '/verif/check',
        'serves_properties': [c['property_id'] for c in checks],
        'kind_free_text': 'Coq 8.16.1 theorems about hand-written Gallina models (coq/), tied to /repo on every run by a differential correspondence check that evaluates the models inside Coq (vm_compute) on the cases the implementation just ran, plus an implementation-side property oracle that searches for concrete failing inputs',
    }],
    'checks': checks,
    'notes': reg.get('notes', ''),
    'not_applicable': na,
}
json.dump(m, open(os.path.join(HERE, 'MANIFEST.json'), 'w'), indent=1)
print('claimed:', [c['property_id'] for c in checks])
