#!/usr/bin/env python3
"""One-off helper: print the full statements of proved lemmas (via `Check @name`) so that a
Props file can restate them verbatim.  Usage: mkprops.py "<imports>" name1 name2 ..."""
import re, subprocess, sys, os, tempfile
imports = sys.argv[1]
names = sys.argv[2:]
src = imports + '\nSet Printing Width 110.\nSet Printing Depth 1000.\n' + ''.join('Check @%s.\n' % n for n in names)
d = '/verif/build/mkprops'
os.makedirs(d, exist_ok=True)
open(d + '/q.v', 'w').write(src)
out = subprocess.run('coqc -R /verif/coq Viv -Q . Q q.v', shell=True, cwd=d, capture_output=True, text=True).stdout
# split per Check
chunks = re.split(r'(?m)^(?=@?[A-Za-z_][A-Za-z0-9_\']*\n?\s*:)', out)
for ch in chunks:
    ch = ch.strip()
    if not ch:
        continue
    m = re.match(r'@?([A-Za-z_][A-Za-z0-9_\']*)\s*:\s*(.*)$', ch, re.S)
    if m:
        print('### ' + m.group(1))
        print(m.group(2).strip())
