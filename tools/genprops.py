#!/usr/bin/env python3
"""Generate a Props/Cxx.v that restates proved lemmas verbatim (statement obtained from
`Check @name`) and closes each with `exact`.  The output is committed source; this script is a
convenience, not part of the checks."""
import re, subprocess, sys, os, json

def statements(imports, names):
    src = imports + '\nSet Printing Width 100.\nSet Printing Depth 1000.\n' + ''.join('Check @%s.\n' % n for n in names)
    d = '/verif/build/mkprops'
    os.makedirs(d, exist_ok=True)
    open(d + '/q.v', 'w').write(src)
    p = subprocess.run('coqc -R /verif/coq Viv -Q . Q q.v', shell=True, cwd=d, capture_output=True, text=True)
    if p.returncode:
        raise SystemExit(p.stdout + p.stderr)
    out = {}
    chunks = re.split(r'(?m)^(?=@?[A-Za-z_][A-Za-z0-9_\']*\n?\s*:)', p.stdout)
    for ch in chunks:
        m = re.match(r'@?([A-Za-z_][A-Za-z0-9_\']*)\s*:\s*(.*)$', ch.strip(), re.S)
        if m:
            out[m.group(1)] = m.group(2).strip()
    return out

def gen(spec):
    names = [t[0] for t in spec['theorems']]
    st = statements(spec['imports'], names)
    lines = ['(* %s' % spec['header'], '   This file contains only statements closed by `exact`, their assumptions and non-vacuity examples.',
             '   Generated once by tools/genprops.py from the proved lemmas (statements restated verbatim). *)',
             spec['imports'], '']
    for name, comment in spec['theorems']:
        lines.append('(* %s *)' % comment)
        lines.append('Theorem %s_%s :\n  %s.' % (spec['id'], name, st[name].replace('\n', '\n  ')))
        lines.append('Proof. exact @%s. Qed.' % name)
        lines.append('Print Assumptions %s_%s.\n' % (spec['id'], name))
    lines.append(spec.get('tail', ''))
    open('/verif/coq/Props/%s.v' % spec['id'], 'w').write('\n'.join(lines) + '\n')

if __name__ == '__main__':
    gen(json.load(open(sys.argv[1])))
