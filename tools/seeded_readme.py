#!/usr/bin/env python3
"""Write seeded/README.md from seeded/*/meta.json, result.json and notes.json (what was strengthened)."""
import json, os
V = os.path.dirname(os.path.dirname(os.path.abspath(__file__)))
S = os.path.join(V, 'seeded')
notes = json.load(open(os.path.join(S, 'notes.json')))
rows = []
for name in sorted(os.listdir(S)):
    d = os.path.join(S, name)
    if not os.path.isfile(os.path.join(d, 'meta.json')):
        continue
    m = json.load(open(os.path.join(d, 'meta.json')))
    r = json.load(open(os.path.join(d, 'result.json'))) if os.path.exists(os.path.join(d, 'result.json')) else {}
    t = r.get('caught_by', '?')
    first = ((r.get(t) or {}).get('first') or [{}])[0] if t in ('quick', 'thorough') else {}
    how = first.get('kind', '')
    if how == 'oracle':
        how = 'oracle `%s`' % first.get('signature')
    elif how == 'correspondence':
        how = 'model/implementation correspondence'
    n = notes.get(name, {})
    rows.append('| %s | %s | %s | %s | %s | %s |' % (
        name, ', '.join(f.split('/')[-1] for f in m['files']), m['summary'].split('. ')[0][:150].replace('|', '/'),
        n.get('first_pass', 'caught (quick)'), ('RETIRED: ' + m['retired'][:160]) if m.get('retired') else '%s tier: %s' % (t, how), n.get('strengthened', '')))
out = ['# Seeded changes', '',
       'Each directory holds `patch.diff` (against `/repo`), `demo.py` (exits 0 on the unchanged tree, 1 with the change),',
       '`meta.json` (property, what the change does, what it needs to show, how it was confirmed) and `result.json`',
       '(what `tools/run_seeded.py` saw when the registered check of the property ran with the change applied to `/repo`).',
       'The changes were written by fresh sub-agents that saw only the property text and a scratch worktree; none is ever',
       'committed to `/repo`.  "first pass" is the verdict of the checks as they stood when the change arrived.', '',
       '| id | file | change (first sentence) | first pass | now caught by | strengthened after a miss |', '|---|---|---|---|---|---|'] + rows
out += ['', 'Re-run: `python3 tools/run_seeded.py [id ...]` (needs a clean `/repo`; evidence and replays of these runs go to a',
        'scratch directory).']
open(os.path.join(S, 'README.md'), 'w').write('\n'.join(out) + '\n')
print(len(rows), 'rows')
