#!/usr/bin/env python3
"""Run the registered checks against every seeded change under /verif/seeded.

For each seeded/<id>/patch.diff: apply it to /repo (git apply), run `./check <property>` (quick tier; the thorough
tier as well when the quick tier stays silent; with --all also the quick tier of every other property), record what
was reported in seeded/<id>/result.json, and undo it (git checkout -- .).  Evidence and replays of these runs go to
a scratch directory, never to /verif/evidence.  Nothing else may use /repo while this runs, unless --scratch is
given: then a scratch git worktree of /repo's HEAD is used instead of /repo (removed afterwards)."""
import json, os, re, shutil, subprocess, sys, tempfile, time

VERIF = os.path.dirname(os.path.dirname(os.path.abspath(__file__)))
REPO = '/repo'


def sh(cmd, **kw):
    p = subprocess.run(cmd, shell=True, stdout=subprocess.PIPE, stderr=subprocess.STDOUT, text=True, **kw)
    return p.returncode, p.stdout


def run_check(prop, tier, env):
    t0 = time.time()
    rc, out = sh('./check %s --tier %s' % (prop, tier), cwd=VERIF, env=env)
    lines = out.splitlines()
    viol = [l for l in lines if l.startswith('VIOLATION')]
    summary = [l for l in lines if re.match(r'^C\d\d tier=', l)]
    msgs = []
    for v in viol[:3]:
        m = re.search(r'replay=(\S+)', v)
        if m and os.path.exists(m.group(1)):
            try:
                d = json.load(open(m.group(1)))
                msgs.append({'kind': d.get('kind'), 'signature': d.get('signature'), 'message': str(d.get('message'))[:400]})
            except Exception as e:
                msgs.append({'error': repr(e)})
    return {'exit': rc, 'violations': len(viol), 'no_failing_input': sum('no-failing-input-found' in v for v in viol),
            'summary': summary[-1] if summary else None, 'first': msgs, 'wall_s': round(time.time() - t0, 1)}


def main():
    global REPO
    args = sys.argv[1:]
    if '--jobs' in args:
        # split the work over N scratch worktrees (implies --scratch); each worker is this script on a share
        i = args.index('--jobs')
        n = int(args[i + 1])
        rest = args[:i] + args[i + 2:]
        only = [a for a in rest if not a.startswith('--')] or sorted(
            x for x in os.listdir(os.path.join(VERIF, 'seeded')) if os.path.isfile(os.path.join(VERIF, 'seeded', x, 'patch.diff')))
        only = [i for i in only if not json.load(open(os.path.join(VERIF, 'seeded', i, 'meta.json'))).get('retired')]
        flags = [a for a in rest if a.startswith('--') and a != '--scratch']
        procs = [subprocess.Popen([sys.executable, os.path.abspath(__file__), '--scratch'] + flags + only[k::n])
                 for k in range(n) if only[k::n]]
        sys.exit(max(p.wait() for p in procs))
    every = '--all' in args
    only = [a for a in args if not a.startswith('--')]
    def retired(i):
        try:
            return bool(json.load(open(os.path.join(VERIF, 'seeded', i, 'meta.json'))).get('retired'))
        except Exception:
            return False
    only = [i for i in only if not retired(i)]
    scratch = tempfile.mkdtemp(prefix='seeded_run_')
    env = dict(os.environ, VERIF_EVIDENCE_DIR=os.path.join(scratch, 'evidence'),
               VERIF_REPLAY_DIR=os.path.join(scratch, 'replays'))
    wt = None
    if '--scratch' in args:
        # work on a scratch worktree of /repo's HEAD instead of /repo itself (the checks follow VERIF_REPO)
        wt = os.path.join(scratch, 'repo')
        rc, out = sh('git -C /repo worktree add -q --detach %s HEAD' % wt)
        if rc != 0:
            sys.exit('cannot create the scratch worktree: ' + out)
        REPO = wt
        env['VERIF_REPO'] = wt
    rc, out = sh('git -C %s status --porcelain' % REPO)
    if out.strip():
        sys.exit('refusing: %s has uncommitted changes:\n' % REPO + out)
    props = ['C%02d' % i for i in range(1, 20)]
    rows = []
    try:
        for name in sorted(os.listdir(os.path.join(VERIF, 'seeded'))):
            d = os.path.join(VERIF, 'seeded', name)
            if not os.path.isfile(os.path.join(d, 'patch.diff')) or (only and name not in only):
                continue
            meta = json.load(open(os.path.join(d, 'meta.json')))
            prop = meta['property']
            rc, out = sh('git -C %s apply %s' % (REPO, os.path.join(d, 'patch.diff')))
            if rc != 0:
                rows.append((name, 'PATCH DOES NOT APPLY'))
                print(name, 'patch does not apply:', out)
                continue
            try:
                res = {'quick': run_check(prop, 'quick', env)}
                if res['quick']['exit'] == 0:
                    res['thorough'] = run_check(prop, 'thorough', env)
                if every:
                    res['others_quick'] = {}
                    for q in props:
                        if q != prop:
                            r = run_check(q, 'quick', env)
                            if r['exit'] != 0:
                                res['others_quick'][q] = r
            finally:
                sh('git -C %s checkout -- .' % REPO)
            caught = 'quick' if res['quick']['exit'] else ('thorough' if res.get('thorough', {}).get('exit') else 'MISSED')
            res['caught_by'] = caught
            json.dump(res, open(os.path.join(d, 'result.json'), 'w'), indent=1)
            rows.append((name, caught))
            print(name, caught, (res['quick']['first'] or res.get('thorough', {}).get('first') or [''])[0], flush=True)
    finally:
        sh('git -C %s checkout -- .' % REPO)
        if wt:
            sh('git -C /repo worktree remove --force %s' % wt)
            sh('git -C /repo worktree prune')
        shutil.rmtree(scratch, ignore_errors=True)
    print('\n'.join('%-10s %s' % r for r in rows))


if __name__ == '__main__':
    main()
